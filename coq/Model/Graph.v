(* Graph.v — executable model of MontePy's object graph (properties C16 and C04).

   Source modelled (montepy/…): cell.py (update_pointers, _link_geometry_to_cell, geometry /
   material / universe / fill properties, surfaces, complements, cells_complementing_this,
   remove_duplicate_surfaces, link_to_problem, _update_values), surfaces/half_space.py
   (update_pointers, _add_new_children_to_cell, _get_leaf_objects, divider setter, __iand__,
   __ior__, remove_duplicate_surfaces, _update_node), surfaces/surface.py (cells,
   update_pointers, transform / periodic pointers, _update_values), data_inputs/material.py
   (cells, update_pointers), thermal_scattering.py (update_pointers, _update_values),
   universe.py (cells, number), universe_input.py (push_to_cells, _update_cell_values), fill.py
   (push_to_cells, _update_cell_values), cells.py (update_pointers), mcnp_problem.py
   (__update_internal_pointers, add_cell_children_to_problem, remove_duplicate_surfaces),
   numbered_object_collection.py (append / extend / += / remove: membership and linking).

   Objects are identities (nat, one id space per kind); numbers are fields; every reference
   is an identity edge.  Python mutation = functions returning the new state; exceptions = the
   [res] type; an operation that raises half-way returns the half-updated state, as Python does.
   No proofs in this file. *)
From Coq Require Import List ZArith Bool String Ascii Lia.
From MPV Require Import Model.Wire.
Import ListNotations.
Open Scope list_scope.
Open Scope Z_scope.

Definition oid := nat.

Inductive kind := KCell | KSurf | KMat | KTr | KUniv.
Definition kind_eqb (a b : kind) : bool :=
  match a, b with
  | KCell, KCell | KSurf, KSurf | KMat, KMat | KTr, KTr | KUniv, KUniv => true
  | _, _ => false
  end.

Inductive err :=
| BrokenLink | MalformedInput | KeyErr | NumberConflict | TypeErr | ValueErr | AttributeErr
| PathErr        (* the harness' own refusal: the addressed geometry node does not exist *)
| OutOfFuel.
Inductive res := ROk | RErr (e : err).

(* ---------------------------------------------------------------- geometry *)
Inductive bop := OAnd | OOr.
Inductive dv := DInt (z : Z) | DObj (o : oid).
(* cp = HalfSpace._cell ; isc = UnitHalfSpace._is_cell *)
Inductive hs :=
| Leaf (isc : bool) (d : dv) (cp : option oid)
| Un (l : hs) (cp : option oid)
| Bin (o : bop) (l r : hs) (cp : option oid).

(* the dividers of kind [isc] used by a tree (resolved ones) *)
Fixpoint leaves (isc : bool) (h : hs) : list oid :=
  match h with
  | Leaf b (DObj o) _ => if Bool.eqb b isc then [o] else []
  | Leaf _ (DInt _) _ => []
  | Un l _ => leaves isc l
  | Bin _ l r _ => leaves isc l ++ leaves isc r
  end.
Definition leaves_surf := leaves false.
Definition leaves_cell := leaves true.

Definition set_cp (h : hs) (c : option oid) : hs :=
  match h with
  | Leaf b d _ => Leaf b d c
  | Un l _ => Un l c
  | Bin o l r _ => Bin o l r c
  end.
Definition get_cp (h : hs) : option oid :=
  match h with Leaf _ _ c => c | Un _ c => c | Bin _ _ _ c => c end.

(* a path into a tree: false = .left, true = .right *)
Fixpoint node_at (h : hs) (p : list bool) : option hs :=
  match p with
  | [] => Some h
  | d :: q =>
      match h, d with
      | Un l _, false => node_at l q
      | Bin _ l _ _, false => node_at l q
      | Bin _ _ r _, true => node_at r q
      | _, _ => None
      end
  end.
Fixpoint replace_at (h : hs) (p : list bool) (n : hs) : hs :=
  match p with
  | [] => n
  | d :: q =>
      match h, d with
      | Un l c, false => Un (replace_at l q n) c
      | Bin o l r c, false => Bin o (replace_at l q n) r c
      | Bin o l r c, true => Bin o l (replace_at r q n) c
      | _, _ => h
      end
  end.

(* HalfSpace._link_to_cell(cell): the root is pointed at the cell, the nodes below it only when
   they do not belong to a cell yet *)
Fixpoint link_tree (force : bool) (c : oid) (h : hs) : hs :=
  match h with
  | Leaf b d cp =>
      if orb force (match cp with None => true | Some _ => false end) then Leaf b d (Some c) else h
  | Un l cp =>
      if orb force (match cp with None => true | Some _ => false end)
      then Un (link_tree false c l) (Some c) else h
  | Bin o l r cp =>
      if orb force (match cp with None => true | Some _ => false end)
      then Bin o (link_tree false c l) (link_tree false c r) (Some c) else h
  end.

(* ---------------------------------------------------------------- records *)
Record cellr := mkcell {
  c_geom : option hs;         (* Cell._geometry *)
  c_surfs : list oid;         (* Cell._surfaces._objects *)
  c_comps : list oid;         (* Cell._complements._objects *)
  c_lnk : bool;               (* Cell._surfaces._problem / _complements._problem is set *)
  c_mat : option oid;         (* Cell._material *)
  c_oldmat : Z;               (* Cell.old_mat_number *)
  c_univ : option oid;        (* Cell._universe._universe *)
  c_oldu : option Z;          (* Cell.old_universe_number *)
  c_fill : option oid;        (* Cell._fill._universe *)
  c_oldfill : option Z;       (* Cell._fill.old_universe_number *)
  c_ftr : option oid;         (* Cell._fill._transform (numbered transforms only) *)
  c_oldftr : option Z;        (* Cell._fill.old_transform_number *)
  c_fparens : bool            (* the FILL value was read with "( n )": the transform number is written *)
}.
Definition blank_cell : cellr :=
  mkcell None [] [] false None 0 None None None None None None false.

Record surfr := mksurf {
  s_tr : option oid; s_oldtr : option Z;
  s_per : option oid; s_oldper : option Z
}.
Definition blank_surf : surfr := mksurf None None None None.

(* thermal scattering law (MT card): parent material and the number read from the card *)
Record mtr := mkmt { t_parent : option oid; t_old : Z }.

(* MCNP_Problem._data_inputs, in order.  DOther: any other data card, with the rank of its
   prefix among the prefixes of the problem (order-isomorphic to Python's string order) and
   its number if it has one. *)
Inductive ditem :=
| DMat (m : oid) | DMT (x : oid) | DTr (t : oid)
| DOther (rank : Z) (number : option Z) (imp : bool).   (* imp: an IMP card (mergeable) *)

Record st := mkst {
  num : kind -> oid -> Z;            (* obj.number *)
  plink : kind -> oid -> bool;       (* obj._problem is this problem *)
  coll : kind -> list oid;           (* problem.cells / surfaces / materials / transforms / universes *)
  clinked : kind -> bool;            (* that collection's _problem is set *)
  dins : list ditem;
  cellf : oid -> cellr;
  surff : oid -> surfr;
  matf : oid -> option oid;          (* Material._thermal_scattering *)
  mtf : oid -> mtr;
  data_u : option (list (option Z));     (* a U card in the data block (entries; None = jump) *)
  data_fill : option (list (option Z));  (* a FILL card in the data block *)
  data_conf : bool;                  (* a VOL or LAT card in the data block *)
  ran : bool;                        (* __update_internal_pointers has run once *)
  nu : nat;                          (* next fresh Universe identity *)
  ranks : Z * Z * Z                  (* ranks of the prefixes "m", "mt", "tr" *)
}.

Definition upd {A} (f : oid -> A) (o : oid) (v : A) : oid -> A :=
  fun x => if Nat.eqb x o then v else f x.
Definition updk {A} (f : kind -> A) (k : kind) (v : A) : kind -> A :=
  fun x => if kind_eqb x k then v else f x.

Definition set_num (g : st) (k : kind) (o : oid) (n : Z) : st :=
  mkst (updk (num g) k (upd (num g k) o n)) (plink g) (coll g) (clinked g) (dins g) (cellf g)
       (surff g) (matf g) (mtf g) (data_u g) (data_fill g) (data_conf g) (ran g) (nu g) (ranks g).
Definition set_nums (g : st) (f : kind -> oid -> Z) : st :=
  mkst f (plink g) (coll g) (clinked g) (dins g) (cellf g)
       (surff g) (matf g) (mtf g) (data_u g) (data_fill g) (data_conf g) (ran g) (nu g) (ranks g).
Definition set_plink (g : st) (k : kind) (o : oid) : st :=
  mkst (num g) (updk (plink g) k (upd (plink g k) o true)) (coll g) (clinked g) (dins g) (cellf g)
       (surff g) (matf g) (mtf g) (data_u g) (data_fill g) (data_conf g) (ran g) (nu g) (ranks g).
Definition set_coll (g : st) (k : kind) (l : list oid) : st :=
  mkst (num g) (plink g) (updk (coll g) k l) (clinked g) (dins g) (cellf g)
       (surff g) (matf g) (mtf g) (data_u g) (data_fill g) (data_conf g) (ran g) (nu g) (ranks g).
Definition set_clinked (g : st) (k : kind) (b : bool) : st :=
  mkst (num g) (plink g) (coll g) (updk (clinked g) k b) (dins g) (cellf g)
       (surff g) (matf g) (mtf g) (data_u g) (data_fill g) (data_conf g) (ran g) (nu g) (ranks g).
Definition set_dins (g : st) (l : list ditem) : st :=
  mkst (num g) (plink g) (coll g) (clinked g) l (cellf g)
       (surff g) (matf g) (mtf g) (data_u g) (data_fill g) (data_conf g) (ran g) (nu g) (ranks g).
Definition set_cell (g : st) (c : oid) (r : cellr) : st :=
  mkst (num g) (plink g) (coll g) (clinked g) (dins g) (upd (cellf g) c r)
       (surff g) (matf g) (mtf g) (data_u g) (data_fill g) (data_conf g) (ran g) (nu g) (ranks g).
Definition set_surf (g : st) (s : oid) (r : surfr) : st :=
  mkst (num g) (plink g) (coll g) (clinked g) (dins g) (cellf g)
       (upd (surff g) s r) (matf g) (mtf g) (data_u g) (data_fill g) (data_conf g) (ran g) (nu g) (ranks g).
Definition set_mat (g : st) (m : oid) (x : option oid) : st :=
  mkst (num g) (plink g) (coll g) (clinked g) (dins g) (cellf g)
       (surff g) (upd (matf g) m x) (mtf g) (data_u g) (data_fill g) (data_conf g) (ran g) (nu g) (ranks g).
Definition set_mt (g : st) (x : oid) (r : mtr) : st :=
  mkst (num g) (plink g) (coll g) (clinked g) (dins g) (cellf g)
       (surff g) (matf g) (upd (mtf g) x r) (data_u g) (data_fill g) (data_conf g) (ran g) (nu g) (ranks g).
Definition set_ran (g : st) : st :=
  mkst (num g) (plink g) (coll g) (clinked g) (dins g) (cellf g)
       (surff g) (matf g) (mtf g) (data_u g) (data_fill g) (data_conf g) true (nu g) (ranks g).
Definition set_nu (g : st) (n : nat) : st :=
  mkst (num g) (plink g) (coll g) (clinked g) (dins g) (cellf g)
       (surff g) (matf g) (mtf g) (data_u g) (data_fill g) (data_conf g) (ran g) n (ranks g).

(* field updates of a cell record *)
Definition cr_geom (r : cellr) (h : option hs) : cellr :=
  mkcell h (c_surfs r) (c_comps r) (c_lnk r) (c_mat r) (c_oldmat r) (c_univ r) (c_oldu r)
         (c_fill r) (c_oldfill r) (c_ftr r) (c_oldftr r) (c_fparens r).
Definition cr_lists (r : cellr) (ls lc : list oid) : cellr :=
  mkcell (c_geom r) ls lc (c_lnk r) (c_mat r) (c_oldmat r) (c_univ r) (c_oldu r)
         (c_fill r) (c_oldfill r) (c_ftr r) (c_oldftr r) (c_fparens r).
Definition cr_lnk (r : cellr) (b : bool) : cellr :=
  mkcell (c_geom r) (c_surfs r) (c_comps r) b (c_mat r) (c_oldmat r) (c_univ r) (c_oldu r)
         (c_fill r) (c_oldfill r) (c_ftr r) (c_oldftr r) (c_fparens r).
Definition cr_mat (r : cellr) (m : option oid) : cellr :=
  mkcell (c_geom r) (c_surfs r) (c_comps r) (c_lnk r) m (c_oldmat r) (c_univ r) (c_oldu r)
         (c_fill r) (c_oldfill r) (c_ftr r) (c_oldftr r) (c_fparens r).
Definition cr_univ (r : cellr) (u : option oid) : cellr :=
  mkcell (c_geom r) (c_surfs r) (c_comps r) (c_lnk r) (c_mat r) (c_oldmat r) u (c_oldu r)
         (c_fill r) (c_oldfill r) (c_ftr r) (c_oldftr r) (c_fparens r).
Definition cr_oldu (r : cellr) (n : option Z) : cellr :=
  mkcell (c_geom r) (c_surfs r) (c_comps r) (c_lnk r) (c_mat r) (c_oldmat r) (c_univ r) n
         (c_fill r) (c_oldfill r) (c_ftr r) (c_oldftr r) (c_fparens r).
Definition cr_fill (r : cellr) (u : option oid) : cellr :=
  mkcell (c_geom r) (c_surfs r) (c_comps r) (c_lnk r) (c_mat r) (c_oldmat r) (c_univ r) (c_oldu r)
         u (c_oldfill r) (c_ftr r) (c_oldftr r) (c_fparens r).
Definition cr_oldfill (r : cellr) (n : option Z) : cellr :=
  mkcell (c_geom r) (c_surfs r) (c_comps r) (c_lnk r) (c_mat r) (c_oldmat r) (c_univ r) (c_oldu r)
         (c_fill r) n (c_ftr r) (c_oldftr r) (c_fparens r).
Definition cr_ftr (r : cellr) (t : option oid) : cellr :=
  mkcell (c_geom r) (c_surfs r) (c_comps r) (c_lnk r) (c_mat r) (c_oldmat r) (c_univ r) (c_oldu r)
         (c_fill r) (c_oldfill r) t (c_oldftr r) (c_fparens r).

Definition mem_Z (n : Z) (l : list Z) : bool := existsb (Z.eqb n) l.
Definition mem_o (o : oid) (l : list oid) : bool := existsb (Nat.eqb o) l.

Definition opt_is (x : option oid) (o : oid) : bool :=
  match x with Some y => Nat.eqb y o | None => false end.

Fixpoint find_num (numf : oid -> Z) (l : list oid) (n : Z) : option oid :=
  match l with
  | [] => None
  | o :: r => if numf o =? n then Some o else find_num numf r n
  end.
(* collection[n] under C06's invariant (C06_lookup): the member whose number is n *)
Definition lookup (g : st) (k : kind) (n : Z) : option oid := find_num (num g k) (coll g k) n.

Fixpoint remove_first (o : oid) (l : list oid) : list oid :=
  match l with
  | [] => []
  | x :: r => if Nat.eqb x o then r else x :: remove_first o r
  end.

Fixpoint nodup_o (l : list oid) (seen : list oid) : list oid :=
  match l with
  | [] => []
  | o :: r => if mem_o o seen then nodup_o r seen else o :: nodup_o r (o :: seen)
  end.
(* a candidate list collides with the members or with itself *)
Fixpoint clash (numf : oid -> Z) (members : list Z) (l : list oid) (seen : list Z) : bool :=
  match l with
  | [] => false
  | o :: r => if orb (mem_Z (numf o) seen) (mem_Z (numf o) members) then true
              else clash numf members r (numf o :: seen)
  end.

(* ---------------------------------------------------------------- linking *)
(* obj.link_to_problem(problem); a Cell also links its surfaces / complements collections *)
Definition link_obj (g : st) (k : kind) (o : oid) : st :=
  let g1 := set_plink g k o in
  match k with
  | KCell => set_cell g1 o (cr_lnk (cellf g1 o) true)
  | _ => g1
  end.
Fixpoint link_all (g : st) (k : kind) (l : list oid) : st :=
  match l with [] => g | o :: r => link_all (link_obj g k o) k r end.

Definition kind_of_isc (isc : bool) : kind := if isc then KCell else KSurf.

(* "if item not in parent: parent.append(item)" on cell c's surfaces (isc = false) or
   complements (isc = true); append raises NumberConflictError when another object of the list
   has the same number, and links the object when the list is linked *)
Definition cell_add (g : st) (c : oid) (isc : bool) (o : oid) : st * bool :=
  let r := cellf g c in
  let k := kind_of_isc isc in
  let l := if isc then c_comps r else c_surfs r in
  if mem_o o l then (g, true)
  else if mem_Z (num g k o) (map (num g k) l) then (g, false)
  else
    let r' := if isc then cr_lists r (c_surfs r) (l ++ [o]) else cr_lists r (l ++ [o]) (c_comps r) in
    let g1 := set_cell g c r' in
    ((if c_lnk r then link_obj g1 k o else g1), true).

(* HalfSpace._add_new_children_to_cell(other, cell): the dividers of one kind that the cell does
   not hold yet (a Python set: no repetitions); None when one of them has the number of another
   divider of the cell or of another new one.  Nothing is added before both kinds were checked. *)
Definition cell_new (g : st) (c : oid) (isc : bool) (l : list oid) : option (list oid) :=
  let r := cellf g c in
  let k := kind_of_isc isc in
  let have := if isc then c_comps r else c_surfs r in
  let nw := nodup_o (filter (fun o => negb (mem_o o have)) l) [] in
  if clash (num g k) (map (num g k) have) nw [] then None else Some nw.

(* parent.extend(new_items): appended in one go, linked when the list is linked *)
Definition cell_extend (g : st) (c : oid) (isc : bool) (nw : list oid) : st :=
  let r := cellf g c in
  let k := kind_of_isc isc in
  let r' := if isc then cr_lists r (c_surfs r) (c_comps r ++ nw) else cr_lists r (c_surfs r ++ nw) (c_comps r) in
  let g1 := set_cell g c r' in
  if c_lnk r then link_all g1 k nw else g1.

Definition add_children (g : st) (cp : option oid) (other : hs) : st * bool :=
  match cp with
  | None => (g, true)
  | Some c =>
      match cell_new g c true (leaves_cell other), cell_new g c false (leaves_surf other) with
      | Some nc, Some ns => (cell_extend (cell_extend g c true nc) c false ns, true)
      | _, _ => (g, false)
      end
  end.
Fixpoint add_children_all (g : st) (cps : list (option oid)) (other : hs) : st * bool :=
  match cps with
  | [] => (g, true)
  | cp :: r => match add_children g cp other with
               | (g1, true) => add_children_all g1 r other
               | (g1, false) => (g1, false)
               end
  end.

(* HalfSpace._link_side_to_cell(side): validator of the left / right setters of a node whose
   _cell is cp: the cell takes the dividers of the new side (or refuses: nothing changes), then
   the side is pointed at the cell when it has no cell yet *)
Definition link_side (g : st) (cp : option oid) (side : hs) : st * hs * bool :=
  match cp with
  | None => (g, side, true)
  | Some c =>
      match add_children g (Some c) side with
      | (g1, true) => (g1, (match get_cp side with None => link_tree true c side | Some _ => side end), true)
      | (g1, false) => (g1, side, false)
      end
  end.

(* HalfSpace.__iand__ / __ior__ : (state, object: the returned one, or self as the exception leaves
   it; "is self"; ok = no NumberConflictError).
   - a UnitHalfSpace and a complement node return a NEW node that belongs to no cell;
   - a node whose right side is a leaf sets self.right = self.right & other through the setter;
   - otherwise the right side is updated recursively and set through the setter, then
     _add_new_children_to_cell(other). *)
Fixpoint iop (g : st) (o : bop) (self other : hs) : st * hs * bool * bool :=
  match self with
  | Leaf _ _ _ => (g, Bin o self other None, false, true)
  | Un l _ => (g, Bin o (Un l None) other None, false, true)
  | Bin o' l r cp =>
      match r with
      | Leaf _ _ _ =>
          match link_side g cp (Bin o r other None) with
          | (g1, side, true) => (g1, Bin o' l side cp, true, true)
          | (g1, _, false) => (g1, self, true, false)
          end
      | _ =>
          let '(g1, r', inner_self, ok) := iop g o r other in
          let r_now := if inner_self then r' else r in    (* what self.right is before the assignment *)
          if ok then
            match link_side g1 cp r' with
            | (g2, side, true) =>
                match add_children g2 cp other with
                | (g3, true) => (g3, Bin o' l side cp, true, true)
                | (g3, false) => (g3, Bin o' l side cp, true, false)
                end
            | (g2, _, false) => (g2, Bin o' l r_now cp, true, false)
            end
          else (g1, Bin o' l r_now cp, true, false)
      end
  end.

(* ---------------------------------------------------------------- pointer resolution *)
(* HalfSpace.update_pointers / UnitHalfSpace.update_pointers: set _cell everywhere, resolve the
   integer dividers through the problem's collections, fill the cell's lists.  The lists are the
   fresh (unlinked) collections Cell.update_pointers has just created. *)
Definition list_add (numf : oid -> Z) (l : list oid) (o : oid) : option (list oid) :=
  if mem_o o l then Some l
  else if mem_Z (numf o) (map numf l) then None
  else Some (l ++ [o]).

Fixpoint hs_up (g : st) (c : oid) (h : hs) (ls lc : list oid) : hs * list oid * list oid * res :=
  match h with
  | Leaf isc (DInt z) _ =>
      let k := kind_of_isc isc in
      match lookup g k z with
      | None => (Leaf isc (DInt z) (Some c), ls, lc, RErr BrokenLink)
      | Some o =>
          match list_add (num g k) (if isc then lc else ls) o with
          | None => (Leaf isc (DObj o) (Some c), ls, lc, RErr NumberConflict)
          | Some l' => (Leaf isc (DObj o) (Some c), (if isc then ls else l'), (if isc then l' else lc), ROk)
          end
      end
  | Leaf isc (DObj o) _ => (Leaf isc (DObj o) (Some c), ls, lc, ROk)
  | Un l _ =>
      let '(l', ls1, lc1, r1) := hs_up g c l ls lc in (Un l' (Some c), ls1, lc1, r1)
  | Bin o l r _ =>
      let '(l', ls1, lc1, r1) := hs_up g c l ls lc in
      match r1 with
      | RErr e => (Bin o l' r (Some c), ls1, lc1, RErr e)
      | ROk => let '(r', ls2, lc2, r2) := hs_up g c r ls1 lc1 in (Bin o l' r' (Some c), ls2, lc2, r2)
      end
  end.

(* Cell.update_pointers *)
Definition cell_up (g : st) (c : oid) : st * res :=
  let r0 := cr_lnk (cr_lists (cellf g c) [] []) false in
  let mat := if 0 <? c_oldmat r0
             then match lookup g KMat (c_oldmat r0) with Some m => Some (Some m) | None => None end
             else Some None in
  match mat with
  | None => (set_cell g c r0, RErr BrokenLink)
  | Some m =>
      let r1 := cr_mat r0 m in
      match c_geom r1 with
      | None => (set_cell g c r1, RErr AttributeErr)
      | Some h =>
          let '(h', ls, lc, rs) := hs_up g c h [] [] in
          (set_cell g c (cr_lists (cr_geom r1 (Some h')) ls lc), rs)
      end
  end.

Fixpoint cells_up (g : st) (cs : list oid) : st * res :=
  match cs with
  | [] => (g, ROk)
  | c :: r => match cell_up g c with
              | (g1, ROk) => cells_up g1 r
              | (g1, e) => (g1, e)
              end
  end.

(* data-block U / FILL card: entries are handed to the cells in order (jumps skipped) *)
Fixpoint push_data (f : cellr -> option Z -> cellr) (g : st) (cs : list oid) (vals : list (option Z)) : st :=
  match cs, vals with
  | c :: cr, v :: vr =>
      let g1 := match v with Some _ => set_cell g c (f (cellf g c) v) | None => g end in
      push_data f g1 cr vr
  | _, _ => g
  end.

(* UniverseInput.push_to_cells: every cell gets the universe with its old number; missing
   universes (including universe 0) are created, linked and appended *)
Fixpoint univ_push (g : st) (cs : list oid) : st :=
  match cs with
  | [] => g
  | c :: rest =>
      let n := match c_oldu (cellf g c) with Some n => n | None => 0 end in
      match lookup g KUniv n with
      | Some u => univ_push (set_cell g c (cr_univ (cellf g c) (Some u))) rest
      | None =>
          let u := nu g in
          let g1 := set_nu (set_coll (set_plink (set_num g KUniv u n) KUniv u) KUniv (coll g KUniv ++ [u])) (S u) in
          univ_push (set_cell g1 c (cr_univ (cellf g1 c) (Some u))) rest
      end
  end.

Definition nonzero (x : option Z) : option Z :=
  match x with Some n => if n =? 0 then None else Some n | None => None end.

(* Fill.push_to_cells of every cell: transform by old number, then universe by old number;
   a missing number is a BrokenObjectLinkError (e934d91) *)
Fixpoint fill_push (g : st) (cs : list oid) : st * res :=
  match cs with
  | [] => (g, ROk)
  | c :: rest =>
      let r := cellf g c in
      let step1 :=
        match nonzero (c_oldftr r) with
        | None => Some r
        | Some n => match lookup g KTr n with Some t => Some (cr_ftr r (Some t)) | None => None end
        end in
      match step1 with
      | None => (g, RErr BrokenLink)
      | Some r1 =>
          match c_oldfill r1 with
          | None => fill_push (set_cell g c r1) rest
          | Some n => match lookup g KUniv n with
                      | Some u => fill_push (set_cell g c (cr_fill r1 (Some u))) rest
                      | None => (set_cell g c r1, RErr BrokenLink)
                      end
          end
      end
  end.

(* the last Transform of data_inputs whose number is n *)
Fixpoint last_tr (numf : oid -> Z) (l : list ditem) (n : Z) (acc : option oid) : option oid :=
  match l with
  | [] => acc
  | DTr t :: r => last_tr numf r n (if numf t =? n then Some t else acc)
  | _ :: r => last_tr numf r n acc
  end.

(* Surface.update_pointers *)
Definition surf_up (g : st) (s : oid) : st * res :=
  let r := surff g s in
  let per :=
    match nonzero (s_oldper r) with
    | None => Some r
    | Some n => match lookup g KSurf n with
                | Some p => Some (mksurf (s_tr r) (s_oldtr r) (Some p) (s_oldper r))
                | None => None
                end
    end in
  match per with
  | None => (g, RErr BrokenLink)
  | Some r1 =>
      match nonzero (s_oldtr r1) with
      | None => (set_surf g s r1, ROk)
      | Some n =>
          let t := last_tr (num g KTr) (dins g) n (s_tr r1) in
          let r2 := mksurf t (s_oldtr r1) (s_per r1) (s_oldper r1) in
          match t with
          | None => (set_surf g s r2, RErr BrokenLink)
          | Some _ => (set_surf g s r2, ROk)
          end
      end
  end.
Fixpoint surfs_up (g : st) (l : list oid) : st * res :=
  match l with
  | [] => (g, ROk)
  | s :: r => match surf_up g s with
              | (g1, ROk) => surfs_up g1 r
              | (g1, e) => (g1, e)
              end
  end.

Definition ditem_eqb (a b : ditem) : bool :=
  match a, b with
  | DMat x, DMat y | DMT x, DMT y | DTr x, DTr y => Nat.eqb x y
  | _, _ => false
  end.
Fixpoint remove_ditem (x : ditem) (l : list ditem) : list ditem :=
  match l with
  | [] => []
  | y :: r => if ditem_eqb y x then r else y :: remove_ditem x r
  end.

(* Material.update_pointers: walks a COPY of data_inputs; the first MT card whose old number
   is this material's number is adopted and REMOVED from data_inputs, a second one raises *)
Fixpoint mat_up (g : st) (m : oid) (copy : list ditem) : st * res :=
  match copy with
  | [] => (g, ROk)
  | DMT x :: r =>
      if t_old (mtf g x) =? num g KMat m then
        match matf g m with
        | None =>
            let g1 := set_mt (set_mat g m (Some x)) x (mkmt (Some m) (t_old (mtf g x))) in
            mat_up (set_dins g1 (remove_ditem (DMT x) (dins g1))) m r
        | Some _ => (g, RErr MalformedInput)
        end
      else mat_up g m r
  | _ :: r => mat_up g m r
  end.

(* ThermalScatteringLaw.update_pointers: the last Material of data_inputs with the old number *)
Fixpoint last_mat (numf : oid -> Z) (l : list ditem) (n : Z) (acc : option oid) : option oid :=
  match l with
  | [] => acc
  | DMat m :: r => last_mat numf r n (if numf m =? n then Some m else acc)
  | _ :: r => last_mat numf r n acc
  end.
Definition mt_up (g : st) (x : oid) : st * res :=
  match last_mat (num g KMat) (dins g) (t_old (mtf g x)) None with
  | Some m => (set_mt g x (mkmt (Some m) (t_old (mtf g x))), ROk)
  | None => (g, RErr MalformedInput)
  end.

(* "for input in list(self._data_inputs): input.update_pointers(self._data_inputs)": a copy of
   the list is walked; materials remove their MT input from the live list *)
Fixpoint data_loop (g : st) (snapshot : list ditem) : st * res :=
  match snapshot with
  | [] => (g, ROk)
  | it :: rest =>
      let step :=
        match it with
        | DMat m => mat_up g m (dins g)
        | DMT x => mt_up g x
        | _ => (g, ROk)
        end in
      match step with
      | (g1, ROk) => data_loop g1 rest
      | (g1, e) => (g1, e)
      end
  end.

Definition is_some {A} (x : option A) : bool := match x with Some _ => true | None => false end.

(* Cells.update_pointers, data-block IMP cards: on the first run the second and later ones are
   merged into the first and removed from data_inputs; on a later run the remaining one is
   merged with itself (its data were cleared) and removed as well *)
Fixpoint drop_imps (keep_first : bool) (l : list ditem) : list ditem :=
  match l with
  | [] => []
  | DOther r n true :: rest =>
      if keep_first then DOther r n true :: drop_imps false rest else drop_imps false rest
  | d :: rest => d :: drop_imps keep_first rest
  end.

(* MCNP_Problem.__update_internal_pointers.  On a second run Cells.update_pointers finds the
   data-block VOL / U / LAT / FILL card already attached and merge() raises. *)
Definition update_pointers (g : st) : st * res :=
  if andb (ran g) (orb (data_conf g) (orb (is_some (data_u g)) (is_some (data_fill g))))
  then (g, RErr MalformedInput)
  else
    let first := negb (ran g) in
    let g0 := set_ran (set_dins g (drop_imps first (dins g))) in
    match cells_up g0 (coll g0 KCell) with
    | (g1, RErr e) => (g1, RErr e)
    | (g1, ROk) =>
        let g2 := match data_u g1 with
                  | Some vals => if first then push_data cr_oldu g1 (coll g1 KCell) vals else g1
                  | None => g1
                  end in
        let g3 := univ_push g2 (coll g2 KCell) in
        let g4 := match data_fill g3 with
                  | Some vals => if first then push_data cr_oldfill g3 (coll g3 KCell) vals else g3
                  | None => g3
                  end in
        match fill_push g4 (coll g4 KCell) with
        | (g5, RErr e) => (g5, RErr e)
        | (g5, ROk) =>
            match surfs_up g5 (coll g5 KSurf) with
            | (g6, RErr e) => (g6, RErr e)
            | (g6, ROk) => data_loop g6 (dins g6)
            end
        end
    end.

(* ---------------------------------------------------------------- reverse look-ups *)
(* generators of the source: filters over problem.cells at call time, empty when the object
   has no problem *)
Definition surface_cells (g : st) (s : oid) : list oid :=
  if plink g KSurf s then filter (fun c => mem_o s (c_surfs (cellf g c))) (coll g KCell) else [].
Definition material_cells (g : st) (m : oid) : list oid :=
  if plink g KMat m then filter (fun c => opt_is (c_mat (cellf g c)) m) (coll g KCell) else [].
Definition universe_cells (g : st) (u : oid) : list oid :=
  if plink g KUniv u then filter (fun c => opt_is (c_univ (cellf g c)) u) (coll g KCell) else [].
Definition complementing (g : st) (c : oid) : list oid :=
  if plink g KCell c
  then filter (fun c' => andb (negb (Nat.eqb c' c)) (mem_o c (c_comps (cellf g c')))) (coll g KCell)
  else [].

(* ---------------------------------------------------------------- written references *)
Inductive src := SrcCell (c : oid) | SrcSurf (s : oid) | SrcMT (x : oid).
Inductive slot := SlGeom | SlMat | SlU | SlFill | SlFtr | SlTr | SlPer | SlMT.

(* what the leaves of a geometry tree are written as (UnitHalfSpace._update_node) *)
Fixpoint hs_written (g : st) (h : hs) : list (kind * Z) :=
  match h with
  | Leaf isc (DObj o) _ => [(kind_of_isc isc, num g (kind_of_isc isc) o)]
  | Leaf isc (DInt z) _ => [(kind_of_isc isc, z)]
  | Un l _ => hs_written g l
  | Bin _ l r _ => hs_written g l ++ hs_written g r
  end.
Fixpoint hs_targets (h : hs) : list (kind * oid) :=
  match h with
  | Leaf isc (DObj o) _ => [(kind_of_isc isc, o)]
  | Leaf _ (DInt _) _ => []
  | Un l _ => hs_targets l
  | Bin _ l r _ => hs_targets l ++ hs_targets r
  end.

Definition opt_list {A} (x : option A) : list A := match x with Some a => [a] | None => [] end.

(* Cell._update_values and the _update_cell_values of its U and FILL inputs *)
Definition cell_written (g : st) (c : oid) : list (src * slot * kind * Z) :=
  let r := cellf g c in
  map (fun p => (SrcCell c, SlGeom, fst p, snd p))
      (match c_geom r with Some h => hs_written g h | None => [] end)
  ++ map (fun m => (SrcCell c, SlMat, KMat, num g KMat m)) (opt_list (c_mat r))
  ++ flat_map (fun u => if num g KUniv u =? 0 then [] else [(SrcCell c, SlU, KUniv, num g KUniv u)])
              (opt_list (c_univ r))
  ++ match c_fill r with
     | None => []
     | Some f => (SrcCell c, SlFill, KUniv, num g KUniv f)
                 :: (if c_fparens r
                     then map (fun t => (SrcCell c, SlFtr, KTr, num g KTr t)) (opt_list (c_ftr r))
                     else [])
     end.
Definition cell_targets (g : st) (c : oid) : list (src * slot * kind * oid) :=
  let r := cellf g c in
  map (fun p => (SrcCell c, SlGeom, fst p, snd p))
      (match c_geom r with Some h => hs_targets h | None => [] end)
  ++ map (fun m => (SrcCell c, SlMat, KMat, m)) (opt_list (c_mat r))
  ++ flat_map (fun u => if num g KUniv u =? 0 then [] else [(SrcCell c, SlU, KUniv, u)])
              (opt_list (c_univ r))
  ++ match c_fill r with
     | None => []
     | Some f => (SrcCell c, SlFill, KUniv, f)
                 :: (if c_fparens r
                     then map (fun t => (SrcCell c, SlFtr, KTr, t)) (opt_list (c_ftr r))
                     else [])
     end.

(* Surface._update_values: the transform wins over the periodic surface *)
Definition surf_written (g : st) (s : oid) : list (src * slot * kind * Z) :=
  match s_tr (surff g s), s_per (surff g s) with
  | Some t, _ => [(SrcSurf s, SlTr, KTr, num g KTr t)]
  | None, Some p => [(SrcSurf s, SlPer, KSurf, num g KSurf p)]
  | None, None => []
  end.
Definition surf_targets (g : st) (s : oid) : list (src * slot * kind * oid) :=
  match s_tr (surff g s), s_per (surff g s) with
  | Some t, _ => [(SrcSurf s, SlTr, KTr, t)]
  | None, Some p => [(SrcSurf s, SlPer, KSurf, p)]
  | None, None => []
  end.

(* ThermalScatteringLaw._update_values: adopted MT cards are written with their material,
   the others as data inputs of their own *)
Definition mt_written (g : st) (x : oid) : list (src * slot * kind * Z) :=
  map (fun m => (SrcMT x, SlMT, KMat, num g KMat m)) (opt_list (t_parent (mtf g x))).
Definition mt_targets (g : st) (x : oid) : list (src * slot * kind * oid) :=
  map (fun m => (SrcMT x, SlMT, KMat, m)) (opt_list (t_parent (mtf g x))).
Definition ditem_mts (g : st) (d : ditem) : list oid :=
  match d with
  | DMat m => opt_list (matf g m)
  | DMT x => [x]
  | _ => []
  end.

Definition written_refs (g : st) : list (src * slot * kind * Z) :=
  flat_map (cell_written g) (coll g KCell)
  ++ flat_map (surf_written g) (coll g KSurf)
  ++ flat_map (mt_written g) (flat_map (ditem_mts g) (dins g)).
(* the object behind every written reference, in the same order *)
Definition resolve (g : st) : list (src * slot * kind * oid) :=
  flat_map (cell_targets g) (coll g KCell)
  ++ flat_map (surf_targets g) (coll g KSurf)
  ++ flat_map (mt_targets g) (flat_map (ditem_mts g) (dins g)).

(* print_in_data_block["U"] / ["FILL"] = True: the per-cell values are printed as ONE data-block card
   with an entry per member cell, in cell order (UniverseInput / Fill._collect_new_values re-read the
   number of the pointee as well); 0 = jump: universe 0 / no universe, not filled *)
Definition u_entry (g : st) (c : oid) : Z :=
  match c_univ (cellf g c) with Some u => num g KUniv u | None => 0 end.
Definition fill_entry (g : st) (c : oid) : Z :=
  match c_fill (cellf g c) with Some f => num g KUniv f | None => 0 end.
Definition u_card (g : st) : list Z := map (u_entry g) (coll g KCell).
Definition fill_card (g : st) : list Z := map (fill_entry g) (coll g KCell).

Definition slot_eqb (a b : slot) : bool :=
  match a, b with
  | SlGeom, SlGeom | SlMat, SlMat | SlU, SlU | SlFill, SlFill | SlFtr, SlFtr | SlTr, SlTr | SlPer, SlPer
  | SlMT, SlMT => true
  | _, _ => false
  end.
(* the numbers written in one slot, in file order *)
Definition slot_numbers (sl : slot) (l : list (src * slot * kind * Z)) : list Z :=
  flat_map (fun w => let '(_, sl', _, n) := w in if slot_eqb sl' sl then [n] else []) l.

(* the numbered cards of the written file: kind, object, own number *)
Definition own_numbers (g : st) : list (kind * oid * Z) :=
  map (fun c => (KCell, c, num g KCell c)) (coll g KCell)
  ++ map (fun s => (KSurf, s, num g KSurf s)) (coll g KSurf)
  ++ flat_map (fun d => match d with
                        | DMat m => [(KMat, m, num g KMat m)]
                        | DTr t => [(KTr, t, num g KTr t)]
                        | _ => []
                        end) (dins g).

(* renumbering every object at once *)
Definition renumber (g : st) (rho : kind -> oid -> Z) : st := set_nums g rho.

(* ---------------------------------------------------------------- operations *)
(* expressions of the Python API: cell.geometry (EOld), +s / -s, ~cell, &, |, ~ *)
Inductive ex :=
| EOld
| ESurf (s : oid)
| ECell (c : oid)
| EAnd (a b : ex)
| EOr (a b : ex)
| ENot (a : ex).

Fixpoint eval_ex (old : option hs) (e : ex) : option hs :=
  match e with
  | EOld => old
  | ESurf s => Some (Leaf false (DObj s) None)
  | ECell c => Some (Un (Leaf true (DObj c) None) None)
  | EAnd a b => match eval_ex old a, eval_ex old b with
                | Some x, Some y => Some (Bin OAnd x y None)
                | _, _ => None
                end
  | EOr a b => match eval_ex old a, eval_ex old b with
               | Some x, Some y => Some (Bin OOr x y None)
               | _, _ => None
               end
  | ENot a => match eval_ex old a with Some x => Some (Un x None) | None => None end
  end.
Fixpoint uses_old (e : ex) : nat :=
  match e with
  | EOld => 1
  | ESurf _ | ECell _ => 0
  | EAnd a b | EOr a b => uses_old a + uses_old b
  | ENot a => uses_old a
  end.

Inductive op :=
| SetGeom (c : oid) (e : ex)                               (* cell.geometry = e *)
| IopSet (c : oid) (o : bop) (e : ex)                      (* cell.geometry &= e *)
| IopIn (c : oid) (p : list bool) (o : bop) (e : ex)       (* g = node; g &= e *)
| IopChild (c : oid) (p : list bool) (side : bool) (o : bop) (e : ex)   (* node.left &= e *)
| SetDiv (c : oid) (p : list bool) (isc : bool) (d : oid)  (* leaf.divider = obj *)
| SetSide (c : oid) (p : list bool) (side : bool) (c2 : oid) (p2 : list bool)
                                    (* node.left / node.right = a node of cell c2's geometry *)
| SetMat (c : oid) (m : option oid)
| SetUniv (c : oid) (u : oid)
| SetFill (c : oid) (u : option oid)
| SetFtr (c : oid) (t : option oid)
| SetSurfTr (s : oid) (t : option oid)
| SetNum (k : kind) (o : oid) (n : Z)
| Append (k : kind) (o : oid)
| Remove (k : kind) (o : oid)
| Extend (k : kind) (l : list oid)
| Iadd (k : kind) (l : list oid)
| AddChildren
| Dedup (pairs : list (oid * oid))     (* duplicate detection is an input: (dead, kept) *)
| Relink.                              (* __update_internal_pointers on its own (reading) *)

(* _link_geometry_to_cell: geom._add_new_children_to_cell(geom, cell); geom._link_to_cell(cell)
   (the tree is pointed at the cell only when the cell accepted all its dividers) *)
Definition link_geometry (g : st) (c : oid) (t : hs) : st * hs * bool :=
  let '(g1, ok) := add_children g (Some c) t in (g1, (if ok then link_tree true c t else t), ok).

Definition set_geom (g : st) (c : oid) (e : ex) : st * res :=
  if Nat.ltb 1 (uses_old e) then (g, RErr PathErr)
  else match eval_ex (c_geom (cellf g c)) e with
       | None => (g, RErr TypeErr)
       | Some t =>
           match link_geometry g c t with
           | (g1, t', true) => (set_cell g1 c (cr_geom (cellf g1 c) (Some t')), ROk)
           | (g1, _, false) => (g1, RErr NumberConflict)
           end
       end.

Definition fresh_ex (e : ex) : option hs :=
  if Nat.eqb (uses_old e) 0 then eval_ex None e else None.

Definition iop_set (g : st) (c : oid) (o : bop) (e : ex) : st * res :=
  match fresh_ex e with
  | None => (g, RErr PathErr)
  | Some other =>
      match c_geom (cellf g c) with
      | None => (g, RErr TypeErr)
      | Some t =>
          let '(g1, t1, is_self, ok) := iop g o t other in
          if ok then
            match link_geometry g1 c t1 with
            | (g2, t2, true) => (set_cell g2 c (cr_geom (cellf g2 c) (Some t2)), ROk)
            | (g2, t2, false) =>
                ((if is_self then set_cell g2 c (cr_geom (cellf g2 c) (Some t2)) else g2),
                 RErr NumberConflict)
            end
          else (set_cell g1 c (cr_geom (cellf g1 c) (Some t1)), RErr NumberConflict)
      end
  end.

Definition iop_in (g : st) (c : oid) (p : list bool) (o : bop) (e : ex) : st * res :=
  match fresh_ex e with
  | None => (g, RErr PathErr)
  | Some other =>
      match c_geom (cellf g c) with
      | None => (g, RErr PathErr)
      | Some t =>
          match node_at t p with
          | None => (g, RErr PathErr)
          | Some sub =>
              let '(g1, sub1, is_self, ok) := iop g o sub other in
              let t1 := if is_self then replace_at t p sub1 else t in
              (set_cell g1 c (cr_geom (cellf g1 c) (Some t1)), if ok then ROk else RErr NumberConflict)
          end
      end
  end.

(* parent.left &= e  =  parent.left = parent.left.__iand__(e): the setter of the parent runs last *)
Definition iop_child (g : st) (c : oid) (p : list bool) (side : bool) (o : bop) (e : ex) : st * res :=
  match fresh_ex e with
  | None => (g, RErr PathErr)
  | Some other =>
      match c_geom (cellf g c) with
      | None => (g, RErr PathErr)
      | Some t =>
          match node_at t p, node_at t (p ++ [side]) with
          | Some parent, Some sub =>
              let '(g1, sub1, is_self, ok) := iop g o sub other in
              let t_now := if is_self then replace_at t (p ++ [side]) sub1 else t in
              if ok then
                match link_side g1 (get_cp parent) sub1 with
                | (g2, sub2, true) =>
                    (set_cell g2 c (cr_geom (cellf g2 c) (Some (replace_at t (p ++ [side]) sub2))), ROk)
                | (g2, _, false) => (set_cell g2 c (cr_geom (cellf g2 c) (Some t_now)), RErr NumberConflict)
                end
              else (set_cell g1 c (cr_geom (cellf g1 c) (Some t_now)), RErr NumberConflict)
          | _, _ => (g, RErr PathErr)
          end
      end
  end.

(* node.left = sub / node.right = sub, where sub is a node of the geometry of cell c2 (the whole
   geometry or a part of it: it keeps the _cell it has).  The setter's validator asks the cell of
   the node to take the dividers of the new side, whoever owned the side before; then the side is
   set.  (In Python the side is then SHARED by the two trees; the model copies it, so a program must
   not change either tree in place afterwards: the harness generates only other operations.) *)
Definition set_side (g : st) (c : oid) (p : list bool) (side : bool) (c2 : oid) (p2 : list bool) : st * res :=
  match c_geom (cellf g c), c_geom (cellf g c2) with
  | Some t, Some t2 =>
      match node_at t p, node_at t (p ++ [side]), node_at t2 p2 with
      | Some parent, Some _, Some sub =>
          match link_side g (get_cp parent) sub with
          | (g1, sub1, true) =>
              (set_cell g1 c (cr_geom (cellf g1 c) (Some (replace_at t (p ++ [side]) sub1))), ROk)
          | (g1, _, false) => (g1, RErr NumberConflict)
          end
      | _, _, _ => (g, RErr PathErr)
      end
  | _, _ => (g, RErr PathErr)
  end.

(* UnitHalfSpace.divider setter: the cell's list is asked first, then the divider is assigned *)
Definition set_div (g : st) (c : oid) (p : list bool) (isc : bool) (d : oid) : st * res :=
  match c_geom (cellf g c) with
  | None => (g, RErr PathErr)
  | Some t =>
      match node_at t p with
      | Some (Leaf b _ cp) =>
          if negb (Bool.eqb b isc) then (g, RErr TypeErr)
          else
            let t1 := replace_at t p (Leaf b (DObj d) cp) in
            match cp with
            | None => (set_cell g c (cr_geom (cellf g c) (Some t1)), ROk)
            | Some c' => match cell_add g c' isc d with
                         | (g2, true) => (set_cell g2 c (cr_geom (cellf g2 c) (Some t1)), ROk)
                         | (g2, false) => (g2, RErr NumberConflict)
                         end
            end
      | _ => (g, RErr PathErr)
      end
  end.

(* number setters: value > 0; a linked object asks its problem's collection *)
Definition set_number (g : st) (k : kind) (o : oid) (n : Z) : st * res :=
  if n <=? 0 then (g, RErr ValueErr)
  else if andb (plink g k o) (mem_Z n (map (num g k) (coll g k))) then (g, RErr NumberConflict)
  else (set_num g k o n, ROk).

Definition link_if (g : st) (k : kind) (l : list oid) : st :=
  if clinked g k then link_all g k l else g.

Definition append (g : st) (k : kind) (o : oid) : st * res :=
  if mem_Z (num g k o) (map (num g k) (coll g k)) then (g, RErr NumberConflict)
  else (link_if (set_coll g k (coll g k ++ [o])) k [o], ROk).

Definition remove (g : st) (k : kind) (o : oid) : st * res :=
  if mem_o o (coll g k) then (set_coll g k (remove_first o (coll g k)), ROk)
  else (g, RErr ValueErr).

Definition extend (g : st) (k : kind) (l : list oid) : st * res :=
  if clash (num g k) (map (num g k) (coll g k)) l [] then (g, RErr NumberConflict)
  else (link_if (set_coll g k (coll g k ++ l)) k l, ROk).

(* ---- add_cell_children_to_problem *)
Fixpoint insert_by (key : oid -> Z) (o : oid) (l : list oid) : list oid :=
  match l with
  | [] => [o]
  | x :: r => if key o <? key x then o :: l else x :: insert_by key o r
  end.
Fixpoint sort_by (key : oid -> Z) (l : list oid) : list oid :=
  match l with [] => [] | o :: r => insert_by key o (sort_by key r) end.
Fixpoint has_dup (l : list Z) : bool :=
  match l with [] => false | x :: r => orb (mem_Z x r) (has_dup r) end.

Definition member_cells (g : st) : list cellr := map (cellf g) (coll g KCell).
Definition used_surfs (g : st) : list oid := flat_map c_surfs (member_cells g).
Definition used_mats (g : st) : list oid := flat_map (fun r => opt_list (c_mat r)) (member_cells g).
Definition used_trs (g : st) : list oid :=
  flat_map (fun s => opt_list (s_tr (surff g s))) (used_surfs g).

(* sort key of a data input: (rank of the prefix, number); a card without a number cannot be
   compared with a card of the same prefix (AttributeError on None.value) *)
Definition dkey (g : st) (d : ditem) : Z * option Z :=
  let '(rm, rmt, rtr) := ranks g in
  match d with
  | DMat m => (rm, Some (num g KMat m))
  | DMT x => (rmt, Some (t_old (mtf g x)))
  | DTr t => (rtr, Some (num g KTr t))
  | DOther r n _ => (r, n)
  end.
Definition dlt (a b : Z * option Z) : bool :=
  if fst a <? fst b then true
  else if fst b <? fst a then false
  else match snd a, snd b with Some x, Some y => x <? y | _, _ => false end.
Fixpoint dinsert (g : st) (d : ditem) (l : list ditem) : list ditem :=
  match l with
  | [] => [d]
  | x :: r => if dlt (dkey g d) (dkey g x) then d :: l else x :: dinsert g d r
  end.
Fixpoint dsort (g : st) (l : list ditem) : list ditem :=
  match l with [] => [] | d :: r => dinsert g d (dsort g r) end.
Fixpoint dnodup (l : list ditem) (seen : list ditem) : list ditem :=
  match l with
  | [] => []
  | d :: r => if existsb (ditem_eqb d) seen then dnodup r seen else d :: dnodup r (d :: seen)
  end.

(* the three collections are built first (a number used twice raises before anything is replaced),
   they belong to the problem, and all their members are linked; then the data inputs are re-sorted
   (inputs without a number are ordered by their full name: not observable through this model) *)
Definition add_children_to_problem (g : st) : st * res :=
  let surfs := nodup_o (coll g KSurf ++ used_surfs g) [] in
  let mats := nodup_o (coll g KMat ++ used_mats g) [] in
  let trs := nodup_o (coll g KTr ++ used_trs g) [] in
  if orb (has_dup (map (num g KSurf) surfs))
         (orb (has_dup (map (num g KMat) mats)) (has_dup (map (num g KTr) trs)))
  then (g, RErr NumberConflict)
  else
    let ss := sort_by (num g KSurf) surfs in
    let ms := sort_by (num g KMat) mats in
    let ts := sort_by (num g KTr) trs in
    let g1 := set_coll (set_coll (set_coll g KSurf ss) KMat ms) KTr ts in
    let g2 := set_clinked (set_clinked (set_clinked g1 KSurf true) KMat true) KTr true in
    let g3 := link_all (link_all (link_all g2 KSurf ss) KMat ms) KTr ts in
    let all := dnodup (dins g3 ++ map DMat ms ++ map DTr ts) [] in
    (set_dins g3 (dsort g3 all), ROk).

(* ---- remove_duplicate_surfaces *)
Fixpoint assoc (l : list (oid * oid)) (o : oid) : option oid :=
  match l with
  | [] => None
  | (a, b) :: r => if Nat.eqb a o then Some b else assoc r o
  end.

(* HalfSpace.remove_duplicate_surfaces: every surface leaf whose divider is a dead surface gets
   the kept one through the divider setter (which appends to the lists of the leaf's _cell);
   a NumberConflictError stops the walk *)
Fixpoint hs_dedup (g : st) (m : list (oid * oid)) (h : hs) : st * hs * bool :=
  match h with
  | Leaf false (DObj o) cp =>
      match assoc m o with
      | Some k =>
          match cp with
          | None => (g, Leaf false (DObj k) cp, true)
          | Some c => let '(g1, ok) := cell_add g c false k in
                      (g1, (if ok then Leaf false (DObj k) cp else h), ok)
          end
      | None => (g, h, true)
      end
  | Leaf _ _ _ => (g, h, true)
  | Un l cp => let '(g1, l', ok) := hs_dedup g m l in (g1, Un l' cp, ok)
  | Bin o l r cp =>
      let '(g1, l', ok) := hs_dedup g m l in
      if ok then let '(g2, r', ok2) := hs_dedup g1 m r in (g2, Bin o l' r' cp, ok2)
      else (g1, Bin o l' r cp, false)
  end.
Fixpoint remove_all (l : list oid) (dead : list oid) : list oid :=
  match dead with [] => l | d :: r => remove_all (remove_first d l) r end.

(* the second half of Cell.remove_duplicate_surfaces: every dead surface leaves cell.surfaces, its
   survivor is appended when it is not there yet *)
Fixpoint swap_lists (g : st) (c : oid) (m : list (oid * oid)) : st * res :=
  match m with
  | [] => (g, ROk)
  | (dead, kept) :: rest =>
      let r := cellf g c in
      if mem_o dead (c_surfs r) then
        let g1 := set_cell g c (cr_lists r (remove_first dead (c_surfs r)) (c_comps r)) in
        match cell_add g1 c false kept with
        | (g2, true) => swap_lists g2 c rest
        | (g2, false) => (g2, RErr NumberConflict)
        end
      else (g, RErr ValueErr)
  end.

(* Cell.remove_duplicate_surfaces *)
Definition cell_dedup (g : st) (c : oid) (m : list (oid * oid)) : st * res :=
  let r := cellf g c in
  let m' := filter (fun p => mem_o (fst p) (c_surfs r)) m in
  match m', c_geom r with
  | [], _ => (g, ROk)
  | _, None => (g, RErr AttributeErr)
  | _, Some t =>
      let '(g1, t', ok) := hs_dedup g m' t in
      let g2 := set_cell g1 c (cr_geom (cellf g1 c) (Some t')) in
      if ok then swap_lists g2 c m' else (g2, RErr NumberConflict)
  end.
Fixpoint cells_dedup (g : st) (cs : list oid) (m : list (oid * oid)) : st * res :=
  match cs with
  | [] => (g, ROk)
  | c :: r => match cell_dedup g c m with
              | (g1, ROk) => cells_dedup g1 r m
              | (g1, e) => (g1, e)
              end
  end.
Fixpoint remove_members (g : st) (dead : list oid) : st * res :=
  match dead with
  | [] => (g, ROk)
  | d :: r => match remove g KSurf d with
              | (g1, ROk) => remove_members g1 r
              | (g1, e) => (g1, e)
              end
  end.
(* a periodic partner that was merged away is replaced by its survivor *)
Fixpoint repoint_periodic (g : st) (ss : list oid) (m : list (oid * oid)) : st :=
  match ss with
  | [] => g
  | s :: rest =>
      let r := surff g s in
      let g1 := match s_per r with
                | Some p => match assoc m p with
                            | Some k => set_surf g s (mksurf (s_tr r) (s_oldtr r) (Some k) (s_oldper r))
                            | None => g
                            end
                | None => g
                end in
      repoint_periodic g1 rest m
  end.

(* MCNP_Problem.remove_duplicate_surfaces (the duplicate detection is an input) *)
Definition dedup (g : st) (m : list (oid * oid)) : st * res :=
  match cells_dedup g (coll g KCell) m with
  | (g1, RErr e) => (g1, RErr e)
  | (g1, ROk) => remove_members (repoint_periodic g1 (coll g1 KSurf) m) (map fst m)
  end.

Definition step (g : st) (o : op) : st * res :=
  match o with
  | SetGeom c e => set_geom g c e
  | IopSet c b e => iop_set g c b e
  | IopIn c p b e => iop_in g c p b e
  | IopChild c p s b e => iop_child g c p s b e
  | SetDiv c p isc d => set_div g c p isc d
  | SetSide c p sd c2 p2 => set_side g c p sd c2 p2
  | SetMat c m => (set_cell g c (cr_mat (cellf g c) m), ROk)
  | SetUniv c u => (set_cell g c (cr_univ (cellf g c) (Some u)), ROk)
  | SetFill c u => (set_cell g c (cr_fill (cellf g c) u), ROk)
  | SetFtr c t => (set_cell g c (cr_ftr (cellf g c) t), ROk)
  | SetSurfTr s t =>
      let r := surff g s in (set_surf g s (mksurf t (s_oldtr r) (s_per r) (s_oldper r)), ROk)
  | SetNum k x n => set_number g k x n
  | Append k x => append g k x
  | Remove k x => remove g k x
  | Extend k l => extend g k l
  | Iadd k l => extend g k l
  | AddChildren => add_children_to_problem g
  | Dedup m => dedup g m
  | Relink => update_pointers g
  end.

(* a program: every operation is applied to the state the previous one left, whether it
   raised or not (the caller catches the exception and goes on) *)
Fixpoint run (g : st) (ops : list op) : st :=
  match ops with [] => g | o :: r => run (fst (step g o)) r end.

(* ---------------------------------------------------------------- side conditions of the theorems
   Executable predicates over (state before the operation, operation).  They are part of the model
   so that the harness can ask for them: an operation for which links_safe is false is exactly an
   operation of one of the defect classes recorded as findings of C16. *)
Definition is_conflict (r : res) : bool :=
  match r with RErr NumberConflict => true | _ => false end.

(* the duplicate map of remove_duplicate_surfaces: one survivor per dead surface, and a survivor
   is not itself removed *)
Definition dedup_map_ok (m : list (oid * oid)) : bool :=
  andb (negb (has_dup (map (fun p => Z.of_nat (fst p)) m)))
       (forallb (fun p => negb (mem_o (snd p) (map fst m))) m).

(* Links (cell.surfaces / cell.complements cover the geometry) survives this operation *)
Definition links_safe (g : st) (o : op) : bool :=
  match o with
  | Dedup m => dedup_map_ok m
  | Relink => false
  | SetSide _ _ _ _ _ => false     (* Links survives it (C16_foreign_side), node ownership does not *)
  | _ => true
  end.

(* operations that change neither a geometry nor a cell's lists *)
Definition quiet_op (o : op) : bool :=
  match o with
  | SetMat _ _ | SetUniv _ _ | SetFill _ _ | SetFtr _ _ | SetSurfTr _ _ | SetNum _ _ _
  | Append _ _ | Remove _ _ | Extend _ _ | Iadd _ _ | AddChildren => true
  | _ => false
  end.

(* "every member is linked to the problem" survives this operation *)
Definition linked_safe (g : st) (o : op) : bool :=
  match o with
  | Relink => false
  | _ => true
  end.

Definition in_member_universe (g : st) (c : oid) : bool :=
  match c_univ (cellf g c) with
  | Some u => andb (mem_o u (coll g KUniv)) (plink g KUniv u)
  | None => false
  end.

(* "every member cell is in a universe held by the problem" survives this operation *)
Definition univ_safe (g : st) (o : op) : bool :=
  match o with
  | SetUniv _ u => andb (mem_o u (coll g KUniv)) (plink g KUniv u)
  | Remove KUniv u => negb (existsb (fun c => opt_is (c_univ (cellf g c)) u) (coll g KCell))
  | Append KCell x => in_member_universe g x
  | Extend KCell l | Iadd KCell l => forallb (in_member_universe g) l
  | Relink => false
  | _ => true
  end.

Fixpoint all_safe (safe : st -> op -> bool) (g : st) (ops : list op) : bool :=
  match ops with
  | [] => true
  | o :: r => andb (safe g o) (all_safe safe (fst (step g o)) r)
  end.

(* ================================================================ wire protocol
   request  = hdr | cells | surfs | mats | trs | univs | mts | dins | ops      (items separated by ';')
     hdr    : rm rmt rtr du df dc        du, df = "-" or comma list of numbers / "j";  dc = 0 | 1
     cell   : id num member oldmat oldu oldfill oldftr fparens geom     ("-" = None; geom = prefix tokens, ',')
     surf   : id num member oldtr oldper
     mat/tr/univ : id num member
     mt     : id old
     din    : m<id> | x<id> | t<id> | o<rank>:<num or ->:<imp 0|1>
     members are linked, the others are not; every collection is linked
   response = one "result!dump" per operation, joined by '#' *)
Open Scope string_scope.

Definition parse_optZ (s : string) : option (option Z) :=
  if String.eqb s "-" then Some None else option_map Some (parse_Z s).
Definition parse_optnat (s : string) : option (option nat) :=
  if String.eqb s "-" then Some None else option_map Some (parse_nat s).
Definition parse_bool (s : string) : option bool :=
  if String.eqb s "1" then Some true else if String.eqb s "0" then Some false else None.
Definition parse_jz (s : string) : option (option Z) :=
  if String.eqb s "j" then Some None else option_map Some (parse_Z s).
Definition parse_dcard (s : string) : option (option (list (option Z))) :=
  if String.eqb s "-" then Some None else option_map Some (map_opt parse_jz (split_on ","%char s)).

Definition parse_leaf (s : string) : option hs :=
  match s with
  | String "s"%char (String "i"%char r) => option_map (fun z => Leaf false (DInt z) None) (parse_Z r)
  | String "c"%char (String "i"%char r) => option_map (fun z => Leaf true (DInt z) None) (parse_Z r)
  | String "s"%char (String "o"%char r) => option_map (fun n => Leaf false (DObj n) None) (parse_nat r)
  | String "c"%char (String "o"%char r) => option_map (fun n => Leaf true (DObj n) None) (parse_nat r)
  | _ => None
  end.

Fixpoint parse_hs (fuel : nat) (ts : list string) : option (hs * list string) :=
  match fuel with
  | O => None
  | S f =>
      match ts with
      | [] => None
      | t :: r =>
          if String.eqb t "N" then
            match parse_hs f r with Some (a, r1) => Some (Un a None, r1) | None => None end
          else if orb (String.eqb t "A") (String.eqb t "O") then
            match parse_hs f r with
            | Some (a, r1) =>
                match parse_hs f r1 with
                | Some (b, r2) => Some (Bin (if String.eqb t "A" then OAnd else OOr) a b None, r2)
                | None => None
                end
            | None => None
            end
          else match parse_leaf t with Some l => Some (l, r) | None => None end
      end
  end.
Definition parse_geom (s : string) : option (option hs) :=
  if String.eqb s "-" then Some None
  else let ts := split_on ","%char s in
       match parse_hs (S (List.length ts)) ts with
       | Some (h, []) => Some (Some h)
       | _ => None
       end.

Definition parse_exleaf (s : string) : option ex :=
  if String.eqb s "old" then Some EOld else
  match s with
  | String "s"%char r => option_map ESurf (parse_nat r)
  | String "c"%char r => option_map ECell (parse_nat r)
  | _ => None
  end.
Fixpoint parse_ex (fuel : nat) (ts : list string) : option (ex * list string) :=
  match fuel with
  | O => None
  | S f =>
      match ts with
      | [] => None
      | t :: r =>
          if String.eqb t "N" then
            match parse_ex f r with Some (a, r1) => Some (ENot a, r1) | None => None end
          else if orb (String.eqb t "A") (String.eqb t "O") then
            match parse_ex f r with
            | Some (a, r1) =>
                match parse_ex f r1 with
                | Some (b, r2) => Some ((if String.eqb t "A" then EAnd a b else EOr a b), r2)
                | None => None
                end
            | None => None
            end
          else match parse_exleaf t with Some l => Some (l, r) | None => None end
      end
  end.
Definition parse_expr (s : string) : option ex :=
  let ts := split_on ","%char s in
  match parse_ex (S (List.length ts)) ts with
  | Some (e, []) => Some e
  | _ => None
  end.

Fixpoint parse_path_aux (s : string) : option (list bool) :=
  match s with
  | EmptyString => Some []
  | String "l"%char r => option_map (cons false) (parse_path_aux r)
  | String "r"%char r => option_map (cons true) (parse_path_aux r)
  | _ => None
  end.
Definition parse_path (s : string) : option (list bool) :=
  if String.eqb s "-" then Some [] else parse_path_aux s.

Definition parse_kind (s : string) : option kind :=
  if String.eqb s "c" then Some KCell else if String.eqb s "s" then Some KSurf
  else if String.eqb s "m" then Some KMat else if String.eqb s "t" then Some KTr
  else if String.eqb s "u" then Some KUniv else None.
Definition parse_bop (s : string) : option bop :=
  if String.eqb s "and" then Some OAnd else if String.eqb s "or" then Some OOr else None.
Definition parse_side (s : string) : option bool :=
  if String.eqb s "l" then Some false else if String.eqb s "r" then Some true else None.
Definition parse_isc (s : string) : option bool :=
  if String.eqb s "s" then Some false else if String.eqb s "c" then Some true else None.
Definition parse_pair (s : string) : option (oid * oid) :=
  match split_on ">"%char s with
  | [a; b] => match parse_nat a, parse_nat b with Some x, Some y => Some (x, y) | _, _ => None end
  | _ => None
  end.

Definition parse_op (s : string) : option op :=
  match words s with
  | ["geom"; c; e] =>
      match parse_nat c, parse_expr e with Some c, Some e => Some (SetGeom c e) | _, _ => None end
  | ["iops"; c; b; e] =>
      match parse_nat c, parse_bop b, parse_expr e with
      | Some c, Some b, Some e => Some (IopSet c b e) | _, _, _ => None end
  | ["iopi"; c; p; b; e] =>
      match parse_nat c, parse_path p, parse_bop b, parse_expr e with
      | Some c, Some p, Some b, Some e => Some (IopIn c p b e) | _, _, _, _ => None end
  | ["iopc"; c; p; sd; b; e] =>
      match parse_nat c, parse_path p, parse_side sd, parse_bop b, parse_expr e with
      | Some c, Some p, Some sd, Some b, Some e => Some (IopChild c p sd b e)
      | _, _, _, _, _ => None end
  | ["div"; c; p; k; d] =>
      match parse_nat c, parse_path p, parse_isc k, parse_nat d with
      | Some c, Some p, Some k, Some d => Some (SetDiv c p k d) | _, _, _, _ => None end
  | ["side"; c; p; sd; c2; p2] =>
      match parse_nat c, parse_path p, parse_side sd, parse_nat c2, parse_path p2 with
      | Some c, Some p, Some sd, Some c2, Some p2 => Some (SetSide c p sd c2 p2) | _, _, _, _, _ => None end
  | ["mat"; c; m] =>
      match parse_nat c, parse_optnat m with Some c, Some m => Some (SetMat c m) | _, _ => None end
  | ["univ"; c; u] =>
      match parse_nat c, parse_nat u with Some c, Some u => Some (SetUniv c u) | _, _ => None end
  | ["fill"; c; u] =>
      match parse_nat c, parse_optnat u with Some c, Some u => Some (SetFill c u) | _, _ => None end
  | ["ftr"; c; t] =>
      match parse_nat c, parse_optnat t with Some c, Some t => Some (SetFtr c t) | _, _ => None end
  | ["str"; s0; t] =>
      match parse_nat s0, parse_optnat t with Some s0, Some t => Some (SetSurfTr s0 t) | _, _ => None end
  | ["num"; k; o; n] =>
      match parse_kind k, parse_nat o, parse_Z n with
      | Some k, Some o, Some n => Some (SetNum k o n) | _, _, _ => None end
  | ["app"; k; o] =>
      match parse_kind k, parse_nat o with Some k, Some o => Some (Append k o) | _, _ => None end
  | ["rem"; k; o] =>
      match parse_kind k, parse_nat o with Some k, Some o => Some (Remove k o) | _, _ => None end
  | ["ext"; k; l] =>
      match parse_kind k, parse_list parse_nat l with Some k, Some l => Some (Extend k l) | _, _ => None end
  | ["iadd"; k; l] =>
      match parse_kind k, parse_list parse_nat l with Some k, Some l => Some (Iadd k l) | _, _ => None end
  | ["children"] => Some AddChildren
  | ["dedup"; l] => option_map Dedup (parse_list parse_pair l)
  | ["relink"] => Some Relink
  | _ => None
  end.

(* ---- objects of the request *)
Record roster := mkroster {
  r_cells : list oid; r_surfs : list oid; r_mats : list oid; r_trs : list oid;
  r_univs : list oid; r_mts : list oid
}.

Definition items (s : string) : list string :=
  filter (fun w => negb (String.eqb w "")) (map (fun x => join " " (words x)) (split_on ";"%char s)).

Definition base_state (rk : Z * Z * Z) (du df : option (list (option Z))) (dc : bool) : st :=
  mkst (fun _ _ => 0%Z) (fun _ _ => false) (fun _ => []) (fun _ => true) []
       (fun _ => blank_cell) (fun _ => blank_surf) (fun _ => None) (fun _ => mkmt None 0%Z)
       du df dc false 0%nat rk.

Definition add_member (g : st) (k : kind) (o : oid) (n : Z) (member : bool) : st :=
  let g1 := set_num g k o n in
  if member then set_coll (set_plink g1 k o) k (coll g1 k ++ [o]) else g1.

Definition load_cell (g : st) (s : string) : option st :=
  match words s with
  | [i; n; mem; om; ou; ofl; oft; fp; ge] =>
      match parse_nat i, parse_Z n, parse_bool mem, parse_Z om, parse_optZ ou, parse_optZ ofl,
            parse_optZ oft, parse_bool fp, parse_geom ge with
      | Some i, Some n, Some mem, Some om, Some ou, Some ofl, Some oft, Some fp, Some ge =>
          let g1 := add_member g KCell i n mem in
          Some (set_cell g1 i (mkcell ge [] [] mem None om None ou None ofl None oft fp))
      | _, _, _, _, _, _, _, _, _ => None
      end
  | _ => None
  end.
Definition load_surf (g : st) (s : string) : option st :=
  match words s with
  | [i; n; mem; ot; op] =>
      match parse_nat i, parse_Z n, parse_bool mem, parse_optZ ot, parse_optZ op with
      | Some i, Some n, Some mem, Some ot, Some op =>
          Some (set_surf (add_member g KSurf i n mem) i (mksurf None ot None op))
      | _, _, _, _, _ => None
      end
  | _ => None
  end.
Definition load_simple (k : kind) (g : st) (s : string) : option st :=
  match words s with
  | [i; n; mem] =>
      match parse_nat i, parse_Z n, parse_bool mem with
      | Some i, Some n, Some mem => Some (add_member g k i n mem)
      | _, _, _ => None
      end
  | _ => None
  end.
Definition load_mt (g : st) (s : string) : option st :=
  match words s with
  | [i; n] =>
      match parse_nat i, parse_Z n with
      | Some i, Some n => Some (set_mt g i (mkmt None n))
      | _, _ => None
      end
  | _ => None
  end.
Definition parse_ditem (s : string) : option ditem :=
  match s with
  | String "m"%char r => option_map DMat (parse_nat r)
  | String "x"%char r => option_map DMT (parse_nat r)
  | String "t"%char r => option_map DTr (parse_nat r)
  | String "o"%char r =>
      match split_on ":"%char r with
      | [a; b; c] => match parse_Z a, parse_optZ b, parse_bool c with
                     | Some a, Some b, Some c => Some (DOther a b c) | _, _, _ => None end
      | _ => None
      end
  | _ => None
  end.

Fixpoint load_all (f : st -> string -> option st) (g : st) (l : list string) : option st :=
  match l with
  | [] => Some g
  | s :: r => match f g s with Some g1 => load_all f g1 r | None => None end
  end.
Definition first_ids (l : list string) : list oid :=
  flat_map (fun s => match words s with
                     | i :: _ => match parse_nat i with Some n => [n] | None => [] end
                     | [] => [] end) l.

(* ---- rendering *)
Definition show_onat (x : option oid) : string := match x with Some n => show_nat n | None => "-" end.
Definition show_b (b : bool) : string := if b then "1" else "0".
Definition cpm (c : option oid) : string := match c with Some _ => "!" | None => "" end.
Fixpoint show_hs (h : hs) : string :=
  match h with
  | Leaf isc (DInt z) c => (if isc then "ci" else "si") ++ show_Z z ++ cpm c
  | Leaf isc (DObj o) c => (if isc then "co" else "so") ++ show_nat o ++ cpm c
  | Un l c => "N" ++ cpm c ++ "," ++ show_hs l
  | Bin o l r c => (match o with OAnd => "A" | OOr => "O" end) ++ cpm c ++ "," ++ show_hs l ++ "," ++ show_hs r
  end.
Definition show_geom (x : option hs) : string := match x with Some h => show_hs h | None => "-" end.
Definition show_ids (l : list oid) : string := show_list show_nat l.

Definition show_cell (g : st) (c : oid) : string :=
  let r := cellf g c in
  "c" ++ show_nat c ++ "=" ++ show_Z (num g KCell c) ++ "," ++ show_b (plink g KCell c) ++ ","
  ++ show_b (c_lnk r) ++ ":" ++ show_ids (c_surfs r) ++ ":" ++ show_ids (c_comps r) ++ ":"
  ++ show_onat (c_mat r) ++ ":" ++ show_onat (c_univ r) ++ ":" ++ show_onat (c_fill r) ++ ":"
  ++ show_onat (c_ftr r) ++ ":" ++ show_ids (complementing g c) ++ ":" ++ show_geom (c_geom r).
Definition show_surf (g : st) (s : oid) : string :=
  let r := surff g s in
  "s" ++ show_nat s ++ "=" ++ show_Z (num g KSurf s) ++ "," ++ show_b (plink g KSurf s) ++ ":"
  ++ show_ids (surface_cells g s) ++ ":" ++ show_onat (s_tr r) ++ ":" ++ show_onat (s_per r).
Definition show_mat (g : st) (m : oid) : string :=
  "m" ++ show_nat m ++ "=" ++ show_Z (num g KMat m) ++ "," ++ show_b (plink g KMat m) ++ ":"
  ++ show_ids (material_cells g m) ++ ":" ++ show_onat (matf g m).
Definition show_tr (g : st) (t : oid) : string :=
  "t" ++ show_nat t ++ "=" ++ show_Z (num g KTr t) ++ "," ++ show_b (plink g KTr t).
Definition show_univ (g : st) (u : oid) : string :=
  "u" ++ show_nat u ++ "=" ++ show_Z (num g KUniv u) ++ "," ++ show_b (plink g KUniv u) ++ ":"
  ++ show_ids (universe_cells g u).
Definition show_mt (g : st) (x : oid) : string :=
  "x" ++ show_nat x ++ "=" ++ show_onat (t_parent (mtf g x)).
Definition show_ditem (d : ditem) : list string :=
  match d with
  | DMat m => ["m" ++ show_nat m] | DMT x => ["x" ++ show_nat x] | DTr t => ["t" ++ show_nat t]
  | DOther _ _ _ => []
  end.
Definition show_kind (k : kind) : string :=
  match k with KCell => "c" | KSurf => "s" | KMat => "m" | KTr => "t" | KUniv => "u" end.
Definition show_src (s : src) : string :=
  match s with SrcCell c => "c" ++ show_nat c | SrcSurf s => "s" ++ show_nat s | SrcMT x => "x" ++ show_nat x end.
Definition show_slot (s : slot) : string :=
  match s with SlGeom => "g" | SlMat => "m" | SlU => "u" | SlFill => "f" | SlFtr => "t"
            | SlTr => "r" | SlPer => "p" | SlMT => "x" end.
Definition show_ref (w : src * slot * kind * Z) : string :=
  let '(s, sl, k, n) := w in show_src s ++ "." ++ show_slot sl ++ "." ++ show_kind k ++ show_Z n.

Definition univ_ids (g : st) (ro : roster) : list oid := seq 0 (nu g) ++ r_univs ro.

Definition dump (g : st) (ro : roster) : string :=
  join " " (map (show_cell g) (r_cells ro)) ++ "/" ++
  join " " (map (show_surf g) (r_surfs ro)) ++ "/" ++
  join " " (map (show_mat g) (r_mats ro)) ++ "/" ++
  join " " (map (show_tr g) (r_trs ro)) ++ "/" ++
  join " " (map (show_univ g) (univ_ids g ro)) ++ "/" ++
  join " " (map (show_mt g) (r_mts ro)) ++ "/" ++
  "K=" ++ show_ids (coll g KCell) ++ ":" ++ show_ids (coll g KSurf) ++ ":" ++ show_ids (coll g KMat)
  ++ ":" ++ show_ids (coll g KTr) ++ ":" ++ show_ids (coll g KUniv) ++ ":"
  ++ show_b (clinked g KSurf) ++ show_b (clinked g KMat) ++ show_b (clinked g KTr) ++ "/" ++
  "D=" ++ show_list (fun x => x) (flat_map show_ditem (dins g)) ++ "/" ++
  "W=" ++ show_list show_ref (written_refs g) ++ "/" ++
  "U=" ++ show_list show_Z (u_card g) ++ "/" ++ "F=" ++ show_list show_Z (fill_card g).

Definition show_err (e : err) : string :=
  match e with
  | BrokenLink => "BrokenObjectLinkError" | MalformedInput => "MalformedInputError"
  | KeyErr => "KeyError" | NumberConflict => "NumberConflictError" | TypeErr => "TypeError"
  | ValueErr => "ValueError" | AttributeErr => "AttributeError" | PathErr => "Path"
  | OutOfFuel => "OutOfFuel"
  end.
Definition show_res (r : res) : string :=
  match r with ROk => "ok" | RErr e => "err:" ++ show_err e end.

Fixpoint run_show (g : st) (ro : roster) (ops : list op) (acc : list string) : list string :=
  match ops with
  | [] => rev acc
  | o :: r => let (g1, x) := step g o in
              run_show g1 ro r ((show_res x ++ "!" ++ dump g1 ro ++ "/S=" ++ show_b (links_safe g o)
                                 ++ show_b (linked_safe g o) ++ show_b (univ_safe g o)) :: acc)
  end.

Definition run_Graph (req : string) : string :=
  match split_on "|"%char req with
  | [hd; cs; ss; ms; ts; us; xs; ds; opss] =>
      match words hd with
      | [rm; rmt; rtr; du; df; dc] =>
          match parse_Z rm, parse_Z rmt, parse_Z rtr, parse_dcard du, parse_dcard df, parse_bool dc with
          | Some rm, Some rmt, Some rtr, Some du, Some df, Some dc =>
              let g0 := base_state (rm, rmt, rtr) du df dc in
              match load_all load_cell g0 (items cs) with
              | None => "parse:cells"
              | Some g1 =>
              match load_all load_surf g1 (items ss) with
              | None => "parse:surfs"
              | Some g2 =>
              match load_all (load_simple KMat) g2 (items ms) with
              | None => "parse:mats"
              | Some g3 =>
              match load_all (load_simple KTr) g3 (items ts) with
              | None => "parse:trs"
              | Some g4 =>
              match load_all (load_simple KUniv) g4 (items us) with
              | None => "parse:univs"
              | Some g5 =>
              match load_all load_mt g5 (items xs) with
              | None => "parse:mts"
              | Some g6 =>
              match map_opt parse_ditem (items ds), map_opt parse_op (items opss) with
              | Some dl, Some ops =>
                  let ro := mkroster (first_ids (items cs)) (first_ids (items ss)) (first_ids (items ms))
                                     (first_ids (items ts)) (first_ids (items us)) (first_ids (items xs)) in
                  join "#" (run_show (set_dins g6 dl) ro ops [])
              | None, _ => "parse:dins"
              | _, None => "parse:ops"
              end end end end end end end
          | _, _, _, _, _, _ => "parse:hdr"
          end
      | _ => "parse:hdr"
      end
  | _ => "parse:split"
  end.
