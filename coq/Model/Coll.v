(* Coll.v — executable model of montepy/numbered_object_collection.py
   (NumberedObjectCollection) together with the number setters of its member
   kinds (Cell, Material, Universe: validated through check_number of the
   problem's collection; Surface, Transform: likewise since the fix: commits).

   Objects are identities (nat).  The world outside the collection is the total
   maps [num] (current number of every object), [okey] (the value of the object
   apart from its number: Surface.__eq__ and Material.__eq__ compare that value
   and the number, so Python's ==, which list.remove / list.index / `in` use, is
   [oeq]; for Cell, Transform, Universe == is identity and the caller passes an
   injective [okey]), [olink] (object._problem is: nothing / the problem that
   owns this collection / another problem) and [otype] (isinstance(obj,
   obj_class)).  [fobjs] are the members of the collection of the same kind in
   that other problem: the number setter of an object linked there validates
   against them, and [FAppend] is that collection's append (it takes the object
   over: link_to_problem overwrites the link).
   No proofs in this file. *)
From Coq Require Import List ZArith Bool String Ascii Lia.
From MPV Require Import Model.Wire.
Import ListNotations.
Open Scope Z_scope.

Definition oid := nat.

Inductive link := LNone | LThis | LOther.

Record st := mkst {
  objs   : list oid;            (* _objects, in order *)
  cache  : list (Z * oid);      (* __num_cache: association list, first binding wins *)
  num    : oid -> Z;            (* obj.number for every object of the world *)
  okey   : oid -> nat;          (* value-equality class of the object without its number *)
  olink  : oid -> link;         (* obj._problem: None / owner of this collection / another problem *)
  otype  : oid -> bool;         (* isinstance(obj, self._obj_class) *)
  clink  : bool;                (* self._problem is set *)
  fobjs  : list oid             (* _objects of the same-kind collection of the other problem *)
}.

Inductive err := TypeErr | ValueErr | NumberConflict | KeyErr | IndexErr | OutOfFuel.

Inductive res :=
| ROk
| RNum (z : Z)
| RObj (o : option oid)
| RObjs (l : list oid)
| RNums (l : list Z)
| RBool (b : bool)
| RErr (e : err).

Inductive op :=
| Append (o : oid)
| AppendRenumber (o : oid) (step : Z)
| Extend (os : list oid)
| Iadd (os : list oid)
| SetItem (key : Z) (o : oid)
| Remove (o : oid)
| Pop (pos : Z)
| DelItem (n : Z)
| Clear
| SetNum (o : oid) (n : Z)
| Get (n : Z)
| GetItem (n : Z)
| Contains (o : oid)
| Numbers
| Keys
| Len
| CheckNumber (n : Z)
| RequestNumber (start step : Z)
| NextNumber (step : Z)
| Slice (start stop step : option Z)
| FAppend (o : oid)              (* other_problem.<collection>.append(o) *)
| SliceAppend (start stop step : option Z) (o : oid).   (* c[start:stop:step].append(o) *)

(* ---------- cache (a Python dict: unique keys; modelled as assoc list) ---------- *)
Fixpoint cache_get (c : list (Z * oid)) (n : Z) : option oid :=
  match c with
  | [] => None
  | (k, o) :: r => if k =? n then Some o else cache_get r n
  end.
Definition cache_pop (c : list (Z * oid)) (n : Z) : list (Z * oid) :=
  filter (fun p => negb (fst p =? n)) c.
Definition cache_set (c : list (Z * oid)) (n : Z) (o : oid) : list (Z * oid) :=
  (n, o) :: cache_pop c n.
(* fix: eviction by identity when an object leaves the collection *)
Definition cache_evict (c : list (Z * oid)) (o : oid) : list (Z * oid) :=
  filter (fun p => negb (Nat.eqb (snd p) o)) c.

Definition set_objs (s : st) l :=
  mkst l (cache s) (num s) (okey s) (olink s) (otype s) (clink s) (fobjs s).
Definition set_cache (s : st) c :=
  mkst (objs s) c (num s) (okey s) (olink s) (otype s) (clink s) (fobjs s).
Definition set_num (s : st) (o : oid) (n : Z) :=
  mkst (objs s) (cache s) (fun x => if Nat.eqb x o then n else num s x) (okey s) (olink s) (otype s)
       (clink s) (fobjs s).
Definition set_olink (s : st) (o : oid) (k : link) :=
  mkst (objs s) (cache s) (num s) (okey s) (fun x => if Nat.eqb x o then k else olink s x) (otype s)
       (clink s) (fobjs s).
Definition set_link (s : st) (o : oid) := set_olink s o LThis.
Definition set_fobjs (s : st) l :=
  mkst (objs s) (cache s) (num s) (okey s) (olink s) (otype s) (clink s) l.

(* Python ==  (`a is b or a == b` in list.remove / list.index / `in`) *)
Definition oeq (s : st) (a b : oid) : bool :=
  Nat.eqb a b || (Nat.eqb (okey s a) (okey s b) && (num s a =? num s b)).
(* the first member that equals x *)
Definition find_eq (s : st) (x : oid) : option oid := find (fun e => oeq s e x) (objs s).

Definition numbers_of (s : st) : list Z := map (num s) (objs s).
Definition fnumbers_of (s : st) : list Z := map (num s) (fobjs s).
Definition mem_Z (n : Z) (l : list Z) : bool := existsb (Z.eqb n) l.
Definition mem_o (o : oid) (l : list oid) : bool := existsb (Nat.eqb o) l.

(* `n in self.numbers`: the generator refreshes the cache for every object it
   yields and membership stops at the first hit. *)
Fixpoint refresh_until (numf : oid -> Z) (l : list oid) (c : list (Z * oid)) (n : Z)
  : list (Z * oid) * bool :=
  match l with
  | [] => (c, false)
  | o :: r => let c' := cache_set c (numf o) o in
              if numf o =? n then (c', true) else refresh_until numf r c' n
  end.
Definition in_numbers (s : st) (n : Z) : st * bool :=
  let (c, b) := refresh_until (num s) (objs s) (cache s) n in (set_cache s c, b).

(* list(self.numbers): full refresh *)
Fixpoint refresh_all (numf : oid -> Z) (l : list oid) (c : list (Z * oid)) : list (Z * oid) :=
  match l with
  | [] => c
  | o :: r => refresh_all numf r (cache_set c (numf o) o)
  end.
Definition all_numbers (s : st) : st * list Z :=
  (set_cache s (refresh_all (num s) (objs s) (cache s)), numbers_of s).

Fixpoint find_num (numf : oid -> Z) (l : list oid) (n : Z) : option oid :=
  match l with
  | [] => None
  | o :: r => if numf o =? n then Some o else find_num numf r n
  end.

(* get(i) *)
Definition get (s : st) (i : Z) : st * option oid :=
  let scan :=
    match find_num (num s) (objs s) i with
    | Some o => (set_cache s (cache_set (cache s) i o), Some o)
    | None => (s, None)
    end in
  match cache_get (cache s) i with
  | Some o => if num s o =? i then (s, Some o) else scan
  | None => scan
  end.

(* check_number *)
Definition check_number (s : st) (n : Z) : st * res :=
  let (s', b) := in_numbers s n in
  if b then (s', RErr NumberConflict) else (s', ROk).

(* the number setter of a member kind: isinstance int is implicit (n : Z);
   n <= 0 -> ValueError; if the object is linked, <its problem>.<coll>.check_number: this
   collection for LThis, the other problem's collection for LOther (whose cache is not modelled:
   nothing reads it) *)
Definition set_number (s : st) (o : oid) (n : Z) : st * res :=
  if n <=? 0 then (s, RErr ValueErr)
  else match olink s o with
       | LThis =>
           match check_number s n with
           | (s', ROk) => (set_num s' o n, ROk)
           | (s', r) => (s', r)
           end
       | LOther =>
           if mem_Z n (fnumbers_of s) then (s, RErr NumberConflict) else (set_num s o n, ROk)
       | LNone => (set_num s o n, ROk)
       end.

Definition link_if (s : st) (o : oid) : st := if clink s then set_link s o else s.
Fixpoint link_all (s : st) (l : list oid) : st :=
  match l with [] => s | o :: r => link_all (set_link s o) r end.

Definition append (s : st) (o : oid) : st * res :=
  if negb (otype s o) then (s, RErr TypeErr)
  else let (s1, b) := in_numbers s (num s o) in
       if b then (s1, RErr NumberConflict)
       else let s2 := set_cache s1 (cache_set (cache s1) (num s o) o) in
            let s3 := set_objs s2 (objs s2 ++ [o]) in
            (link_if s3 o, ROk).

(* request_number: while number in self.numbers: number += step *)
Fixpoint request_loop (fuel : nat) (s : st) (n step : Z) : st * option Z :=
  match fuel with
  | O => (s, None)
  | S f => let (s', b) := in_numbers s n in
           if b then request_loop f s' (n + step) step else (s', Some n)
  end.
Definition request_number (s : st) (start step : Z) : st * res :=
  match request_loop (S (List.length (objs s))) s start step with
  | (s', Some n) => (s', RNum n)
  | (s', None) => (s', RErr OutOfFuel)
  end.

Definition append_renumber (s : st) (o : oid) (step : Z) : st * res :=
  if negb (otype s o) then (s, RErr TypeErr)
  else if mem_o o (objs s) then (s, RErr NumberConflict)   (* fix: already a member *)
  else
    let number := num s o in
    let s0 := link_if s o in
    match append s0 o with
    | (s1, RErr NumberConflict) =>
        match request_number s1 number step with
        | (s2, RNum n) =>
            match set_number s2 o n with
            | (s3, ROk) => match append s3 o with
                           | (s4, ROk) => (s4, RNum n)
                           | (s4, r) => (s4, r)
                           end
            | (s3, r) => (s3, r)
            end
        | (s2, r) => (s2, r)
        end
    | (s1, ROk) => (s1, RNum number)
    | (s1, r) => (s1, r)
    end.

(* extend: per candidate type check, then collision with members or (fix:) with an
   earlier candidate; ghosts of accepted numbers are popped from the cache as we go *)
Fixpoint extend_check (s : st) (l : list oid) (seen : list Z) : st * option err :=
  match l with
  | [] => (s, None)
  | o :: r =>
      if negb (otype s o) then (s, Some TypeErr)
      else let (s1, b) := in_numbers s (num s o) in
           if orb b (mem_Z (num s o) seen) then (s1, Some NumberConflict)
           else extend_check (set_cache s1 (cache_pop (cache s1) (num s o))) r (num s o :: seen)
  end.
Definition extend (s : st) (l : list oid) : st * res :=
  match extend_check s l [] with
  | (s1, Some e) => (s1, RErr e)
  | (s1, None) =>
      let s2 := set_objs s1 (objs s1 ++ l) in
      ((if clink s2 then link_all s2 l else s2), ROk)
  end.

(* __iadd__: all type checks first, then collisions (members, fix: earlier
   candidates), cache written only after every candidate passed (fix:) *)
Fixpoint iadd_check (s : st) (l : list oid) (seen : list Z) : st * bool :=
  match l with
  | [] => (s, false)
  | o :: r =>
      let (s1, b) := in_numbers s (num s o) in
      if orb b (mem_Z (num s o) seen) then (s1, true)
      else iadd_check s1 r (num s o :: seen)
  end.
Fixpoint cache_add_all (numf : oid -> Z) (c : list (Z * oid)) (l : list oid) :=
  match l with [] => c | o :: r => cache_add_all numf (cache_set c (numf o) o) r end.
Definition iadd (s : st) (l : list oid) : st * res :=
  if negb (forallb (otype s) l) then (s, RErr TypeErr)
  else match iadd_check s l [] with
       | (s1, true) => (s1, RErr NumberConflict)
       | (s1, false) =>
           let s2 := set_cache s1 (cache_add_all (num s1) (cache s1) l) in
           let s3 := set_objs s2 (objs s2 ++ l) in
           ((if clink s3 then link_all s3 l else s3), ROk)
       end.

Fixpoint remove_first (o : oid) (l : list oid) : list oid :=
  match l with
  | [] => []
  | x :: r => if Nat.eqb x o then r else x :: remove_first o r
  end.

(* remove(delete): idx = self._objects.index(delete) is the first member that EQUALS delete
   (ValueError if none, nothing touched); the cache entry of that member's number is popped, the
   member is deleted by position, __evict drops the entries that point at that member (fix:) *)
Definition remove (s : st) (x : oid) : st * res :=
  match find_eq s x with
  | Some e =>
      (set_objs (set_cache s (cache_evict (cache_pop (cache s) (num s e)) e))
                (remove_first e (objs s)), ROk)
  | None => (s, RErr ValueErr)
  end.

Fixpoint remove_nth {A} (n : nat) (l : list A) : list A :=
  match n, l with
  | _, [] => []
  | O, _ :: r => r
  | S k, x :: r => x :: remove_nth k r
  end.

(* pop(pos): python list index semantics *)
Definition pop (s : st) (pos : Z) : st * res :=
  let len := Z.of_nat (List.length (objs s)) in
  let idx := if pos <? 0 then pos + len else pos in
  if orb (idx <? 0) (len <=? idx) then (s, RErr IndexErr)
  else match nth_error (objs s) (Z.to_nat idx) with
       | Some o =>
           (set_objs (set_cache s (cache_evict (cache_pop (cache s) (num s o)) o))
                     (remove_nth (Z.to_nat idx) (objs s)), RObj (Some o))
       | None => (s, RErr IndexErr)
       end.

(* del c[n]: obj = self[n]; pop the cache entry; idx = self._objects.index(obj) (first member that
   EQUALS obj, ValueError if none); del self._objects[idx]; __evict(obj) *)
Definition delitem (s : st) (n : Z) : st * res :=
  match get s n with
  | (s1, Some o) =>
      let c1 := cache_pop (cache s1) (num s1 o) in
      match find_eq s1 o with
      | Some e => (set_objs (set_cache s1 (cache_evict c1 o)) (remove_first e (objs s1)), ROk)
      | None => (set_cache s1 c1, RErr ValueErr)
      end
  | (s1, None) => (s1, RErr KeyErr)
  end.

(* other_problem.<collection>.append(o): that collection is linked to its problem, so the object
   is taken over *)
Definition fappend (s : st) (o : oid) : st * res :=
  if negb (otype s o) then (s, RErr TypeErr)
  else if mem_Z (num s o) (fnumbers_of s) then (s, RErr NumberConflict)
  else (set_olink (set_fobjs s (fobjs s ++ [o])) o LOther, ROk).

Definition clear (s : st) : st * res := (set_objs (set_cache s []) [], ROk).

Definition zmax_list (l : list Z) : option Z :=
  match l with [] => None | x :: r => Some (fold_left Z.max r x) end.
Definition zmin_list (l : list Z) : option Z :=
  match l with [] => None | x :: r => Some (fold_left Z.min r x) end.

Definition next_number (s : st) (step : Z) : st * res :=
  if step <=? 0 then (s, RErr ValueErr)
  else let (s1, ns) := all_numbers s in
       match zmax_list ns with
       | Some m => (s1, RNum (m + step))
       | None => (s1, RErr ValueErr)
       end.

(* range(start, stop, step) -> get on each *)
Fixpoint slice_loop (fuel : nat) (s : st) (i step : Z) (acc : list oid) : st * list oid :=
  match fuel with
  | O => (s, rev acc)
  | S f => match get s i with
           | (s1, Some o) => slice_loop f s1 (i + step) step (o :: acc)
           | (s1, None) => slice_loop f s1 (i + step) step acc
           end
  end.
Definition range_len (start stop step : Z) : Z :=
  if 0 <? step then (if start <? stop then (stop - start + step - 1) / step else 0)
  else (if stop <? start then (start - stop - step - 1) / (- step) else 0).

Definition slice (s : st) (ostart ostop ostep : option Z) : st * res :=
  let rstep := match ostep with Some x => x | None => 1 end in
  let need_max := if rstep <? 0 then match ostart with None => true | _ => false end
                  else match ostop with None => true | _ => false end in
  let need_min := if rstep <? 0 then match ostop with None => true | _ => false end else false in
  let (s1, ns) := if orb need_max need_min then all_numbers s else (s, numbers_of s) in
  match (if orb need_max need_min then zmax_list ns else Some 0) with
  | None => (s1, RErr ValueErr)               (* max()/min() of an empty sequence *)
  | Some _ =>
      if rstep =? 0 then (s1, RErr ValueErr)  (* range() arg 3 must not be zero *)
      else
      let mx := match zmax_list ns with Some m => m | None => 0 end in
      let mn := match zmin_list ns with Some m => m | None => 0 end in
      let '(rstart, rstop) :=
        if rstep <? 0
        then ((match ostart with Some x => x | None => mx end),
              (match ostop with Some x => x | None => mn end) - 1)
        else ((match ostart with Some x => x | None => 0 end),
              (match ostop with Some x => x | None => mx end) + 1) in
      let n := range_len rstart rstop rstep in
      let (s3, l) := slice_loop (Z.to_nat n) s1 rstart rstep [] in
      (s3, RObjs l)
  end.

(* c[a:b:c].append(x): the slice is a new free-standing collection of the objects found, with a
   cache of its own; appending to it checks the class and the numbers of ITS members and leaves
   this collection, the object's number and its link alone *)
Definition slice_append (s : st) (a b c : option Z) (x : oid) : st * res :=
  match slice s a b c with
  | (s1, RObjs l) =>
      if negb (otype s1 x) then (s1, RErr TypeErr)
      else if mem_Z (num s1 x) (map (num s1) l) then (s1, RErr NumberConflict)
      else (s1, ROk)
  | (s1, r) => (s1, r)
  end.

Definition step (s : st) (o : op) : st * res :=
  match o with
  | Append x => append s x
  | AppendRenumber x k => append_renumber s x k
  | Extend l => extend s l
  | Iadd l => iadd s l
  | SetItem _ x => append s x
  | Remove x => remove s x
  | Pop p => pop s p
  | DelItem n => delitem s n
  | Clear => clear s
  | SetNum x n => set_number s x n
  | Get n => let (s1, r) := get s n in (s1, RObj r)
  | GetItem n => match get s n with
                 | (s1, Some x) => (s1, RObj (Some x))
                 | (s1, None) => (s1, RErr KeyErr)
                 end
  | Contains x => (s, RBool (existsb (fun e => oeq s e x) (objs s)))
  | Numbers => let (s1, ns) := all_numbers s in (s1, RNums ns)
  | Keys => (s, RNums (numbers_of s))
  | Len => (s, RNum (Z.of_nat (List.length (objs s))))
  | CheckNumber n => check_number s n
  | RequestNumber a k => request_number s a k
  | NextNumber k => next_number s k
  | Slice a b c => slice s a b c
  | FAppend x => fappend s x
  | SliceAppend a b c x => slice_append s a b c x
  end.

(* premise of the invariant theorem, as a boolean (Proofs/CollProofs.v: op_okb_spec):
   [setnum_seen]: the setter of a member validates against this collection, or the object is not a
   member, or the number is free.
   [remove_same] (remove(x) takes out x itself, or nothing) is no premise any more; the wire
   reports it so that the harness can count how often remove() was given an equal object *)
Definition setnum_seen (s : st) (x : oid) (n : Z) : bool :=
  match olink s x with LThis => true | _ => false end
  || negb (mem_o x (objs s)) || negb (mem_Z n (numbers_of s)).
Definition remove_same (s : st) (x : oid) : bool :=
  match find_eq s x with Some e => Nat.eqb e x | None => true end.
Definition op_okb (s : st) (o : op) : bool :=
  match o with
  | SetNum x n => setnum_seen s x n
  | _ => true
  end.

Fixpoint run (s : st) (ops : list op) : st :=
  match ops with [] => s | o :: r => run (fst (step s o)) r end.

(* constructor from a list: NumberConflictError on the first repeated number *)
Fixpoint init_cache (numf : oid -> Z) (l : list oid) (c : list (Z * oid)) : option (list (Z * oid)) :=
  match l with
  | [] => Some c
  | o :: r => match cache_get c (numf o) with
              | Some _ => None
              | None => init_cache numf r (cache_set c (numf o) o)
              end
  end.
Definition init (l : list oid) (numf : oid -> Z) (kf : oid -> nat) (lk : oid -> link)
           (ty : oid -> bool) (cl : bool) (fl : list oid) : option st :=
  if negb (forallb ty l) then None
  else match init_cache numf l [] with
       | Some c => Some (mkst l c numf kf lk ty cl fl)
       | None => None
       end.

(* ------------------------------------------------------------------ *)
(* wire protocol: request =
     "<clink> <numbers,...> <links 0|1|2,...> <types,...> <keys,...> <members,...> <foreign members,...> | op ; op ; ..."
   response = one result per op joined by ';', then '|' members '|' cache (sorted by caller)
              '|' links of all objects '|' foreign members
              '|' positions of the SetNum operations outside the premise setnum_seen
              '|' positions of the Remove operations that were given an equal object which is not
                  the member (remove_same false) *)

Definition show_err (e : err) : string :=
  match e with
  | TypeErr => "TypeError" | ValueErr => "ValueError" | NumberConflict => "NumberConflictError"
  | KeyErr => "KeyError" | IndexErr => "IndexError" | OutOfFuel => "OutOfFuel"
  end%string.

Definition show_res (r : res) : string :=
  match r with
  | ROk => "ok"
  | RNum z => "n:" ++ show_Z z
  | RObj None => "o:none"
  | RObj (Some o) => "o:" ++ show_nat o
  | RObjs l => "os:" ++ show_list show_nat l
  | RNums l => "ns:" ++ show_list show_Z l
  | RBool true => "b:1"
  | RBool false => "b:0"
  | RErr e => "err:" ++ show_err e
  end%string.

Definition parse_optZ (s : string) : option (option Z) :=
  if String.eqb s "_" then Some None else option_map Some (parse_Z s).

Definition parse_op (s : string) : option op :=
  match words s with
  | ["append"; a] => option_map Append (parse_nat a)
  | ["append_renumber"; a; k] =>
      match parse_nat a, parse_Z k with Some a, Some k => Some (AppendRenumber a k) | _, _ => None end
  | ["extend"; l] => option_map Extend (parse_list parse_nat l)
  | ["iadd"; l] => option_map Iadd (parse_list parse_nat l)
  | ["setitem"; k; a] =>
      match parse_Z k, parse_nat a with Some k, Some a => Some (SetItem k a) | _, _ => None end
  | ["remove"; a] => option_map Remove (parse_nat a)
  | ["pop"; p] => option_map Pop (parse_Z p)
  | ["del"; n] => option_map DelItem (parse_Z n)
  | ["clear"] => Some Clear
  | ["setnum"; a; n] =>
      match parse_nat a, parse_Z n with Some a, Some n => Some (SetNum a n) | _, _ => None end
  | ["get"; n] => option_map Get (parse_Z n)
  | ["getitem"; n] => option_map GetItem (parse_Z n)
  | ["contains"; a] => option_map Contains (parse_nat a)
  | ["numbers"] => Some Numbers
  | ["keys"] => Some Keys
  | ["len"] => Some Len
  | ["check_number"; n] => option_map CheckNumber (parse_Z n)
  | ["request_number"; a; k] =>
      match parse_Z a, parse_Z k with Some a, Some k => Some (RequestNumber a k) | _, _ => None end
  | ["next_number"; k] => option_map NextNumber (parse_Z k)
  | ["slice"; a; b; c] =>
      match parse_optZ a, parse_optZ b, parse_optZ c with
      | Some a, Some b, Some c => Some (Slice a b c) | _, _, _ => None end
  | ["fappend"; a] => option_map FAppend (parse_nat a)
  | ["slice_append"; a; b; c; x] =>
      match parse_optZ a, parse_optZ b, parse_optZ c, parse_nat x with
      | Some a, Some b, Some c, Some x => Some (SliceAppend a b c x) | _, _, _, _ => None end
  | _ => None
  end%string.

Definition nth_fun {A} (l : list A) (d : A) : nat -> A := fun i => nth i l d.

Fixpoint run_show (s : st) (ops : list op) (acc : list string) : st * list string :=
  match ops with
  | [] => (s, rev acc)
  | o :: r => let (s1, x) := step s o in run_show s1 r (show_res x :: acc)
  end.

(* positions (from i) of the operations of kind [sel] whose premise does not hold in the state
   they are applied to *)
Fixpoint premise_breaks (sel : op -> bool) (s : st) (ops : list op) (i : nat) : list nat :=
  match ops with
  | [] => []
  | o :: r =>
      let rest := premise_breaks sel (fst (step s o)) r (S i) in
      if sel o && negb (match o with Remove x => remove_same s x | _ => op_okb s o end)
      then i :: rest else rest
  end.
Definition is_setnum (o : op) : bool := match o with SetNum _ _ => true | _ => false end.
Definition is_remove (o : op) : bool := match o with Remove _ => true | _ => false end.

Definition parse_link (s : string) : option link :=
  if String.eqb s "0" then Some LNone else if String.eqb s "1" then Some LThis
  else if String.eqb s "2" then Some LOther else None.
Definition show_link (k : link) : string :=
  match k with LNone => "0" | LThis => "1" | LOther => "2" end.

Definition show_cache (c : list (Z * oid)) : string :=
  show_list (fun p => show_Z (fst p) ++ ">" ++ show_nat (snd p))%string c.

(* cache_set pops the key before consing, so keys are unique as in a Python dict *)
Definition is_true (s : string) : option bool :=
  if String.eqb s "1" then Some true else if String.eqb s "0" then Some false else None.

Definition run_Coll (req : string) : string :=
  match split_on "|"%char req with
  | [hd; opss] =>
      match words hd with
      | [cl; nums; lks; tys; keys; mems; fmems] =>
          match is_true cl, parse_list parse_Z nums, parse_list parse_link lks,
                parse_list is_true tys, parse_list parse_nat keys, parse_list parse_nat mems,
                parse_list parse_nat fmems,
                map_opt parse_op (filter (fun w => negb (String.eqb w "")) (map (fun x => join " " (words x)) (split_on ";"%char opss))) with
          | Some cl, Some nums, Some lks, Some tys, Some keys, Some mems, Some fmems, Some ops =>
              match init mems (nth_fun nums 0) (nth_fun keys 0%nat) (nth_fun lks LNone)
                         (nth_fun tys false) cl fmems with
              | None => "init:err"
              | Some s0 =>
                  let (s1, outs) := run_show s0 ops [] in
                  (join ";" outs ++ "|" ++ show_list show_nat (objs s1) ++ "|"
                   ++ show_cache (cache s1) ++ "|"
                   ++ show_list show_link (map (olink s1) (seq 0 (List.length nums))) ++ "|"
                   ++ show_list show_nat (fobjs s1) ++ "|"
                   ++ show_list show_nat (premise_breaks is_setnum s0 ops 0) ++ "|"
                   ++ show_list show_nat (premise_breaks is_remove s0 ops 0))%string
              end
          | _, _, _, _, _, _, _, _ => "parse:err"
          end
      | _ => "parse:hd"
      end
  | _ => "parse:split"
  end%string.
