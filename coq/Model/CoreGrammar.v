(* CoreGrammar.v — model for property C12 (every input of the documented core grammar is accepted).

   Three things live here, no proofs:
   1. a generic context-free derivation relation [Derives G nt ts] over a production table
      [G : list (string * list string)] (the tables themselves are generated from the SLY parser
      classes into Gen/Grammar.v);
   2. [shape]s: the abstract syntax of a core of G_core (DESIGN.md section 5.2) — cells (number,
      material/density, every CSG expression, keyword parameters incl. the FILL/TRCL forms),
      surfaces (modifier, number, pointer, mnemonic, numeric list with shortcuts), data cards that are
      numeric lists (classifier with modifier/number/particles, optional keyword, list with shortcuts),
      material cards (ZAID/fraction pairs with library, keyword parameters) and thermal cards — each
      with every place where padding (blanks, line breaks, `$` comments, `c` comment lines, `&`) may
      stand; and [gen : shape -> list token], a token being (SLY token class, text);
   3. the wire entry [run_CoreGrammar]: a shape written as a postfix program is rendered to its tokens.

   What is NOT modelled: the LALR(1) automaton SLY builds from the productions (its conflict
   resolution), the lexer's regular expressions (the class of each token is what [gen] *claims*; the
   harness compares it with the real lexer on every case), the semantic constructors run after parsing. *)
From Coq Require Import List String Ascii ZArith Bool Lia.
From MPV Require Import Model.Wire.
Import ListNotations.
Open Scope string_scope.

(* ------------------------------------------------------------------ 1. context-free derivations *)
Definition production := (string * list string)%type.

Definition token_classes : list string :=
  ["&"; "("; ")"; "*"; "+"; ","; ":"; "="; "COMMENT"; "COMPLEMENT"; "DOLLAR_COMMENT"; "FILE_PATH";
   "INTERPOLATE"; "JUMP"; "KEYWORD"; "LIBRARY_SUFFIX"; "LOG_INTERPOLATE"; "MESSAGE"; "MULTIPLY"; "NULL";
   "NUMBER"; "NUMBER_WORD"; "NUM_INTERPOLATE"; "NUM_JUMP"; "NUM_LOG_INTERPOLATE"; "NUM_MULTIPLY";
   "NUM_REPEAT"; "PARTICLE"; "PARTICLE_SPECIAL"; "REPEAT"; "SOURCE_COMMENT"; "SPACE"; "SURFACE_TYPE";
   "TALLY_COMMENT"; "TEXT"; "THERMAL_LAW"; "ZAID"].

Definition mem_str (s : string) (l : list string) : bool := existsb (String.eqb s) l.
Definition is_token (s : string) : bool := mem_str s token_classes.

(* [DerivesF G form ts]: the sentential form [form] derives the token-class string [ts] *)
Inductive DerivesF (G : list production) : list string -> list string -> Prop :=
| DF_nil : DerivesF G [] []
| DF_tok : forall t rest ts,
    is_token t = true -> DerivesF G rest ts -> DerivesF G (t :: rest) (t :: ts)
| DF_nt : forall nt rhs rest ts1 ts2,
    In (nt, rhs) G -> DerivesF G rhs ts1 -> DerivesF G rest ts2 -> DerivesF G (nt :: rest) (ts1 ++ ts2).

Definition Derives (G : list production) (nt : string) (ts : list string) : Prop := DerivesF G [nt] ts.

(* decidable table helpers used by the reflective obligations *)
Definition list_str_eqb (a b : list string) : bool :=
  (fix go (a b : list string) : bool :=
     match a, b with
     | [], [] => true
     | x :: a', y :: b' => String.eqb x y && go a' b'
     | _, _ => false
     end) a b.
Definition prod_eqb (p q : production) : bool := String.eqb (fst p) (fst q) && list_str_eqb (snd p) (snd q).
Definition mem_prod (p : production) (G : list production) : bool := existsb (prod_eqb p) G.
(* the productions of [req] that [G] lacks — the computed witness of a broken obligation *)
Definition missing (req G : list production) : list production := filter (fun p => negb (mem_prod p G)) req.
Definition missing_str (req l : list string) : list string := filter (fun s => negb (mem_str s l)) req.

(* ------------------------------------------------------------------ 2. tokens and shapes *)
Definition token := (string * string)%type.          (* (class, text) *)
Definition classes (ts : list token) : list string := map fst ts.
Definition render (ts : list token) : string := String.concat "" (map snd ts).

Inductive sign := SNone | SPlus | SMinus.
Inductive expmark := ELow | EUp | EFortran.
Record real := mkReal {
  r_sign : sign; r_int : list nat; r_frac : option (list nat); r_exp : option (expmark * sign * list nat) }.

Definition dchar (d : nat) : ascii := ascii_of_nat (48 + Nat.modulo d 10).
Fixpoint digits (l : list nat) : string :=
  match l with [] => "" | d :: r => String (dchar d) (digits r) end.
Definition sign_text (s : sign) : string := match s with SNone => "" | SPlus => "+" | SMinus => "-" end.
Definition real_text (r : real) : string :=
  sign_text (r_sign r) ++ digits (r_int r)
  ++ (match r_frac r with Some f => "." ++ digits f | None => "" end)
  ++ (match r_exp r with
      | None => ""
      | Some (ELow, s, e) => "e" ++ sign_text s ++ digits e
      | Some (EUp, s, e) => "E" ++ sign_text s ++ digits e
      | Some (EFortran, s, e) => (match s with SMinus => "-" | _ => "+" end) ++ digits e
      end).
Definition all_zero (l : list nat) : bool := forallb (fun d => Nat.eqb (Nat.modulo d 10) 0) l.
Definition real_zero (r : real) : bool :=
  all_zero (r_int r) && (match r_frac r with Some f => all_zero f | None => true end).
(* tokens.py NUMBER: the type becomes NULL when the value is zero *)
Definition real_class (r : real) : string := if real_zero r then "NULL" else "NUMBER".
Definition num_tok (r : real) : token := (real_class r, real_text r).

Fixpoint spaces (n : nat) : string := match n with O => "" | S k => String " "%char (spaces k) end.
Definition nl : string := String (ascii_of_nat 10) "".

(* padding: each constructor is one self-contained stretch of blanks/comments/line breaks *)
Inductive pad :=
| PBlank (n : nat)                              (* n+1 blanks *)
| PBreak (n m : nat)                            (* n blanks, line break, 5+m blanks *)
| PDollar (n : nat) (txt : string) (m : nat)    (* n+1 blanks, $txt, line break, 5+m blanks *)
| PDollarEnd (n : nat) (txt : string)           (* n+1 blanks, $txt  (end of the card) *)
| PComment (n : nat) (cs : list string) (m : nat) (* n blanks, line break, comment lines, 5+m blanks *)
| PAmp (n m : nat).                             (* n+1 blanks, &, line break, m+1 blanks *)

Fixpoint comment_toks (cs : list string) (last : string) : list token :=
  match cs with
  | [] => []
  | [c] => [("COMMENT", "c " ++ c); ("SPACE", nl ++ last)]
  | c :: r => ("COMMENT", "c " ++ c) :: ("SPACE", nl) :: comment_toks r last
  end.

Definition pad_toks (p : pad) : list token :=
  match p with
  | PBlank n => [("SPACE", spaces (S n))]
  | PBreak n m => [("SPACE", spaces n ++ nl ++ spaces (5 + m))]
  | PDollar n txt m => [("SPACE", spaces (S n)); ("DOLLAR_COMMENT", "$" ++ txt); ("SPACE", nl ++ spaces (5 + m))]
  | PDollarEnd n txt => [("SPACE", spaces (S n)); ("DOLLAR_COMMENT", "$" ++ txt)]
  | PComment n cs m =>
      match cs with
      | [] => [("SPACE", spaces n ++ nl ++ spaces (5 + m))]
      | _ => ("SPACE", spaces n ++ nl) :: comment_toks cs (spaces (5 + m))
      end
  | PAmp n m => [("SPACE", spaces (S n)); ("&", "&"); ("SPACE", nl ++ spaces (S m))]
  end.
Definition opad_toks (p : option pad) : list token := match p with Some q => pad_toks q | None => [] end.

(* ---- cell geometry: G_core  geom ::= term { ":" term }, term ::= fact { fact },
        fact ::= leaf | #INT | #(geom) | (geom) *)
Inductive fact :=
| FLeaf (r : real)
| FComplCell (r : real)
| FComplPar (pl : option pad) (e : expr)
| FPar (pl : option pad) (e : expr)
with term :=
| TOne (f : fact)
| TAnd (t : term) (sep : option pad) (f : fact)
with expr :=
| EOne (t : term) (trail : option pad)
| EOr (e : expr) (pr : option pad) (t : term) (trail : option pad).

Fixpoint fact_toks (f : fact) : list token :=
  match f with
  | FLeaf r => [num_tok r]
  | FComplCell r => [("COMPLEMENT", "#"); num_tok r]
  | FComplPar pl e => [("COMPLEMENT", "#"); ("(", "(")] ++ opad_toks pl ++ expr_toks e ++ [(")", ")")]
  | FPar pl e => [("(", "(")] ++ opad_toks pl ++ expr_toks e ++ [(")", ")")]
  end
with term_toks (t : term) : list token :=
  match t with
  | TOne f => fact_toks f
  | TAnd t' sep f => term_toks t' ++ opad_toks sep ++ fact_toks f
  end
with expr_toks (e : expr) : list token :=
  match e with
  | EOne t tr => term_toks t ++ opad_toks tr
  | EOr e' pr t tr => expr_toks e' ++ [(":", ":")] ++ opad_toks pr ++ term_toks t ++ opad_toks tr
  end.

Definition is_factory (f : fact) : bool :=
  match f with FLeaf _ | FPar _ _ => true | _ => false end.
Definition nonzero (r : real) : bool := negb (real_zero r).

(* the side condition under which the geometry is derivable: surface/cell numbers are not zero; two facts
   may touch without padding only when the second is a surface number or a parenthesis (never a complement) *)
Fixpoint fact_ok (f : fact) : bool :=
  match f with
  | FLeaf r => nonzero r
  | FComplCell r => nonzero r
  | FComplPar _ e => expr_ok e
  | FPar _ e => expr_ok e
  end
with term_ok (t : term) : bool :=
  match t with
  | TOne f => fact_ok f
  | TAnd t' sep f => term_ok t' && fact_ok f && (match sep with Some _ => true | None => is_factory f end)
  end
with expr_ok (e : expr) : bool :=
  match e with
  | EOne t _ => term_ok t
  | EOr e' _ t _ => expr_ok e' && term_ok t
  end.

(* ---- numeric lists with shortcuts: NL(x) of G_core *)
Inductive nitem :=
| NNum (r : real)
| NJump (n : option nat)
| NRepeat (n : option nat)
| NMul (n : nat)
| NInterp (n : option nat) (p : pad) (w : real)
| NLog (n : option nat) (p : pad) (w : real).
Inductive nlist :=
| NLOne (i : nitem) (p : option pad)
| NLSnoc (l : nlist) (i : nitem) (p : option pad).

Definition onat_text (n : option nat) : string := match n with Some k => show_nat k | None => "" end.
Definition nitem_toks (i : nitem) : list token :=
  match i with
  | NNum r => [num_tok r]
  | NJump n => [((match n with Some _ => "NUM_JUMP" | None => "JUMP" end), onat_text n ++ "j")]
  | NRepeat n => [((match n with Some _ => "NUM_REPEAT" | None => "REPEAT" end), onat_text n ++ "r")]
  | NMul n => [("NUM_MULTIPLY", show_nat n ++ "m")]
  | NInterp n p w => [((match n with Some _ => "NUM_INTERPOLATE" | None => "INTERPOLATE" end), onat_text n ++ "i")]
                     ++ pad_toks p ++ [num_tok w]
  | NLog n p w => [((match n with Some _ => "NUM_LOG_INTERPOLATE" | None => "LOG_INTERPOLATE" end), onat_text n ++ "ilog")]
                  ++ pad_toks p ++ [num_tok w]
  end.
Fixpoint nlist_toks (l : nlist) : list token :=
  match l with
  | NLOne i p => nitem_toks i ++ opad_toks p
  | NLSnoc l' i p => nlist_toks l' ++ nitem_toks i ++ opad_toks p
  end.

Definition is_start (i : nitem) : bool := match i with NNum _ | NJump _ => true | _ => false end.
Definition nitem_ok (i : nitem) : bool :=
  match i with NInterp _ _ w | NLog _ _ w => nonzero w | _ => true end.
Fixpoint nlist_ok (l : nlist) : bool :=
  match l with
  | NLOne i _ => is_start i && nitem_ok i
  | NLSnoc l' i _ => nlist_ok l' && nitem_ok i
  end.

(* ---- values of cell parameters: numeric list, FILL n (tr), FILL i:j i:j i:j n..., TRCL (..) *)
Inductive cvseq :=
| CVList (l : nlist)
| CVRange (s : cvseq) (b : real) (p : option pad)          (* s ":" b pad *)
| CVNum (s : cvseq) (i : nitem) (p : option pad)           (* s followed by a number or a jump *)
| CVGroup (s : cvseq) (inner : nlist) (p : option pad)     (* s "(" inner ")" pad *)
| CVParen (inner : nlist) (p : option pad).                (* "(" inner ")" pad *)

Fixpoint cvseq_toks (s : cvseq) : list token :=
  match s with
  | CVList l => nlist_toks l
  | CVRange s' b p => cvseq_toks s' ++ [(":", ":")] ++ [num_tok b] ++ opad_toks p
  | CVNum s' i p => cvseq_toks s' ++ nitem_toks i ++ opad_toks p
  | CVGroup s' inner p => cvseq_toks s' ++ [("(", "(")] ++ nlist_toks inner ++ [(")", ")")] ++ opad_toks p
  | CVParen inner p => [("(", "(")] ++ nlist_toks inner ++ [(")", ")")] ++ opad_toks p
  end.
Fixpoint cvseq_ok (s : cvseq) : bool :=
  match s with
  | CVList l => nlist_ok l
  | CVRange s' _ _ => cvseq_ok s'
  | CVNum s' i _ => cvseq_ok s' && is_start i
  | CVGroup s' inner _ => cvseq_ok s' && nlist_ok inner
  | CVParen inner _ => nlist_ok inner
  end.

Inductive sepshape := SepPad (p : pad) | SepEq (pl pr : option pad).
Definition sep_toks (s : sepshape) : list token :=
  match s with
  | SepPad p => pad_toks p
  | SepEq pl pr => opad_toks pl ++ [("=", "=")] ++ opad_toks pr
  end.

(* the keywords of G_core's cparam and the particle designators that the cell lexer classifies PARTICLE *)
Definition core_cell_keys : list string :=
  ["imp"; "vol"; "u"; "lat"; "fill"; "trcl"; "tmp"; "pwt"; "nonu"; "cosy"; "bflcl"; "ext"; "fcl"; "elpt";
   "unc"; "wwn"; "dxc"; "pd"].
Definition core_letter_particles : list string :=
  ["n"; "p"; "e"; "q"; "v"; "f"; "h"; "l"; "o"; "g"; "k"; "b"; "c"; "w"; "d"; "t"; "s"; "a"].
Definition core_special_particles : list string := ["|"; "<"; ">"; "%"; "*"; "?"].

Fixpoint parts_toks (first : bool) (ps : list token) : list token :=
  match ps with
  | [] => []
  | p :: r => (if first then (":", ":") else (",", ",")) :: p :: parts_toks false r
  end.

Record cparam := mkCParam {
  cp_star : bool; cp_key : string; cp_num : option nat; cp_parts : list string;
  cp_sep : sepshape; cp_val : cvseq }.
Definition cparam_toks (c : cparam) : list token :=
  (if cp_star c then [("*", "*")] else [])
  ++ [("KEYWORD", cp_key c)]
  ++ (match cp_num c with Some n => [("NUMBER", show_nat n)] | None => [] end)
  ++ parts_toks true (map (fun p => ("PARTICLE", p)) (cp_parts c))
  ++ sep_toks (cp_sep c) ++ cvseq_toks (cp_val c).
Definition nat_nonzero (n : option nat) : bool := match n with Some O => false | _ => true end.
Definition cparam_ok (c : cparam) : bool :=
  mem_str (cp_key c) core_cell_keys && nat_nonzero (cp_num c)
  && forallb (fun p => mem_str p core_letter_particles) (cp_parts c) && cvseq_ok (cp_val c).

Inductive matspec :=
| MVoid (z : real) (p : pad)
| MMat (m : real) (p1 : pad) (d : real) (p2 : pad).
Definition mat_toks (m : matspec) : list token :=
  match m with
  | MVoid z p => num_tok z :: pad_toks p
  | MMat n p1 d p2 => num_tok n :: pad_toks p1 ++ num_tok d :: pad_toks p2
  end.
Definition mat_ok (m : matspec) : bool :=
  match m with MVoid z _ => real_zero z | MMat n _ _ _ => nonzero n end.

Record cell := mkCell {
  c_lead : option pad; c_num : real; c_pad : pad; c_mat : matspec; c_geom : expr; c_params : list cparam }.
Definition cell_toks (c : cell) : list token :=
  opad_toks (c_lead c) ++ num_tok (c_num c) :: pad_toks (c_pad c) ++ mat_toks (c_mat c)
  ++ expr_toks (c_geom c) ++ flat_map cparam_toks (c_params c).
Definition cell_shape_b (c : cell) : bool :=
  nonzero (c_num c) && mat_ok (c_mat c) && expr_ok (c_geom c) && forallb cparam_ok (c_params c).
Definition cell_shape (c : cell) : Prop := cell_shape_b c = true.

(* ---- surfaces *)
Inductive smod := SMNone | SMStar | SMPlus.
Definition core_mnemonics : list string :=
  ["p"; "px"; "py"; "pz"; "so"; "s"; "sx"; "sy"; "sz"; "c/x"; "c/y"; "c/z"; "cx"; "cy"; "cz";
   "k/x"; "k/y"; "k/z"; "kx"; "ky"; "kz"; "sq"; "gq"; "tx"; "ty"; "tz"; "x"; "y"; "z";
   "box"; "rpp"; "sph"; "rcc"; "rhp"; "hex"; "rec"; "trc"; "ell"; "wed"; "arb"].
Record surf := mkSurf {
  s_lead : option pad; s_mod : smod; s_num : real; s_p1 : pad; s_ptr : option (real * pad);
  s_mn : string; s_p2 : pad; s_data : nlist }.
Definition with_sign (s : sign) (r : real) : real := mkReal s (r_int r) (r_frac r) (r_exp r).
Definition surf_toks (s : surf) : list token :=
  opad_toks (s_lead s)
  ++ (match s_mod s with
      | SMNone => [num_tok (s_num s)]
      | SMStar => [("*", "*"); num_tok (s_num s)]
      | SMPlus => [num_tok (with_sign SPlus (s_num s))]      (* "+7" is one NUMBER token *)
      end)
  ++ pad_toks (s_p1 s)
  ++ (match s_ptr s with Some (r, p) => num_tok r :: pad_toks p | None => [] end)
  ++ [("SURFACE_TYPE", s_mn s)] ++ pad_toks (s_p2 s) ++ nlist_toks (s_data s).
Definition surf_shape_b (s : surf) : bool :=
  nonzero (s_num s) && (match s_ptr s with Some (r, _) => nonzero r | None => true end)
  && mem_str (s_mn s) core_mnemonics && nlist_ok (s_data s).
Definition surf_shape (s : surf) : Prop := surf_shape_b s = true.

(* ---- data cards that are numeric lists *)
Inductive pclass := PCText | PCKeyword | PCParticle.
Definition pclass_name (c : pclass) : string :=
  match c with PCText => "TEXT" | PCKeyword => "KEYWORD" | PCParticle => "PARTICLE" end.
Record dcls := mkDcls {
  d_star : bool; d_prefix : string; d_pclass : pclass; d_num : option nat; d_parts : list (bool * string) }.
Definition dpart_tok (p : bool * string) : token :=
  ((if fst p then "PARTICLE_SPECIAL" else "PARTICLE"), snd p).
Definition dcls_toks (d : dcls) : list token :=
  (if d_star d then [("PARTICLE_SPECIAL", "*")] else [])
  ++ [(pclass_name (d_pclass d), d_prefix d)]
  ++ (match d_num d with Some n => [("NUMBER", show_nat n)] | None => [] end)
  ++ parts_toks true (map dpart_tok (d_parts d)).
Definition dpart_ok (p : bool * string) : bool :=
  if fst p then mem_str (snd p) core_special_particles else mem_str (snd p) core_letter_particles.
Definition dcls_ok (d : dcls) : bool := nat_nonzero (d_num d) && forallb dpart_ok (d_parts d).

Record datacard := mkData {
  dc_lead : option pad; dc_cls : dcls; dc_pad : option pad; dc_kw : option (string * pad);
  dc_data : option nlist }.
Definition data_toks (d : datacard) : list token :=
  opad_toks (dc_lead d) ++ dcls_toks (dc_cls d) ++ opad_toks (dc_pad d)
  ++ (match dc_kw d with Some (k, p) => ("KEYWORD", k) :: pad_toks p | None => [] end)
  ++ (match dc_data d with Some l => nlist_toks l | None => [] end).
Definition data_shape_b (d : datacard) : bool :=
  dcls_ok (dc_cls d) && (match dc_data d with Some l => nlist_ok l | None => true end).
Definition data_shape (d : datacard) : Prop := data_shape_b d = true.

(* ---- material cards: every ZAID with a library; keyword parameters with a number list or a library *)
Inductive mparam :=
| MPNum (key : string) (sep : sepshape) (v : nlist)
| MPLib (key : string) (sep : sepshape) (lib : string) (p : option pad).
Definition mparam_toks (m : mparam) : list token :=
  match m with
  | MPNum k s v => ("KEYWORD", k) :: sep_toks s ++ nlist_toks v
  | MPLib k s lib p => ("KEYWORD", k) :: sep_toks s ++ ("NUMBER_WORD", lib) :: opad_toks p
  end.
Definition mparam_ok (m : mparam) : bool := match m with MPNum _ _ v => nlist_ok v | MPLib _ _ _ _ => true end.
Definition core_mat_keys : list string :=
  ["gas"; "estep"; "hstep"; "nlib"; "plib"; "pnlib"; "elib"; "hlib"; "alib"; "slib"; "tlib"; "dlib";
   "cond"; "refi"; "refc"; "refs"].

Record zfrac := mkZ { z_zaid : string; z_pad : option pad; z_frac : real; z_trail : option pad }.
Definition zfrac_toks (z : zfrac) : list token :=
  ("ZAID", z_zaid z) :: opad_toks (z_pad z) ++ num_tok (z_frac z) :: opad_toks (z_trail z).
Record matcard := mkMat {
  m_lead : option pad; m_num : nat; m_pad : option pad; m_first : zfrac; m_rest : list zfrac;
  m_params : list mparam }.
Definition mat_card_toks (m : matcard) : list token :=
  opad_toks (m_lead m) ++ [("TEXT", "m"); ("NUMBER", show_nat (m_num m))] ++ opad_toks (m_pad m)
  ++ zfrac_toks (m_first m) ++ flat_map zfrac_toks (m_rest m) ++ flat_map mparam_toks (m_params m).
Definition matcard_shape_b (m : matcard) : bool :=
  negb (Nat.eqb (m_num m) 0) && forallb (fun z => nonzero (z_frac z)) (m_first m :: m_rest m)
  && forallb mparam_ok (m_params m).
Definition matcard_shape (m : matcard) : Prop := matcard_shape_b m = true.

(* ---- thermal scattering cards *)
Record mtcard := mkMT {
  t_lead : option pad; t_num : nat; t_pad : option pad; t_first : string * option pad;
  t_rest : list (string * option pad) }.
Definition law_toks (l : string * option pad) : list token := ("THERMAL_LAW", fst l) :: opad_toks (snd l).
Definition mt_card_toks (m : mtcard) : list token :=
  opad_toks (t_lead m) ++ [("TEXT", "mt"); ("NUMBER", show_nat (t_num m))] ++ opad_toks (t_pad m)
  ++ law_toks (t_first m) ++ flat_map law_toks (t_rest m).
Definition mtcard_shape (m : mtcard) : Prop := t_num m <> 0.

(* ---- a shape is one card of one of the five kinds *)
Inductive shape :=
| ShCell (c : cell) | ShSurf (s : surf) | ShData (d : datacard) | ShMat (m : matcard) | ShMT (m : mtcard).
Definition gen (sh : shape) : list token :=
  match sh with
  | ShCell c => cell_toks c | ShSurf s => surf_toks s | ShData d => data_toks d
  | ShMat m => mat_card_toks m | ShMT m => mt_card_toks m
  end.
Definition shape_ok_b (sh : shape) : bool :=
  match sh with
  | ShCell c => cell_shape_b c | ShSurf s => surf_shape_b s | ShData d => data_shape_b d
  | ShMat m => matcard_shape_b m | ShMT m => negb (Nat.eqb (t_num m) 0)
  end.

(* ---- dispatch of cell parameters to modifier classes (Cell._parse_keyword_modifiers) *)
Fixpoint is_prefix_of (p s : string) : bool :=
  match p, s with
  | EmptyString, _ => true
  | String a p', String b s' => Ascii.eqb a b && is_prefix_of p' s'
  | _, _ => false
  end.
Fixpoint is_substring (p s : string) : bool :=
  is_prefix_of p s || (match s with EmptyString => false | String _ s' => is_substring p s' end).
(* [dispatch by_substring prefixes key]: the modifier-class prefixes that claim the parameter key *)
Definition dispatch (by_substring : bool) (prefixes : list string) (key : string) : list string :=
  filter (fun pfx => if by_substring then is_substring pfx key else String.eqb pfx key) prefixes.
(* the class G_core expects: the parameter's own keyword when it is one of the modifier prefixes *)
Definition expected_dispatch (prefixes : list string) (key : string) : list string :=
  filter (fun pfx => String.eqb pfx key) prefixes.

(* ------------------------------------------------------------------ 3. wire entry *)
Inductive val :=
| VR (r : real) | VP (p : pad) | VOP (p : option pad) | VF (f : fact) | VT (t : term) | VE (e : expr)
| VI (i : nitem) | VL (l : nlist) | VOL (l : option nlist) | VC (c : cvseq) | VSep (s : sepshape)
| VCP (c : cparam) | VCPS (l : list cparam) | VM (m : matspec) | VPtr (p : option (real * pad))
| VKw (k : option (string * pad)) | VZ (z : zfrac) | VZS (l : list zfrac) | VMP (m : mparam)
| VMPS (l : list mparam) | VLaw (l : string * option pad) | VLaws (l : list (string * option pad))
| VShape (s : shape).

Definition parse_sign (s : string) : option sign :=
  if String.eqb s "n" then Some SNone else if String.eqb s "p" then Some SPlus
  else if String.eqb s "m" then Some SMinus else None.
Fixpoint parse_digits (s : string) : option (list nat) :=
  match s with
  | EmptyString => Some []
  | String a r => match digit_of a, parse_digits r with
                  | Some d, Some l => Some (Z.to_nat d :: l)
                  | _, _ => None
                  end
  end.
Definition parse_onat (s : string) : option (option nat) :=
  if String.eqb s "-" then Some None else option_map Some (parse_nat s).
Definition parse_strs (s : string) : list string :=
  if String.eqb s "-" then [] else map hex_decode (split_on ","%char s).
Definition parse_dparts (s : string) : list (bool * string) :=
  map (fun w => match w with
                | String "!"%char r => (true, hex_decode r)
                | _ => (false, hex_decode w)
                end) (if String.eqb s "-" then [] else split_on ","%char s).

(* r:S:INT:FRAC|-:MARK:S:EXP *)
Definition parse_real (f : list string) : option real :=
  match f with
  | [s; i; fr; mk; es; ex] =>
      match parse_sign s, parse_digits i, parse_sign es, parse_digits ex with
      | Some sg, Some il, Some esg, Some el =>
          let frac := if String.eqb fr "-" then Some None else option_map Some (parse_digits fr) in
          let ex' := if String.eqb mk "-" then Some None
                     else if String.eqb mk "e" then Some (Some (ELow, esg, el))
                     else if String.eqb mk "E" then Some (Some (EUp, esg, el))
                     else if String.eqb mk "f" then Some (Some (EFortran, esg, el)) else None in
          match frac, ex' with
          | Some fo, Some eo => Some (mkReal sg il fo eo)
          | _, _ => None
          end
      | _, _, _, _ => None
      end
  | _ => None
  end.

Definition step (st : option (list val)) (w : string) : option (list val) :=
  match st with
  | None => None
  | Some stack =>
    let f := split_on ":"%char w in
    match f, stack with
    | "r" :: rest, _ => option_map (fun r => VR r :: stack) (parse_real rest)
    | ["sp"; n], _ => option_map (fun k => VP (PBlank k) :: stack) (parse_nat n)
    | ["br"; n; m], _ => match parse_nat n, parse_nat m with
                         | Some a, Some b => Some (VP (PBreak a b) :: stack) | _, _ => None end
    | ["dl"; n; t; m], _ => match parse_nat n, parse_nat m with
                            | Some a, Some b => Some (VP (PDollar a (hex_decode t) b) :: stack) | _, _ => None end
    | ["de"; n; t], _ => option_map (fun a => VP (PDollarEnd a (hex_decode t)) :: stack) (parse_nat n)
    | ["cm"; n; m; cs], _ => match parse_nat n, parse_nat m with
                             | Some a, Some b => Some (VP (PComment a (parse_strs cs) b) :: stack) | _, _ => None end
    | ["am"; n; m], _ => match parse_nat n, parse_nat m with
                         | Some a, Some b => Some (VP (PAmp a b) :: stack) | _, _ => None end
    | ["some"], VP p :: s => Some (VOP (Some p) :: s)
    | ["none"], _ => Some (VOP None :: stack)
    | ["leaf"], VR r :: s => Some (VF (FLeaf r) :: s)
    | ["ccell"], VR r :: s => Some (VF (FComplCell r) :: s)
    | ["cpar"], VE e :: VOP p :: s => Some (VF (FComplPar p e) :: s)
    | ["par"], VE e :: VOP p :: s => Some (VF (FPar p e) :: s)
    | ["t1"], VF x :: s => Some (VT (TOne x) :: s)
    | ["tand"], VF x :: VOP p :: VT t :: s => Some (VT (TAnd t p x) :: s)
    | ["e1"], VOP tr :: VT t :: s => Some (VE (EOne t tr) :: s)
    | ["eor"], VOP tr :: VT t :: VOP pr :: VE e :: s => Some (VE (EOr e pr t tr) :: s)
    | ["num"], VR r :: s => Some (VI (NNum r) :: s)
    | ["j"; n], _ => option_map (fun k => VI (NJump k) :: stack) (parse_onat n)
    | ["rep"; n], _ => option_map (fun k => VI (NRepeat k) :: stack) (parse_onat n)
    | ["mul"; n], _ => option_map (fun k => VI (NMul k) :: stack) (parse_nat n)
    | ["int"; n], VR r :: VP p :: s => option_map (fun k => VI (NInterp k p r) :: s) (parse_onat n)
    | ["log"; n], VR r :: VP p :: s => option_map (fun k => VI (NLog k p r) :: s) (parse_onat n)
    | ["nl1"], VOP p :: VI i :: s => Some (VL (NLOne i p) :: s)
    | ["nls"], VOP p :: VI i :: VL l :: s => Some (VL (NLSnoc l i p) :: s)
    | ["somel"], VL l :: s => Some (VOL (Some l) :: s)
    | ["nol"], _ => Some (VOL None :: stack)
    | ["cvl"], VL l :: s => Some (VC (CVList l) :: s)
    | ["cvr"], VOP p :: VR b :: VC c :: s => Some (VC (CVRange c b p) :: s)
    | ["cvn"], VOP p :: VI i :: VC c :: s => Some (VC (CVNum c i p) :: s)
    | ["cvg"], VOP p :: VL inner :: VC c :: s => Some (VC (CVGroup c inner p) :: s)
    | ["cvp"], VOP p :: VL inner :: s => Some (VC (CVParen inner p) :: s)
    | ["seppad"], VP p :: s => Some (VSep (SepPad p) :: s)
    | ["sepeq"], VOP pr :: VOP pl :: s => Some (VSep (SepEq pl pr) :: s)
    | ["cp"; star; key; n; parts], VC v :: VSep sp :: s =>
        option_map (fun k => VCP (mkCParam (String.eqb star "1") (hex_decode key) k (parse_strs parts) sp v) :: s)
                   (parse_onat n)
    | ["cps0"], _ => Some (VCPS [] :: stack)
    | ["cpsadd"], VCP c :: VCPS l :: s => Some (VCPS (l ++ [c]) :: s)
    | ["void"], VP p :: VR z :: s => Some (VM (MVoid z p) :: s)
    | ["mat"], VP p2 :: VR d :: VP p1 :: VR m :: s => Some (VM (MMat m p1 d p2) :: s)
    | ["cell"], VCPS ps :: VE g :: VM m :: VP p :: VR n :: VOP lead :: s =>
        Some (VShape (ShCell (mkCell lead n p m g ps)) :: s)
    | ["ptr"], VP p :: VR r :: s => Some (VPtr (Some (r, p)) :: s)
    | ["noptr"], _ => Some (VPtr None :: stack)
    | ["surf"; md; mn], VL l :: VP p2 :: VPtr ptr :: VP p1 :: VR n :: VOP lead :: s =>
        let m := if String.eqb md "*" then SMStar else if String.eqb md "+" then SMPlus else SMNone in
        Some (VShape (ShSurf (mkSurf lead m n p1 ptr (hex_decode mn) p2 l)) :: s)
    | ["kw"; k], VP p :: s => Some (VKw (Some (hex_decode k, p)) :: s)
    | ["nokw"], _ => Some (VKw None :: stack)
    | ["data"; star; pfx; pc; n; parts], VOL l :: VKw k :: VOP p :: VOP lead :: s =>
        let c := if String.eqb pc "K" then PCKeyword else if String.eqb pc "P" then PCParticle else PCText in
        option_map (fun k' => VShape (ShData (mkData lead
                       (mkDcls (String.eqb star "1") (hex_decode pfx) c k' (parse_dparts parts)) p k l)) :: s)
                   (parse_onat n)
    | ["zaid"; z], VOP tr :: VR fr :: VOP p :: s => Some (VZ (mkZ (hex_decode z) p fr tr) :: s)
    | ["zs0"], _ => Some (VZS [] :: stack)
    | ["zsadd"], VZ z :: VZS l :: s => Some (VZS (l ++ [z]) :: s)
    | ["mpn"; k], VL v :: VSep sp :: s => Some (VMP (MPNum (hex_decode k) sp v) :: s)
    | ["mpl"; k; lib], VOP p :: VSep sp :: s => Some (VMP (MPLib (hex_decode k) sp (hex_decode lib) p) :: s)
    | ["mps0"], _ => Some (VMPS [] :: stack)
    | ["mpsadd"], VMP m :: VMPS l :: s => Some (VMPS (l ++ [m]) :: s)
    | ["mcard"; n], VMPS ps :: VZS zs :: VZ z :: VOP p :: VOP lead :: s =>
        option_map (fun k => VShape (ShMat (mkMat lead k p z zs ps)) :: s) (parse_nat n)
    | ["law"; t], VOP p :: s => Some (VLaw (hex_decode t, p) :: s)
    | ["laws0"], _ => Some (VLaws [] :: stack)
    | ["lawsadd"], VLaw l :: VLaws ls :: s => Some (VLaws (ls ++ [l]) :: s)
    | ["mtcard"; n], VLaws ls :: VLaw l :: VOP p :: VOP lead :: s =>
        option_map (fun k => VShape (ShMT (mkMT lead k p l ls)) :: s) (parse_nat n)
    | _, _ => None
    end
  end.

Definition parse_shape (ws : list string) : option shape :=
  match fold_left step ws (Some []) with
  | Some [VShape s] => Some s
  | _ => None
  end.

Definition upchar (a : ascii) : ascii :=
  let n := nat_of_ascii a in if andb (Nat.leb 97 n) (Nat.leb n 122) then ascii_of_nat (n - 32) else a.
Fixpoint upcase (s : string) : string :=
  match s with EmptyString => EmptyString | String a r => String (upchar a) (upcase r) end.
(* either case: the class of a token does not depend on the case of its letters *)
Definition gen_case (up : bool) (sh : shape) : list token :=
  if up then map (fun t => (fst t, upcase (snd t))) (gen sh) else gen sh.

Definition show_tok (t : token) : string := hex_encode (fst t) ++ "." ++ hex_encode (snd t).

(* requests:  "gen U|L <postfix program>"  ->  "ok <0|1> tok tok ..."   (1 = the shape predicate holds)
              "dispatch <0|1> <prefix,prefix,..> <key>" -> the claiming prefixes *)
Definition run_CoreGrammar (req : string) : string :=
  match words req with
  | "gen" :: c :: prog =>
      match parse_shape prog with
      | Some sh => "ok " ++ (if shape_ok_b sh then "1" else "0") ++ " "
                   ++ join " " (map show_tok (gen_case (String.eqb c "U") sh))
      | None => "error:shape"
      end
  | ["dispatch"; m; pfx; key] =>
      show_list hex_encode (dispatch (String.eqb m "1") (parse_strs pfx) (hex_decode key))
  | _ => "error:request"
  end.
