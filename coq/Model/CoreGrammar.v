(* CoreGrammar.v — model for property C12 (every input of the documented core grammar is accepted).

   Four things live here, no proofs:
   1. a generic context-free derivation relation [Derives G nt ts] over a production table
      [G : list (string * list string)] (the tables themselves are generated from the SLY parser
      classes into Gen/Grammar.v);
   2. [shape]s: the abstract syntax of a core of G_core (DESIGN.md section 5.2) — cells (number,
      material/density, every CSG expression, keyword parameters incl. the FILL/TRCL forms),
      surfaces (modifier, number, pointer, mnemonic, numeric list with shortcuts), data cards that are
      numeric lists (classifier with modifier/number/particles, optional keyword, list with shortcuts),
      material cards (ZAID/fraction pairs with library, keyword parameters) and thermal cards — each
      with every place where padding (blanks, line breaks, `$` comments, `c` comment lines, `&`) may
      stand; and [gen : shape -> list token], a token being (SLY token class, text);
   3. the LR driver [lr_run]: sly.yacc.Parser.parse's table-driven loop (shift / reduce / goto, defaulted
      states, first error = rejection as MCNP_Parser.parse does) run on the action/goto tables SLY built,
      which the translator writes to Gen/LRTables.v — the automaton after SLY's conflict resolution;
   4. the wire entry [run_CoreGrammar]: a shape written as a postfix program is rendered to its tokens,
      and a token-class sequence is run through the LR driver of a named parser.

   What is NOT modelled: the lexer's regular expressions (the class of each token is what [gen] *claims*,
   except the class of a data-card name, which is computed from the generated keyword/particle tables as
   ParticleLexer.TEXT does; the harness compares every token with the real lexer on every case), and the
   semantic actions / constructors that run during and after parsing. *)
From Coq Require Import List String Ascii ZArith Bool Lia.
From MPV Require Import Model.Wire.
From MPV Require Gen.Tables Gen.Grammar Gen.LRTables Gen.Lexer.
Import ListNotations.
Open Scope string_scope.

(* ------------------------------------------------------------------ 1. context-free derivations *)
Definition production := (string * list string)%type.

Definition token_classes : list string :=
  ["&"; "("; ")"; "*"; "+"; ","; ":"; "="; "COMMENT"; "COMPLEMENT"; "DOLLAR_COMMENT"; "FILE_PATH";
   "INTERPOLATE"; "JUMP"; "KEYWORD"; "LIBRARY_SUFFIX"; "LOG_INTERPOLATE"; "MESSAGE"; "MULTIPLY"; "NULL";
   "NUMBER"; "NUMBER_WORD"; "NUM_INTERPOLATE"; "NUM_JUMP"; "NUM_LOG_INTERPOLATE"; "NUM_MULTIPLY";
   "NUM_REPEAT"; "PARTICLE"; "PARTICLE_SPECIAL"; "REPEAT"; "SOURCE_COMMENT"; "SPACE"; "SURFACE_TYPE";
   "TALLY_COMMENT"; "TEXT"; "THERMAL_LAW"; "ZAID"].

Definition mem_str (s : string) (l : list string) : bool := existsb (String.eqb s) l.
Definition is_token (s : string) : bool := mem_str s token_classes.

(* [DerivesF G form ts]: the sentential form [form] derives the token-class string [ts] *)
Inductive DerivesF (G : list production) : list string -> list string -> Prop :=
| DF_nil : DerivesF G [] []
| DF_tok : forall t rest ts,
    is_token t = true -> DerivesF G rest ts -> DerivesF G (t :: rest) (t :: ts)
| DF_nt : forall nt rhs rest ts1 ts2,
    In (nt, rhs) G -> DerivesF G rhs ts1 -> DerivesF G rest ts2 -> DerivesF G (nt :: rest) (ts1 ++ ts2).

Definition Derives (G : list production) (nt : string) (ts : list string) : Prop := DerivesF G [nt] ts.

(* decidable table helpers used by the reflective obligations *)
Definition list_str_eqb (a b : list string) : bool :=
  (fix go (a b : list string) : bool :=
     match a, b with
     | [], [] => true
     | x :: a', y :: b' => String.eqb x y && go a' b'
     | _, _ => false
     end) a b.
Definition prod_eqb (p q : production) : bool := String.eqb (fst p) (fst q) && list_str_eqb (snd p) (snd q).
Definition mem_prod (p : production) (G : list production) : bool := existsb (prod_eqb p) G.
(* the productions of [req] that [G] lacks — the computed witness of a broken obligation *)
Definition missing (req G : list production) : list production := filter (fun p => negb (mem_prod p G)) req.
Definition missing_str (req l : list string) : list string := filter (fun s => negb (mem_str s l)) req.

(* ------------------------------------------------------------------ 2. tokens and shapes *)
Definition token := (string * string)%type.          (* (class, text) *)
Definition classes (ts : list token) : list string := map fst ts.
Definition render (ts : list token) : string := String.concat "" (map snd ts).

Inductive sign := SNone | SPlus | SMinus.
Inductive expmark := ELow | EUp | EFortran.
Record real := mkReal {
  r_sign : sign; r_int : list nat; r_frac : option (list nat); r_exp : option (expmark * sign * list nat) }.

Definition dchar (d : nat) : ascii := ascii_of_nat (48 + Nat.modulo d 10).
Fixpoint digits (l : list nat) : string :=
  match l with [] => "" | d :: r => String (dchar d) (digits r) end.
Definition sign_text (s : sign) : string := match s with SNone => "" | SPlus => "+" | SMinus => "-" end.
Definition real_text (r : real) : string :=
  sign_text (r_sign r) ++ digits (r_int r)
  ++ (match r_frac r with Some f => "." ++ digits f | None => "" end)
  ++ (match r_exp r with
      | None => ""
      | Some (ELow, s, e) => "e" ++ sign_text s ++ digits e
      | Some (EUp, s, e) => "E" ++ sign_text s ++ digits e
      | Some (EFortran, s, e) => (match s with SMinus => "-" | _ => "+" end) ++ digits e
      end).
Definition all_zero (l : list nat) : bool := forallb (fun d => Nat.eqb (Nat.modulo d 10) 0) l.
Definition real_zero (r : real) : bool :=
  all_zero (r_int r) && (match r_frac r with Some f => all_zero f | None => true end).
(* tokens.py NUMBER: the type becomes NULL when the value is zero *)
Definition real_class (r : real) : string := if real_zero r then "NULL" else "NUMBER".
Definition num_tok (r : real) : token := (real_class r, real_text r).

Fixpoint spaces (n : nat) : string := match n with O => "" | S k => String " "%char (spaces k) end.
Definition nl : string := String (ascii_of_nat 10) "".

(* padding: each constructor is one self-contained stretch of blanks/comments/line breaks.
   A comment line is (indent <= 4, body): [Some t] is "c t", [None] is a bare "c" (the lexer's COMMENT
   token then contains the line break: r"C\n"). *)
Definition cline := (nat * option string)%type.
Inductive pad :=
| PBlank (n : nat)                              (* n+1 blanks *)
| PTab (n : nat)                                (* n+1 tabs *)
| PBreak (n m : nat)                            (* n blanks, line break, 5+m blanks *)
| PDollar (n : nat) (txt : string) (m : nat)    (* n+1 blanks, $txt, line break, 5+m blanks *)
| PDollarEnd (n : nat) (txt : string)           (* n+1 blanks, $txt  (end of the card) *)
| PComment (n : nat) (cs : list cline) (m : nat) (* n blanks, line break, comment lines, 5+m blanks *)
| PAmp (n m : nat)                              (* n+1 blanks, &, line break, m blanks *)
| PLead (c : cline) (cs : list cline) (m : nat). (* in front of a card: comment lines, then m <= 4 blanks *)

Fixpoint tabs (n : nat) : string := match n with O => "" | S k => String (ascii_of_nat 9) (tabs k) end.
Definition sp_tok (s : string) : list token :=
  match s with EmptyString => [] | _ => [("SPACE", s)] end.
Definition cline_tok (b : option string) : token :=
  match b with Some t => ("COMMENT", "c " ++ t) | None => ("COMMENT", "c" ++ nl) end.
Definition cline_next (b : option string) : string := match b with Some _ => nl | None => "" end.
(* [pre] = the blanks/line break still to be emitted in front of the next comment line *)
Fixpoint comment_rest (pre : string) (cs : list cline) (last : string) : list token :=
  match cs with
  | [] => sp_tok (pre ++ last)
  | (ind, b) :: r => sp_tok (pre ++ spaces ind) ++ cline_tok b :: comment_rest (cline_next b) r last
  end.

Definition pad_toks (p : pad) : list token :=
  match p with
  | PBlank n => [("SPACE", spaces (S n))]
  | PTab n => [("SPACE", tabs (S n))]
  | PBreak n m => [("SPACE", spaces n ++ nl ++ spaces (5 + m))]
  | PDollar n txt m => [("SPACE", spaces (S n)); ("DOLLAR_COMMENT", "$" ++ txt); ("SPACE", nl ++ spaces (5 + m))]
  | PDollarEnd n txt => [("SPACE", spaces (S n)); ("DOLLAR_COMMENT", "$" ++ txt)]
  | PComment n cs m =>
      match cs with
      | [] => [("SPACE", spaces n ++ nl ++ spaces (5 + m))]
      | (ind, b) :: r => ("SPACE", spaces n ++ nl ++ spaces ind) :: cline_tok b
                         :: comment_rest (cline_next b) r (spaces (5 + m))
      end
  | PAmp n m => [("SPACE", spaces (S n)); ("&", "&"); ("SPACE", nl ++ spaces m)]
  | PLead (ind, b) cs m => sp_tok (spaces ind) ++ cline_tok b :: comment_rest (cline_next b) cs (spaces m)
  end.
Definition opad_toks (p : option pad) : list token := match p with Some q => pad_toks q | None => [] end.

(* ---- cell geometry: G_core  geom ::= term { ":" term }, term ::= fact { fact },
        fact ::= leaf | #INT | #(geom) | (geom) *)
Inductive fact :=
| FLeaf (r : real)
| FComplCell (r : real)
| FComplPar (pl : option pad) (e : expr)
| FPar (pl : option pad) (e : expr)
with term :=
| TOne (f : fact)
| TAnd (t : term) (sep : option pad) (f : fact)
with expr :=
| EOne (t : term) (trail : option pad)
| EOr (e : expr) (pr : option pad) (t : term) (trail : option pad).

Fixpoint fact_toks (f : fact) : list token :=
  match f with
  | FLeaf r => [num_tok r]
  | FComplCell r => [("COMPLEMENT", "#"); num_tok r]
  | FComplPar pl e => [("COMPLEMENT", "#"); ("(", "(")] ++ opad_toks pl ++ expr_toks e ++ [(")", ")")]
  | FPar pl e => [("(", "(")] ++ opad_toks pl ++ expr_toks e ++ [(")", ")")]
  end
with term_toks (t : term) : list token :=
  match t with
  | TOne f => fact_toks f
  | TAnd t' sep f => term_toks t' ++ opad_toks sep ++ fact_toks f
  end
with expr_toks (e : expr) : list token :=
  match e with
  | EOne t tr => term_toks t ++ opad_toks tr
  | EOr e' pr t tr => expr_toks e' ++ [(":", ":")] ++ opad_toks pr ++ term_toks t ++ opad_toks tr
  end.

Definition is_factory (f : fact) : bool :=
  match f with FLeaf _ | FPar _ _ => true | _ => false end.
Definition nonzero (r : real) : bool := negb (real_zero r).

(* the side condition under which the geometry is derivable: surface/cell numbers are not zero (two facts may
   touch without padding: `geometry_term geometry_factor`; the generator only lets them touch at a parenthesis) *)
Fixpoint fact_ok (f : fact) : bool :=
  match f with
  | FLeaf r => nonzero r
  | FComplCell r => nonzero r
  | FComplPar _ e => expr_ok e
  | FPar _ e => expr_ok e
  end
with term_ok (t : term) : bool :=
  match t with
  | TOne f => fact_ok f
  | TAnd t' sep f => term_ok t' && fact_ok f
  end
with expr_ok (e : expr) : bool :=
  match e with
  | EOne t _ => term_ok t
  | EOr e' _ t _ => expr_ok e' && term_ok t
  end.

(* ---- numeric lists with shortcuts: NL(x) of G_core *)
Inductive nitem :=
| NNum (r : real)
| NJump (n : option nat)
| NRepeat (n : option nat)
| NMul (x : real)
| NInterp (n : option nat) (p : pad) (w : real)
| NLog (n : option nat) (p : pad) (w : real).
Inductive nlist :=
| NLOne (i : nitem) (p : option pad)
| NLSnoc (l : nlist) (i : nitem) (p : option pad).

Definition onat_text (n : option nat) : string := match n with Some k => show_nat k | None => "" end.
Definition nitem_toks (i : nitem) : list token :=
  match i with
  | NNum r => [num_tok r]
  | NJump n => [((match n with Some _ => "NUM_JUMP" | None => "JUMP" end), onat_text n ++ "j")]
  | NRepeat n => [((match n with Some _ => "NUM_REPEAT" | None => "REPEAT" end), onat_text n ++ "r")]
  | NMul x => [("NUM_MULTIPLY", real_text x ++ "m")]
  | NInterp n p w => [((match n with Some _ => "NUM_INTERPOLATE" | None => "INTERPOLATE" end), onat_text n ++ "i")]
                     ++ pad_toks p ++ [num_tok w]
  | NLog n p w => [((match n with Some _ => "NUM_LOG_INTERPOLATE" | None => "LOG_INTERPOLATE" end), onat_text n ++ "ilog")]
                  ++ pad_toks p ++ [num_tok w]
  end.
Fixpoint nlist_toks (l : nlist) : list token :=
  match l with
  | NLOne i p => nitem_toks i ++ opad_toks p
  | NLSnoc l' i p => nlist_toks l' ++ nitem_toks i ++ opad_toks p
  end.

Definition is_start (i : nitem) : bool := match i with NNum _ | NJump _ => true | _ => false end.
(* an unsigned integer spelling: the only factors of xM that the lexer turns into one NUM_MULTIPLY token *)
Definition plain_int (x : real) : bool :=
  (match r_sign x with SNone => true | _ => false end)
  && negb (Nat.eqb (List.length (r_int x)) 0)
  && (match r_frac x with None => true | _ => false end)
  && (match r_exp x with None => true | _ => false end).
Definition nitem_ok (i : nitem) : bool :=
  match i with NLog _ _ w => nonzero w | NMul x => plain_int x | _ => true end.
Fixpoint nlist_ok (l : nlist) : bool :=
  match l with
  | NLOne i _ => is_start i && nitem_ok i
  | NLSnoc l' i _ => nlist_ok l' && nitem_ok i
  end.

(* ---- values of cell parameters: numeric list, FILL n (tr), FILL i:j i:j i:j n..., TRCL (..) *)
Inductive cvseq :=
| CVList (l : nlist)
| CVRange (s : cvseq) (b : real) (p : option pad)          (* s ":" b pad *)
| CVNum (s : cvseq) (i : nitem) (p : option pad)           (* s followed by a number or a jump *)
| CVGroup (s : cvseq) (pl : option pad) (inner : nlist) (p : option pad)   (* s "(" [pad] inner ")" pad *)
| CVParen (pl : option pad) (inner : nlist) (p : option pad).              (* "(" [pad] inner ")" pad *)

Fixpoint cvseq_toks (s : cvseq) : list token :=
  match s with
  | CVList l => nlist_toks l
  | CVRange s' b p => cvseq_toks s' ++ [(":", ":")] ++ [num_tok b] ++ opad_toks p
  | CVNum s' i p => cvseq_toks s' ++ nitem_toks i ++ opad_toks p
  | CVGroup s' pl inner p =>
      cvseq_toks s' ++ [("(", "(")] ++ opad_toks pl ++ nlist_toks inner ++ [(")", ")")] ++ opad_toks p
  | CVParen pl inner p => [("(", "(")] ++ opad_toks pl ++ nlist_toks inner ++ [(")", ")")] ++ opad_toks p
  end.
Fixpoint cvseq_ok (s : cvseq) : bool :=
  match s with
  | CVList l => nlist_ok l
  | CVRange s' _ _ => cvseq_ok s'
  | CVNum s' i _ => cvseq_ok s' && is_start i
  | CVGroup s' pl inner _ => cvseq_ok s' && nlist_ok inner
  | CVParen pl inner _ => nlist_ok inner
  end.

Inductive sepshape := SepPad (p : pad) | SepEq (pl pr : option pad).
Definition sep_toks (s : sepshape) : list token :=
  match s with
  | SepPad p => pad_toks p
  | SepEq pl pr => opad_toks pl ++ [("=", "=")] ++ opad_toks pr
  end.

(* the keywords of G_core's cparam and the particle designators that the cell lexer classifies PARTICLE *)
Definition core_cell_keys : list string :=
  ["imp"; "vol"; "u"; "lat"; "fill"; "trcl"; "tmp"; "pwt"; "nonu"; "cosy"; "bflcl"; "ext"; "fcl"; "elpt";
   "unc"; "wwn"; "dxc"; "pd"].
(* not "c": the lexers take a "c" that is followed by a blank or a line end for a comment line *)
Definition core_letter_particles : list string :=
  ["n"; "p"; "e"; "q"; "v"; "f"; "h"; "l"; "o"; "g"; "k"; "b"; "w"; "d"; "t"; "s"; "a"].
Definition core_special_particles : list string := ["|"; "<"; ">"; "%"; "*"; "?"; "+"].
(* directly after the ":" or "," of a classifier the lexers also read the designators that are keywords (u x y z)
   or look like a comment line (c) as particles *)
Definition core_classifier_particles : list string := core_letter_particles ++ ["u"; "x"; "y"; "z"; "c"].

Fixpoint parts_toks (first : bool) (ps : list token) : list token :=
  match ps with
  | [] => []
  | p :: r => (if first then (":", ":") else (",", ",")) :: p :: parts_toks false r
  end.

Record cparam := mkCParam {
  cp_star : bool; cp_key : string; cp_num : option Z; cp_parts : list string;
  cp_sep : sepshape; cp_val : cvseq }.
Definition cparam_toks (c : cparam) : list token :=
  (if cp_star c then [("*", "*")] else [])
  ++ [("KEYWORD", cp_key c)]
  ++ (match cp_num c with Some n => [("NUMBER", show_Z n)] | None => [] end)
  ++ parts_toks true (map (fun p => ("PARTICLE", p)) (cp_parts c))
  ++ sep_toks (cp_sep c) ++ cvseq_toks (cp_val c).
Definition nat_nonzero (n : option Z) : bool := match n with Some z => (0 <? z)%Z | None => true end.
Definition cparam_ok (c : cparam) : bool :=
  mem_str (cp_key c) core_cell_keys && nat_nonzero (cp_num c)
  && forallb (fun p => mem_str p core_classifier_particles) (cp_parts c) && cvseq_ok (cp_val c).

Inductive matspec :=
| MVoid (z : real) (p : pad)
| MMat (m : real) (p1 : pad) (d : real) (p2 : pad).
Definition mat_toks (m : matspec) : list token :=
  match m with
  | MVoid z p => num_tok z :: pad_toks p
  | MMat n p1 d p2 => num_tok n :: pad_toks p1 ++ num_tok d :: pad_toks p2
  end.
Definition mat_ok (m : matspec) : bool :=
  match m with MVoid z _ => real_zero z | MMat n _ _ _ => nonzero n end.

Record cell := mkCell {
  c_lead : option pad; c_num : real; c_pad : pad; c_mat : matspec; c_geom : expr; c_params : list cparam }.
Definition cell_toks (c : cell) : list token :=
  opad_toks (c_lead c) ++ num_tok (c_num c) :: pad_toks (c_pad c) ++ mat_toks (c_mat c)
  ++ expr_toks (c_geom c) ++ flat_map cparam_toks (c_params c).
Definition cell_shape_b (c : cell) : bool :=
  nonzero (c_num c) && mat_ok (c_mat c) && expr_ok (c_geom c) && forallb cparam_ok (c_params c).
Definition cell_shape (c : cell) : Prop := cell_shape_b c = true.

(* ---- surfaces *)
Inductive smod := SMNone | SMStar | SMPlus.
Definition core_mnemonics : list string :=
  ["p"; "px"; "py"; "pz"; "so"; "s"; "sx"; "sy"; "sz"; "c/x"; "c/y"; "c/z"; "cx"; "cy"; "cz";
   "k/x"; "k/y"; "k/z"; "kx"; "ky"; "kz"; "sq"; "gq"; "tx"; "ty"; "tz"; "x"; "y"; "z";
   "box"; "rpp"; "sph"; "rcc"; "rhp"; "hex"; "rec"; "trc"; "ell"; "wed"; "arb"].
Record surf := mkSurf {
  s_lead : option pad; s_mod : smod; s_num : real; s_p1 : pad; s_ptr : option (real * pad);
  s_mn : string; s_p2 : pad; s_data : nlist }.
Definition with_sign (s : sign) (r : real) : real := mkReal s (r_int r) (r_frac r) (r_exp r).
Definition surf_toks (s : surf) : list token :=
  opad_toks (s_lead s)
  ++ (match s_mod s with
      | SMNone => [num_tok (s_num s)]
      | SMStar => [("*", "*"); num_tok (s_num s)]
      | SMPlus => [num_tok (with_sign SPlus (s_num s))]      (* "+7" is one NUMBER token *)
      end)
  ++ pad_toks (s_p1 s)
  ++ (match s_ptr s with Some (r, p) => num_tok r :: pad_toks p | None => [] end)
  ++ [("SURFACE_TYPE", s_mn s)] ++ pad_toks (s_p2 s) ++ nlist_toks (s_data s).
Definition surf_shape_b (s : surf) : bool :=
  nonzero (s_num s) && (match s_ptr s with Some (r, _) => nonzero r | None => true end)
  && mem_str (s_mn s) core_mnemonics && nlist_ok (s_data s).
Definition surf_shape (s : surf) : Prop := surf_shape_b s = true.

(* ---- the class of a word in a data input or a cell: ParticleLexer.TEXT (tokens.py) — a word that is in
        _KEYWORDS is a KEYWORD, else one that is in _PARTICLES is a PARTICLE, else TEXT; SurfaceLexer.TEXT:
        a word that is in _SURFACE_TYPES is a SURFACE_TYPE.  The tables are the generated ones. *)
Definition word_class (w : string) : string :=
  if mem_str w Gen.Tables.keywords then "KEYWORD"
  else if mem_str w Gen.Tables.particles then "PARTICLE" else "TEXT".
Definition surface_word_class (w : string) : string :=
  if mem_str w Gen.Tables.surface_types then "SURFACE_TYPE"
  else if mem_str w Gen.Tables.keywords then "KEYWORD" else "TEXT".

(* ---- classifier of a data input: [modifier] name [number] [: particles] *)
Record dcls := mkDcls {
  d_mod : option string; d_prefix : string; d_num : option Z; d_parts : list (bool * string) }.
Definition dpart_tok (p : bool * string) : token :=
  ((if fst p then "PARTICLE_SPECIAL" else "PARTICLE"), snd p).
Definition dcls_toks (d : dcls) : list token :=
  (match d_mod d with Some m => [("PARTICLE_SPECIAL", m)] | None => [] end)
  ++ [(word_class (d_prefix d), d_prefix d)]
  ++ (match d_num d with Some n => [("NUMBER", show_Z n)] | None => [] end)
  ++ parts_toks true (map dpart_tok (d_parts d)).
(* a particle in a list (MODE n p, PAR=n) *)
Definition dpart_ok (p : bool * string) : bool :=
  if fst p then mem_str (snd p) core_special_particles else mem_str (snd p) core_letter_particles.
(* a particle of a classifier (IMP:n,u) *)
Definition cpart_ok (p : bool * string) : bool :=
  if fst p then mem_str (snd p) core_special_particles else mem_str (snd p) core_classifier_particles.
Definition dmod_ok (m : option string) : bool :=
  match m with None => true | Some s => String.eqb s "*" || String.eqb s "+" end.
Definition dcls_ok (d : dcls) : bool :=
  dmod_ok (d_mod d) && nat_nonzero (d_num d) && forallb cpart_ok (d_parts d).

(* ---- generic data cards: classifier [KEYWORD] [data] { key = numbers } *)
Definition core_dist_options : list string := ["h"; "l"; "a"; "s"; "d"; "v"].
Definition ptok := (bool * string * option pad)%type.     (* (special?, designator, padding) *)
Definition ptok_toks (p : ptok) : list token := dpart_tok (fst p) :: opad_toks (snd p).
Inductive ddata :=
| DNone
| DNums (l : nlist)                                   (* numbers with shortcuts *)
| DParts (p : ptok) (ps : list ptok)                  (* MODE n p e *)
| DOptNums (o : string) (p : pad) (l : nlist).        (* SI1 H 0 1 2: option letter, numbers *)
Definition ddata_toks (d : ddata) : list token :=
  match d with
  | DNone => []
  | DNums l => nlist_toks l
  | DParts p ps => ptok_toks p ++ flat_map ptok_toks ps
  | DOptNums o p l => ("PARTICLE", o) :: pad_toks p ++ nlist_toks l
  end.
Definition ddata_ok (d : ddata) : bool :=
  match d with
  | DNone => true
  | DNums l => nlist_ok l
  | DParts p ps => forallb (fun q => dpart_ok (fst q)) (p :: ps)
  | DOptNums o _ l => mem_str o core_dist_options && nlist_ok l
  end.
Inductive dpval := DPNums (l : nlist) | DPWord (w : string) (p : option pad).   (* seed=5 | geom=xyz *)
Record dparam := mkDParam { dp_key : string; dp_sep : sepshape; dp_val : dpval }.
Definition dpval_toks (v : dpval) : list token :=
  match v with DPNums l => nlist_toks l | DPWord w p => ("TEXT", w) :: opad_toks p end.
Definition dparam_toks (p : dparam) : list token :=
  (word_class (dp_key p), dp_key p) :: sep_toks (dp_sep p) ++ dpval_toks (dp_val p).
Definition dparam_ok (p : dparam) : bool :=
  match dp_val p with DPNums l => nlist_ok l | DPWord _ _ => true end.

Record datacard := mkData {
  dc_lead : option pad; dc_cls : dcls; dc_pad : option pad; dc_kw : option (string * pad);
  dc_data : ddata; dc_params : list dparam }.
Definition data_toks (d : datacard) : list token :=
  opad_toks (dc_lead d) ++ dcls_toks (dc_cls d) ++ opad_toks (dc_pad d)
  ++ (match dc_kw d with Some (k, p) => ("KEYWORD", k) :: pad_toks p | None => [] end)
  ++ ddata_toks (dc_data d) ++ flat_map dparam_toks (dc_params d).
Definition data_shape_b (d : datacard) : bool :=
  dcls_ok (dc_cls d) && ddata_ok (dc_data d) && forallb dparam_ok (dc_params d).
Definition data_shape (d : datacard) : Prop := data_shape_b d = true.

(* ---- tally cards F, FM (TallyParser) and FS (TallySegmentParser): bins, groups of bins in parentheses, T *)
Inductive titem :=
| TINums (l : nlist)
| TIGroup (pl : option pad) (l : nlist) (pr : option pad).      (* "(" [pad] numbers ")" [pad] *)
Definition titem_toks (t : titem) : list token :=
  match t with
  | TINums l => nlist_toks l
  | TIGroup pl l pr => [("(", "(")] ++ opad_toks pl ++ nlist_toks l ++ [(")", ")")] ++ opad_toks pr
  end.
Definition titem_ok (t : titem) : bool := match t with TINums l | TIGroup _ l _ => nlist_ok l end.
Definition titem_flat (t : titem) : bool := match t with TINums _ => true | TIGroup _ _ _ => false end.
Record tallycard := mkTally {
  tc_lead : option pad; tc_cls : dcls; tc_pad : option pad; tc_first : titem; tc_rest : list titem;
  tc_end : option (string * option pad) }.
Definition tend_toks (e : option (string * option pad)) : list token :=
  match e with Some (t, p) => ("PARTICLE", t) :: opad_toks p | None => [] end.
Definition tally_toks (t : tallycard) : list token :=
  opad_toks (tc_lead t) ++ dcls_toks (tc_cls t) ++ opad_toks (tc_pad t)
  ++ titem_toks (tc_first t) ++ flat_map titem_toks (tc_rest t) ++ tend_toks (tc_end t).
Definition tally_shape_b (t : tallycard) : bool :=
  dcls_ok (tc_cls t) && forallb titem_ok (tc_first t :: tc_rest t).
Definition tally_shape (t : tallycard) : Prop := tally_shape_b t = true.
(* FS: no groups *)
Definition tallyseg_shape_b (t : tallycard) : bool :=
  tally_shape_b t && forallb titem_flat (tc_first t :: tc_rest t).
Definition tallyseg_shape (t : tallycard) : Prop := tallyseg_shape_b t = true.

(* ---- SDEF (ParamOnlyDataParser): keyword = numbers | particle | distribution Dn *)
Definition core_sdef_keys : list string :=
  ["cel"; "sur"; "erg"; "tme"; "dir"; "vec"; "nrm"; "pos"; "rad"; "ext"; "axs"; "x"; "y"; "z"; "ccc"; "ara";
   "wgt"; "tr"; "eff"; "par"; "dat"; "loc"; "bem"; "bap"].
Inductive sval :=
| SVNums (l : nlist)
| SVPart (p : ptok)                                         (* par=n *)
| SVDist (n : real) (p : option pad).                       (* erg=d1: PARTICLE "d", number *)
Definition sval_toks (v : sval) : list token :=
  match v with
  | SVNums l => nlist_toks l
  | SVPart p => ptok_toks p
  | SVDist n p => ("PARTICLE", "d") :: num_tok n :: opad_toks p
  end.
Definition sval_ok (v : sval) : bool :=
  match v with SVNums l => nlist_ok l | SVPart p => dpart_ok (fst p) | SVDist _ _ => true end.
Record sparam := mkSParam { sp_key : string; sp_sep : sepshape; sp_val : sval }.
Definition sparam_toks (s : sparam) : list token :=
  ("KEYWORD", sp_key s) :: sep_toks (sp_sep s) ++ sval_toks (sp_val s).
Definition sparam_ok (s : sparam) : bool := mem_str (sp_key s) core_sdef_keys && sval_ok (sp_val s).
Record sdefcard := mkSdef {
  sd_lead : option pad; sd_cls : dcls; sd_pad : pad; sd_first : sparam; sd_rest : list sparam }.
Definition sdef_toks (s : sdefcard) : list token :=
  opad_toks (sd_lead s) ++ dcls_toks (sd_cls s) ++ pad_toks (sd_pad s)
  ++ sparam_toks (sd_first s) ++ flat_map sparam_toks (sd_rest s).
Definition sdef_shape_b (s : sdefcard) : bool :=
  dcls_ok (sd_cls s) && forallb sparam_ok (sd_first s :: sd_rest s).
Definition sdef_shape (s : sdefcard) : Prop := sdef_shape_b s = true.
(* a bare SDEF (every parameter has a default): [padding] classifier [padding] *)
Record sdef0card := mkSdef0 { s0_lead : option pad; s0_cls : dcls; s0_pad : option pad }.
Definition sdef0_toks (s : sdef0card) : list token :=
  opad_toks (s0_lead s) ++ dcls_toks (s0_cls s) ++ opad_toks (s0_pad s).

(* ---- FCn / SCn comment cards: the lexer makes the whole line one TALLY_COMMENT / SOURCE_COMMENT token *)
Record textcard := mkText { x_lead : option pad; x_source : bool; x_text : string }.
Definition text_toks (x : textcard) : list token :=
  opad_toks (x_lead x) ++ [((if x_source x then "SOURCE_COMMENT" else "TALLY_COMMENT"), x_text x)].

(* ---- material cards: ZAID/fraction pairs, the ZAID with or without a library; keyword parameters with a
        number list or a library *)
Inductive mparam :=
| MPNum (key : string) (sep : sepshape) (v : nlist)
| MPLib (key : string) (sep : sepshape) (lib : string) (p : option pad).
(* a library identifier (digits and the letter of the data class) is a NUMBER_WORD — except the multigroup class
   "m": 50m is spelled like a multiply shortcut and the lexer makes it NUM_MULTIPLY (which text_phrase also takes) *)
Fixpoint last_char (s : string) : option ascii :=
  match s with
  | EmptyString => None
  | String a EmptyString => Some a
  | String _ r => last_char r
  end.
Definition last_is (s : string) (c : ascii) : bool :=
  match last_char s with Some a => Ascii.eqb a c | None => false end.
Definition lib_class (lib : string) : string := if last_is lib "m"%char then "NUM_MULTIPLY" else "NUMBER_WORD".
(* identifiers that would be spelled like a repeat / interpolate / jump shortcut are not library identifiers *)
Definition lib_ok (lib : string) : bool :=
  negb (last_is lib "r"%char || last_is lib "i"%char || last_is lib "j"%char).
Definition mparam_toks (m : mparam) : list token :=
  match m with
  | MPNum k s v => ("KEYWORD", k) :: sep_toks s ++ nlist_toks v
  | MPLib k s lib p => ("KEYWORD", k) :: sep_toks s ++ (lib_class lib, lib) :: opad_toks p
  end.
Definition core_mat_keys : list string :=
  ["gas"; "estep"; "hstep"; "nlib"; "plib"; "pnlib"; "elib"; "hlib"; "alib"; "slib"; "tlib"; "dlib";
   "cond"; "refi"; "refc"; "refs"].
Definition mparam_key (m : mparam) : string := match m with MPNum k _ _ | MPLib k _ _ _ => k end.
Definition mparam_ok (m : mparam) : bool :=
  mem_str (mparam_key m) core_mat_keys
  && match m with MPNum _ _ v => nlist_ok v | MPLib _ _ lib _ => lib_ok lib end.

(* [z_lib = true]: "1001.80c" (one ZAID token); [false]: "1001" (a NUMBER token) *)
Record zfrac := mkZ { z_lib : bool; z_zaid : string; z_pad : option pad; z_frac : real; z_trail : option pad }.
Definition zfrac_toks (z : zfrac) : list token :=
  ((if z_lib z then "ZAID" else "NUMBER"), z_zaid z) :: opad_toks (z_pad z)
  ++ num_tok (z_frac z) :: opad_toks (z_trail z).
Record matcard := mkMat {
  m_lead : option pad; m_num : Z; m_pad : option pad; m_first : zfrac; m_rest : list zfrac;
  m_params : list mparam }.
Definition mat_card_toks (m : matcard) : list token :=
  opad_toks (m_lead m) ++ [("TEXT", "m"); ("NUMBER", show_Z (m_num m))] ++ opad_toks (m_pad m)
  ++ zfrac_toks (m_first m) ++ flat_map zfrac_toks (m_rest m) ++ flat_map mparam_toks (m_params m).
Definition matcard_shape_b (m : matcard) : bool :=
  (0 <? m_num m)%Z && forallb (fun z => nonzero (z_frac z)) (m_first m :: m_rest m)
  && forallb mparam_ok (m_params m).
Definition matcard_shape (m : matcard) : Prop := matcard_shape_b m = true.

(* ---- thermal scattering cards *)
Record mtcard := mkMT {
  t_lead : option pad; t_num : Z; t_pad : option pad; t_first : string * option pad;
  t_rest : list (string * option pad) }.
Definition law_toks (l : string * option pad) : list token := ("THERMAL_LAW", fst l) :: opad_toks (snd l).
Definition mt_card_toks (m : mtcard) : list token :=
  opad_toks (t_lead m) ++ [("TEXT", "mt"); ("NUMBER", show_Z (t_num m))] ++ opad_toks (t_pad m)
  ++ law_toks (t_first m) ++ flat_map law_toks (t_rest m).
Definition mtcard_shape (m : mtcard) : Prop := (0 <? t_num m)%Z = true.

(* ---- a shape is one card *)
Inductive shape :=
| ShCell (c : cell) | ShSurf (s : surf) | ShData (d : datacard) | ShMat (m : matcard) | ShMT (m : mtcard)
| ShTally (t : tallycard) | ShTallySeg (t : tallycard) | ShSdef (s : sdefcard) | ShText (x : textcard)
| ShSdef0 (s : sdef0card).
Definition gen (sh : shape) : list token :=
  match sh with
  | ShCell c => cell_toks c | ShSurf s => surf_toks s | ShData d => data_toks d
  | ShMat m => mat_card_toks m | ShMT m => mt_card_toks m
  | ShTally t => tally_toks t | ShTallySeg t => tally_toks t | ShSdef s => sdef_toks s
  | ShText x => text_toks x
  | ShSdef0 s => sdef0_toks s
  end.
Definition shape_ok_b (sh : shape) : bool :=
  match sh with
  | ShCell c => cell_shape_b c | ShSurf s => surf_shape_b s | ShData d => data_shape_b d
  | ShMat m => matcard_shape_b m | ShMT m => (0 <? t_num m)%Z
  | ShTally t => tally_shape_b t | ShTallySeg t => tallyseg_shape_b t | ShSdef s => sdef_shape_b s
  | ShText _ => true
  | ShSdef0 s => dcls_ok (s0_cls s)
  end.
(* the token classes of the classifier of a data input: what _ClassifierInput hands to ClassifierParser *)
Definition classifier_toks (sh : shape) : list token :=
  match sh with
  | ShData d => opad_toks (dc_lead d) ++ dcls_toks (dc_cls d)
  | ShTally t | ShTallySeg t => opad_toks (tc_lead t) ++ dcls_toks (tc_cls t)
  | ShSdef s => opad_toks (sd_lead s) ++ dcls_toks (sd_cls s)
  | ShSdef0 s => opad_toks (s0_lead s) ++ dcls_toks (s0_cls s)
  | ShMat m => opad_toks (m_lead m) ++ [("TEXT", "m"); ("NUMBER", show_Z (m_num m))]
  | ShMT m => opad_toks (t_lead m) ++ [("TEXT", "mt"); ("NUMBER", show_Z (t_num m))]
  | ShText x => text_toks x
  | _ => []
  end.

(* ---- dispatch of cell parameters to modifier classes (Cell._parse_keyword_modifiers) *)
Fixpoint is_prefix_of (p s : string) : bool :=
  match p, s with
  | EmptyString, _ => true
  | String a p', String b s' => Ascii.eqb a b && is_prefix_of p' s'
  | _, _ => false
  end.
Fixpoint is_substring (p s : string) : bool :=
  is_prefix_of p s || (match s with EmptyString => false | String _ s' => is_substring p s' end).
(* [dispatch by_substring prefixes key]: the modifier-class prefixes that claim the parameter key *)
Definition dispatch (by_substring : bool) (prefixes : list string) (key : string) : list string :=
  filter (fun pfx => if by_substring then is_substring pfx key else String.eqb pfx key) prefixes.
(* the class G_core expects: the parameter's own keyword when it is one of the modifier prefixes *)
Definition expected_dispatch (prefixes : list string) (key : string) : list string :=
  filter (fun pfx => String.eqb pfx key) prefixes.

(* ---- spellings of numbers that the lexers do not classify as NUMBER (the shape predicates and the derivability
        theorems are about token classes and do not depend on this; it is the precondition of the per-sentence
        comparison with the real lexer):
        - an unsigned number that begins like a ZAID with a library, dddd.dde (4 to 6 digits, two decimals, e/E):
          the ZAID rule comes before the NUMBER rule;
        - a Fortran exponent directly after the decimal point (5.+3): fortran_float raises ValueError.
        The translator records in Gen/Tables.v whether the source under test still has either quirk. *)
Definition is_digit (a : ascii) : bool := let n := nat_of_ascii a in Nat.leb 48 n && Nat.leb n 57.
Fixpoint skip_digits (s : string) : nat * string :=
  match s with
  | String a r => if is_digit a then let (n, rest) := skip_digits r in (S n, rest) else (O, s)
  | EmptyString => (O, s)
  end.
Definition zaid_like_text (s : string) : bool :=
  let (n, rest) := skip_digits s in
  Nat.leb 4 n && Nat.leb n 6 &&
  match rest with
  | String "."%char r =>
      let (m, rest2) := skip_digits r in
      Nat.eqb m 2 && match rest2 with String c _ => Ascii.eqb c "e"%char || Ascii.eqb c "E"%char | _ => false end
  | _ => false
  end.
Fixpoint dot_sign (after_dot : bool) (s : string) : bool :=
  match s with
  | EmptyString => false
  | String a r =>
      (after_dot && (Ascii.eqb a "+"%char || Ascii.eqb a "-"%char)) || dot_sign (Ascii.eqb a "."%char) r
  end.
Definition number_text_safe (s : string) : bool :=
  (Gen.Tables.zaid_rule_stops_before_exponent || negb (zaid_like_text s))
  && (Gen.Tables.fortran_exponent_after_point || negb (dot_sign false s)).
Definition lex_safe (ts : list token) : bool :=
  forallb (fun t => if String.eqb (fst t) "NUMBER" || String.eqb (fst t) "NULL" then number_text_safe (snd t) else true) ts.

(* ------------------------------------------------------------------ 3. the LR driver
   sly.yacc.Parser.parse: the state stack starts as [0]; in a defaulted state (one whose only action is a
   reduction) the reduction is taken without looking at the next token; otherwise the action of
   (state, class of the next token or "$end") is looked up: a > 0 shifts to state a, a < 0 reduces by
   production -a (pop its length, push goto[state below][lhs]), a = 0 accepts, no entry is a syntax error.
   MCNP_Parser.error only records the error and MCNP_Parser.parse returns None whenever an error was
   recorded, so the first missing entry is a rejection; SLY's error recovery is not modelled.
   The driver keeps the grammar symbol beside each state and checks, at a reduction, that the popped symbols
   are the right-hand side, and at acceptance that exactly the start symbol is left: in a table SLY built
   this always holds (the checks never fire; LRTable is never returned) and it makes
   "accepted => derivable in the production table" provable (Proofs: lr_sound). *)
Record lr_table := mkLR {
  lr_prods : list production; lr_start : string;
  lr_terms : list string; lr_nonterms : list string;
  lr_action : list (list (Z * Z)); lr_goto : list (list (Z * Z)); lr_dflt : list (Z * Z) }.

Fixpoint index_of (s : string) (l : list string) (i : Z) : option Z :=
  match l with
  | [] => None
  | x :: r => if String.eqb s x then Some i else index_of s r (i + 1)%Z
  end.
Fixpoint assocZ (k : Z) (l : list (Z * Z)) : option Z :=
  match l with
  | [] => None
  | (a, b) :: r => if Z.eqb a k then Some b else assocZ k r
  end.
(* pop the symbols [rev_rhs] (last symbol of the right-hand side first) off the stack *)
Fixpoint pop_check (rev_rhs : list string) (stack : list (Z * string)) : option (list (Z * string)) :=
  match rev_rhs with
  | [] => Some stack
  | x :: r => match stack with
              | (_, y) :: below => if String.eqb x y then pop_check r below else None
              | [] => None
              end
  end.

Inductive lr_result :=
| LRAccept
| LRReject (pos : nat) (state : Z) (tok : string)
| LRFuel
| LRTable (why : string).

Definition lr_lookup (T : lr_table) (st : Z) (la : string) : option Z :=
  match assocZ st (lr_dflt T) with
  | Some a => Some a
  | None => match index_of la (lr_terms T) 0%Z with
            | Some ti => assocZ ti (nth (Z.to_nat st) (lr_action T) [])
            | None => None
            end
  end.

Definition top_state (stack : list (Z * string)) : Z :=
  match stack with [] => 0%Z | (s, _) :: _ => s end.

(* [stack]: the entries pushed above SLY's bottom entry (state 0, "$end"), top first *)
Fixpoint lr_loop (T : lr_table) (fuel : nat) (stack : list (Z * string)) (input : list string) (pos : nat)
  : lr_result :=
  match fuel with
  | O => LRFuel
  | S f =>
    let st := top_state stack in
    let la := match input with [] => "$end" | t :: _ => t end in
    match lr_lookup T st la with
    | None => LRReject pos st la
    | Some a =>
      if (0 <? a)%Z then
        match input with
        | [] => LRTable "shift of $end"
        | t :: rest => if is_token t then lr_loop T f ((a, t) :: stack) rest (S pos)
                       else LRReject pos st la
        end
      else if (a <? 0)%Z then
        match nth_error (lr_prods T) (Z.to_nat (- a) - 1) with
        | None => LRTable "no such production"
        | Some (lhs, rhs) =>
          match pop_check (rev rhs) stack with
          | None => LRTable "the stack does not hold the right-hand side"
          | Some below =>
            match index_of lhs (lr_nonterms T) 0%Z with
            | None => LRTable "unknown nonterminal"
            | Some ni =>
              match assocZ ni (nth (Z.to_nat (top_state below)) (lr_goto T) []) with
              | None => LRTable "no goto"
              | Some g => lr_loop T f ((g, lhs) :: below) input pos
              end
            end
          end
        end
      else
        match stack, input with
        | [(_, s)], [] => if String.eqb s (lr_start T) then LRAccept else LRTable "accept with a wrong stack"
        | _, _ => LRTable "accept with a wrong stack"
        end
    end
  end.

Definition lr_fuel (ts : list string) : nat := 64 * (List.length ts + 4).
Definition lr_run (T : lr_table) (ts : list string) : lr_result := lr_loop T (lr_fuel ts) [] ts 0.

Definition lr_cell := mkLR Gen.Grammar.cell_productions Gen.Grammar.cell_start
  Gen.LRTables.cell_lr_terminals Gen.LRTables.cell_lr_nonterminals
  Gen.LRTables.cell_lr_action Gen.LRTables.cell_lr_goto Gen.LRTables.cell_lr_defaulted.
Definition lr_surface := mkLR Gen.Grammar.surface_productions Gen.Grammar.surface_start
  Gen.LRTables.surface_lr_terminals Gen.LRTables.surface_lr_nonterminals
  Gen.LRTables.surface_lr_action Gen.LRTables.surface_lr_goto Gen.LRTables.surface_lr_defaulted.
Definition lr_data := mkLR Gen.Grammar.data_productions Gen.Grammar.data_start
  Gen.LRTables.data_lr_terminals Gen.LRTables.data_lr_nonterminals
  Gen.LRTables.data_lr_action Gen.LRTables.data_lr_goto Gen.LRTables.data_lr_defaulted.
Definition lr_classifier := mkLR Gen.Grammar.classifier_productions Gen.Grammar.classifier_start
  Gen.LRTables.classifier_lr_terminals Gen.LRTables.classifier_lr_nonterminals
  Gen.LRTables.classifier_lr_action Gen.LRTables.classifier_lr_goto Gen.LRTables.classifier_lr_defaulted.
Definition lr_param_only := mkLR Gen.Grammar.param_only_productions Gen.Grammar.param_only_start
  Gen.LRTables.param_only_lr_terminals Gen.LRTables.param_only_lr_nonterminals
  Gen.LRTables.param_only_lr_action Gen.LRTables.param_only_lr_goto Gen.LRTables.param_only_lr_defaulted.
Definition lr_material := mkLR Gen.Grammar.material_productions Gen.Grammar.material_start
  Gen.LRTables.material_lr_terminals Gen.LRTables.material_lr_nonterminals
  Gen.LRTables.material_lr_action Gen.LRTables.material_lr_goto Gen.LRTables.material_lr_defaulted.
Definition lr_thermal := mkLR Gen.Grammar.thermal_productions Gen.Grammar.thermal_start
  Gen.LRTables.thermal_lr_terminals Gen.LRTables.thermal_lr_nonterminals
  Gen.LRTables.thermal_lr_action Gen.LRTables.thermal_lr_goto Gen.LRTables.thermal_lr_defaulted.
Definition lr_tally := mkLR Gen.Grammar.tally_productions Gen.Grammar.tally_start
  Gen.LRTables.tally_lr_terminals Gen.LRTables.tally_lr_nonterminals
  Gen.LRTables.tally_lr_action Gen.LRTables.tally_lr_goto Gen.LRTables.tally_lr_defaulted.
Definition lr_tally_seg := mkLR Gen.Grammar.tally_seg_productions Gen.Grammar.tally_seg_start
  Gen.LRTables.tally_seg_lr_terminals Gen.LRTables.tally_seg_lr_nonterminals
  Gen.LRTables.tally_seg_lr_action Gen.LRTables.tally_seg_lr_goto Gen.LRTables.tally_seg_lr_defaulted.

Definition lr_by_name (n : string) : option lr_table :=
  if String.eqb n "cell" then Some lr_cell else if String.eqb n "surface" then Some lr_surface
  else if String.eqb n "data" then Some lr_data else if String.eqb n "classifier" then Some lr_classifier
  else if String.eqb n "param_only" then Some lr_param_only else if String.eqb n "material" then Some lr_material
  else if String.eqb n "thermal" then Some lr_thermal else if String.eqb n "tally" then Some lr_tally
  else if String.eqb n "tally_seg" then Some lr_tally_seg else None.
(* the parser MontePy uses for a card of this shape (Cell._parser, Surface._parser, the _parser of the data
   classes, DataInput._load_correct_parser) *)
Definition parser_of (sh : shape) : string :=
  match sh with
  | ShCell _ => "cell" | ShSurf _ => "surface" | ShData _ => "data" | ShMat _ => "material"
  | ShMT _ => "thermal" | ShTally _ => "tally" | ShTallySeg _ => "tally_seg" | ShSdef _ => "param_only"
  | ShText _ => "data"
  | ShSdef0 _ => "param_only"
  end.

(* ------------------------------------------------------------------ 3b. the lexers
   The token rules are the generated regular-expression trees of Gen/Lexer.v (Python's own parse of the sources with
   the lexers' flags).  [re_match] is a backtracking matcher with Python's semantics for the constructs that occur:
   alternatives left to right, greedy repetition, negative look-ahead, IGNORECASE.  [lex] is sly.lex.Lexer.tokenize:
   at every position the rules are tried in order and the first that matches wins (not the longest); a character no
   rule matches is a literal token if it is in [literals], else a LexError.  The actions of tokens.py are written
   out by hand in [lex_action] (keyword / particle / surface-type tables are the generated ones). *)
Import Gen.Lexer.
Definition code (a : ascii) : N := N_of_ascii a.
Definition lower_code (n : N) : N := if (65 <=? n)%N && (n <=? 90)%N then (n + 32)%N else n.
Definition upper_code (n : N) : N := if (97 <=? n)%N && (n <=? 122)%N then (n - 32)%N else n.
Definition is_space_code (n : N) : bool := ((9 <=? n)%N && (n <=? 13)%N) || (n =? 32)%N.
Definition is_digit_code (n : N) : bool := (48 <=? n)%N && (n <=? 57)%N.
Definition item_has (it : set_item) (n : N) : bool :=
  match it with
  | SChar c => (lower_code c =? lower_code n)%N
  | SRange lo hi => ((lo <=? lower_code n)%N && (lower_code n <=? hi)%N)
                    || ((lo <=? upper_code n)%N && (upper_code n <=? hi)%N)
  | SDigit => is_digit_code n | SSpace => is_space_code n
  | SNotDigit => negb (is_digit_code n) | SNotSpace => negb (is_space_code n)
  end.

(* The text is a list of character codes, carried together with its length [n] (binary), so that "did the
   repetition make progress" is a comparison of two numbers.
   [re_match fuel r s n k]: match r at the front of s, then continue with k on the rest; None = no match *)
Definition cstr := (list N * N)%type.
Fixpoint re_match (fuel : nat) (r : re) (s : list N) (n : N) (k : list N -> N -> option cstr) : option cstr :=
  match fuel with
  | O => None
  | S f =>
    match r with
    | REps => k s n
    | RLit c => match s with a :: t => if (lower_code c =? lower_code a)%N then k t (N.pred n) else None | [] => None end
    | RSet neg items =>
        match s with
        | a :: t => if Bool.eqb (existsb (fun it => item_has it a) items) (negb neg) then k t (N.pred n) else None
        | [] => None
        end
    | RAny => match s with a :: t => if (a =? 10)%N then None else k t (N.pred n) | [] => None end
    | RSeq a b => re_match f a s n (fun s' n' => re_match f b s' n' k)
    | RAlt a b => match re_match f a s n k with Some x => Some x | None => re_match f b s n k end
    | RRep mn mx body =>
        let more :=
          match mx with
          | Some 0%N => None
          | _ => re_match f body s n (fun s' n' =>
                   if (n' <? n)%N
                   then re_match f (RRep (N.pred mn) (option_map N.pred mx) body) s' n' k else None)
          end in
        match more with
        | Some x => Some x
        | None => if (mn =? 0)%N then k s n else None
        end
    | RNotAhead a => match re_match f a s n (fun s' n' => Some (s', n')) with Some _ => None | None => k s n end
    | RBegin => k s n
    | REnd => match s with [] => k s n | _ => None end
    end
  end.

Definition re_prefix (fuel : nat) (r : re) (s : list N) (n : N) : option cstr :=
  re_match fuel r s n (fun s' n' => Some (s', n')).
Definition re_full (fuel : nat) (r : re) (s : list N) (n : N) : bool :=
  match re_match fuel r s n (fun s' n' => match s' with [] => Some (s', n') | _ => None end) with
  | Some _ => true | None => false end.

(* the first rule, in rule order, that matches a non-empty prefix *)
Fixpoint first_rule (fuel : nat) (rules : list (string * re)) (s : list N) (n : N) : option (string * cstr) :=
  match rules with
  | [] => None
  | (name, r) :: rest =>
      match re_prefix fuel r s n with
      | Some (s', n') => if (n' <? n)%N then Some (name, (s', n')) else first_rule fuel rest s n
      | None => first_rule fuel rest s n
      end
  end.

Fixpoint take_codes (k : N) (fuel : nat) (s : list N) : list N :=
  match fuel with
  | O => []
  | S f => if (k =? 0)%N then [] else match s with a :: t => a :: take_codes (N.pred k) f t | [] => [] end
  end.
Definition string_of_codes (l : list N) : string := string_of_list_ascii (map ascii_of_N l).
Definition codes_of_string (s : string) : list N := map code (list_ascii_of_string s).
Definition lower_string (s : string) : string := string_of_codes (map lower_code (codes_of_string s)).

Inductive lexer_kind := LCell | LData | LSurface.
Definition rules_of (L : lexer_kind) : list (string * re) :=
  match L with LCell => CellLexer_token_rules | LData => DataLexer_token_rules | LSurface => SurfaceLexer_token_rules end.
Definition literals_of (L : lexer_kind) : list string :=
  match L with LCell => CellLexer_token_literals | LData => DataLexer_token_literals
             | LSurface => SurfaceLexer_token_literals end.

(* MCNP_Lexer._parse_shortcut: the first of _EXPRESSIONS that matches the whole value *)
Fixpoint shortcut_type (fuel : nat) (es : list (string * re)) (v : list N) (n : N) : option string :=
  match es with
  | [] => None
  | (name, r) :: rest => if re_full fuel r v n then Some name else shortcut_type fuel rest v n
  end.

(* is the number zero?  (fortran_float(value) == 0: no digit 1-9 in the mantissa) *)
Fixpoint mantissa_zero (first : bool) (s : list N) : bool :=
  match s with
  | [] => true
  | n :: t =>
      if (lower_code n =? 101)%N then true
      else if negb first && ((n =? 43)%N || (n =? 45)%N) then true
      else if (49 <=? n)%N && (n <=? 57)%N then false
      else mantissa_zero false t
  end.

Inductive lex_result := LexOk (ts : list token) | LexError (pos : N) (why : string).

(* the action of one token: (type, how many characters of the match are kept) or an error.
   [prev]: the character before the token (None at the start), [col]: MCNP_Lexer.find_column *)
Definition after_colon (prev : option N) : bool :=
  match prev with Some a => (a =? 58)%N || (a =? 44)%N | None => false end.
Definition lex_action (fuel : nat) (L : lexer_kind) (name : string) (v : list N) (n : N) (prev : option N) (col : N)
  : (string * N) + string :=
  let word := string_of_codes (map lower_code v) in
  if String.eqb name "COMMENT" then
    if after_colon prev then inl ("PARTICLE", 1%N)
    else if (5 <? col)%N then inl ("TEXT", n) else inl ("COMMENT", n)
  else if String.eqb name "SOURCE_COMMENT" || String.eqb name "TALLY_COMMENT" then
    if (col <=? 5)%N then inl (name, n) else inr "ValueError: Comment not allowed here"
  else if String.eqb name "NUMBER_WORD" then
    match shortcut_type fuel shortcut_expressions v n with
    | Some t => inl ("NUM_" ++ t, n)
    | None => inl ("NUMBER_WORD", n)
    end
  else if String.eqb name "NUMBER" then
    inl ((if mantissa_zero true v then "NULL" else "NUMBER"), n)
  else if String.eqb name "TEXT" then
    let base := match shortcut_type fuel shortcut_expressions v n with
                | Some t => t
                | None => if mem_str word Gen.Tables.keywords then "KEYWORD" else "TEXT"
                end in
    match L with
    | LSurface => inl ((if mem_str word Gen.Tables.surface_types then "SURFACE_TYPE" else base), n)
    | _ =>
        if mem_str word Gen.Tables.keywords && negb (after_colon prev && mem_str word Gen.Tables.particles)
        then inl ("KEYWORD", n)
        else if mem_str word Gen.Tables.particles then inl ("PARTICLE", n)
        else inl (base, n)
    end
  else inl (name, n).

(* after the characters [v]: are we still on the first line, and how far into the line *)
Fixpoint advance (v : list N) (first_line : bool) (off : N) : bool * N :=
  match v with
  | [] => (first_line, off)
  | a :: t => if (a =? 10)%N then advance t false 0%N else advance t first_line (N.succ off)
  end.

(* [lex_loop]: text still to lex with its length, position, previous character, (first line?, offset in the line) *)
Fixpoint lex_loop (L : lexer_kind) (mfuel : nat) (fuel : nat) (s : list N) (n : N) (pos : N) (prev : option N)
                  (first_line : bool) (off : N) (acc : list token) : lex_result :=
  match fuel with
  | O => LexError pos "fuel"
  | S f =>
    match s with
    | [] => LexOk (rev acc)
    | a0 :: _ =>
      let col := if first_line then off else N.succ off in
      let emit (ty : string) (keep : N) :=
        let v := take_codes keep mfuel s in
        let rest := skipn (N.to_nat keep) s in
        let (fl, off') := advance v first_line off in
        lex_loop L mfuel f rest (n - keep)%N (pos + keep)%N (Some (List.last v a0)) fl off'
                 ((ty, string_of_codes v) :: acc) in
      match first_rule mfuel (rules_of L) s n with
      | Some (name, (_, n')) =>
          let len := (n - n')%N in
          match lex_action mfuel L name (take_codes len mfuel s) len prev col with
          | inl (ty, keep) => emit ty keep
          | inr why => LexError pos why
          end
      | None =>
          let lit := string_of_codes [a0] in
          if mem_str lit (literals_of L) then emit lit 1%N else LexError pos "LexError: Illegal character"
      end
    end
  end.

Definition lex_text (L : lexer_kind) (text : string) : lex_result :=
  let s := codes_of_string text in
  let len := List.length s in
  lex_loop L (40 * len + 400) (S len) s (N.of_nat len) 0%N None true 0%N [].

(* Input.tokenize: the text is the lines joined by line breaks plus a final line break; the line breaks that end
   the last token are cut off and an empty last token is dropped *)
Definition strip_trailing_nl (s : string) : string :=
  string_of_codes (rev ((fix go (l : list N) : list N :=
     match l with a :: t => if (a =? 10)%N then go t else l | [] => [] end)
     (rev (codes_of_string s)))).
Definition tokenize (L : lexer_kind) (text : string) : lex_result :=
  match lex_text L (text ++ nl) with
  | LexOk ts =>
      match rev ts with
      | (ty, v) :: before =>
          let v' := strip_trailing_nl v in
          LexOk (rev (match v' with EmptyString => before | _ => (ty, v') :: before end))
      | [] => LexOk []
      end
  | e => e
  end.
(* _ClassifierInput.tokenize: up to (not including) the first SPACE after the first token that is neither a
   comment nor a space *)
Fixpoint classifier_cut (in_lead : bool) (ts : list token) : list token :=
  match ts with
  | [] => []
  | t :: r =>
      if in_lead then
        t :: classifier_cut (String.eqb (fst t) "COMMENT" || String.eqb (fst t) "SPACE") r
      else if String.eqb (fst t) "SPACE" then [] else t :: classifier_cut false r
  end.

(* text -> tokens -> verdict of the automaton: the whole syntactic front end of Cell(Input) / surface_builder(Input) /
   parse_data(Input) inside the model (the semantic actions and constructors are not) *)
Inductive verdict := VAccept | VReject (pos : nat) (class : string) | VLexError (why : string) | VOther.
Definition verdict_of_text (L : lexer_kind) (T : lr_table) (text : string) : verdict :=
  match tokenize L text with
  | LexOk ts => match lr_run T (classes ts) with
                | LRAccept => VAccept
                | LRReject pos _ c => VReject pos c
                | _ => VOther
                end
  | LexError _ why => VLexError why
  end.

(* ------------------------------------------------------------------ 4. wire entry *)
Inductive val :=
| VR (r : real) | VP (p : pad) | VOP (p : option pad) | VF (f : fact) | VT (t : term) | VE (e : expr)
| VI (i : nitem) | VL (l : nlist) | VC (c : cvseq) | VSep (s : sepshape)
| VCP (c : cparam) | VCPS (l : list cparam) | VM (m : matspec) | VPtr (p : option (real * pad))
| VKw (k : option (string * pad)) | VZ (z : zfrac) | VZS (l : list zfrac) | VMP (m : mparam)
| VMPS (l : list mparam) | VLaw (l : string * option pad) | VLaws (l : list (string * option pad))
| VPT (p : ptok) | VPTS (l : list ptok) | VDD (d : ddata) | VDP (p : dparam) | VDPS (l : list dparam)
| VTI (t : titem) | VTIS (l : list titem) | VSV (v : sval) | VSP (s : sparam) | VSPS (l : list sparam)
| VShape (s : shape).

Definition parse_sign (s : string) : option sign :=
  if String.eqb s "n" then Some SNone else if String.eqb s "p" then Some SPlus
  else if String.eqb s "m" then Some SMinus else None.
Fixpoint parse_digits (s : string) : option (list nat) :=
  match s with
  | EmptyString => Some []
  | String a r => match digit_of a, parse_digits r with
                  | Some d, Some l => Some (Z.to_nat d :: l)
                  | _, _ => None
                  end
  end.
Definition parse_onat (s : string) : option (option nat) :=
  if String.eqb s "-" then Some None else option_map Some (parse_nat s).
Definition parse_oZ (s : string) : option (option Z) :=
  if String.eqb s "-" then Some None else option_map Some (parse_Z s).
Definition parse_ostr (s : string) : option string :=
  if String.eqb s "-" then None else Some (hex_decode s).
Definition parse_strs (s : string) : list string :=
  if String.eqb s "-" then [] else map hex_decode (split_on ","%char s).
Definition parse_dparts (s : string) : list (bool * string) :=
  map (fun w => match w with
                | String "!"%char r => (true, hex_decode r)
                | _ => (false, hex_decode w)
                end) (if String.eqb s "-" then [] else split_on ","%char s).
(* comment lines: "indent.hexbody" or "indent.-" (a bare c), comma separated *)
Definition parse_cline (w : string) : option cline :=
  match split_on "."%char w with
  | [i; b] => option_map (fun k => (k, parse_ostr b)) (parse_nat i)
  | _ => None
  end.
Definition parse_clines (s : string) : option (list cline) := parse_list parse_cline s.

(* r:S:INT:FRAC|-:MARK:S:EXP *)
Definition parse_real (f : list string) : option real :=
  match f with
  | [s; i; fr; mk; es; ex] =>
      match parse_sign s, parse_digits i, parse_sign es, parse_digits ex with
      | Some sg, Some il, Some esg, Some el =>
          let frac := if String.eqb fr "-" then Some None else option_map Some (parse_digits fr) in
          let ex' := if String.eqb mk "-" then Some None
                     else if String.eqb mk "e" then Some (Some (ELow, esg, el))
                     else if String.eqb mk "E" then Some (Some (EUp, esg, el))
                     else if String.eqb mk "f" then Some (Some (EFortran, esg, el)) else None in
          match frac, ex' with
          | Some fo, Some eo => Some (mkReal sg il fo eo)
          | _, _ => None
          end
      | _, _, _, _ => None
      end
  | _ => None
  end.

Definition mk_dcls (md pfx n parts : string) : option dcls :=
  option_map (fun k => mkDcls (parse_ostr md) (hex_decode pfx) k (parse_dparts parts)) (parse_oZ n).

Definition step (st : option (list val)) (w : string) : option (list val) :=
  match st with
  | None => None
  | Some stack =>
    let f := split_on ":"%char w in
    match f, stack with
    | "r" :: rest, _ => option_map (fun r => VR r :: stack) (parse_real rest)
    | ["sp"; n], _ => option_map (fun k => VP (PBlank k) :: stack) (parse_nat n)
    | ["tab"; n], _ => option_map (fun k => VP (PTab k) :: stack) (parse_nat n)
    | ["br"; n; m], _ => match parse_nat n, parse_nat m with
                         | Some a, Some b => Some (VP (PBreak a b) :: stack) | _, _ => None end
    | ["dl"; n; t; m], _ => match parse_nat n, parse_nat m with
                            | Some a, Some b => Some (VP (PDollar a (hex_decode t) b) :: stack) | _, _ => None end
    | ["de"; n; t], _ => option_map (fun a => VP (PDollarEnd a (hex_decode t)) :: stack) (parse_nat n)
    | ["cm"; n; m; cs], _ => match parse_nat n, parse_nat m, parse_clines cs with
                             | Some a, Some b, Some l => Some (VP (PComment a l b) :: stack) | _, _, _ => None end
    | ["am"; n; m], _ => match parse_nat n, parse_nat m with
                         | Some a, Some b => Some (VP (PAmp a b) :: stack) | _, _ => None end
    | ["ld"; m; cs], _ => match parse_nat m, parse_clines cs with
                          | Some b, Some (c :: l) => Some (VP (PLead c l b) :: stack) | _, _ => None end
    | ["some"], VP p :: s => Some (VOP (Some p) :: s)
    | ["none"], _ => Some (VOP None :: stack)
    | ["leaf"], VR r :: s => Some (VF (FLeaf r) :: s)
    | ["ccell"], VR r :: s => Some (VF (FComplCell r) :: s)
    | ["cpar"], VE e :: VOP p :: s => Some (VF (FComplPar p e) :: s)
    | ["par"], VE e :: VOP p :: s => Some (VF (FPar p e) :: s)
    | ["t1"], VF x :: s => Some (VT (TOne x) :: s)
    | ["tand"], VF x :: VOP p :: VT t :: s => Some (VT (TAnd t p x) :: s)
    | ["e1"], VOP tr :: VT t :: s => Some (VE (EOne t tr) :: s)
    | ["eor"], VOP tr :: VT t :: VOP pr :: VE e :: s => Some (VE (EOr e pr t tr) :: s)
    | ["num"], VR r :: s => Some (VI (NNum r) :: s)
    | ["j"; n], _ => option_map (fun k => VI (NJump k) :: stack) (parse_onat n)
    | ["rep"; n], _ => option_map (fun k => VI (NRepeat k) :: stack) (parse_onat n)
    | ["mul"], VR x :: s => Some (VI (NMul x) :: s)
    | ["int"; n], VR r :: VP p :: s => option_map (fun k => VI (NInterp k p r) :: s) (parse_onat n)
    | ["log"; n], VR r :: VP p :: s => option_map (fun k => VI (NLog k p r) :: s) (parse_onat n)
    | ["nl1"], VOP p :: VI i :: s => Some (VL (NLOne i p) :: s)
    | ["nls"], VOP p :: VI i :: VL l :: s => Some (VL (NLSnoc l i p) :: s)
    | ["cvl"], VL l :: s => Some (VC (CVList l) :: s)
    | ["cvr"], VOP p :: VR b :: VC c :: s => Some (VC (CVRange c b p) :: s)
    | ["cvn"], VOP p :: VI i :: VC c :: s => Some (VC (CVNum c i p) :: s)
    | ["cvg"], VOP p :: VL inner :: VOP pl :: VC c :: s => Some (VC (CVGroup c pl inner p) :: s)
    | ["cvp"], VOP p :: VL inner :: VOP pl :: s => Some (VC (CVParen pl inner p) :: s)
    | ["seppad"], VP p :: s => Some (VSep (SepPad p) :: s)
    | ["sepeq"], VOP pr :: VOP pl :: s => Some (VSep (SepEq pl pr) :: s)
    | ["cp"; star; key; n; parts], VC v :: VSep sp :: s =>
        option_map (fun k => VCP (mkCParam (String.eqb star "1") (hex_decode key) k (parse_strs parts) sp v) :: s)
                   (parse_oZ n)
    | ["cps0"], _ => Some (VCPS [] :: stack)
    | ["cpsadd"], VCP c :: VCPS l :: s => Some (VCPS (l ++ [c]) :: s)
    | ["void"], VP p :: VR z :: s => Some (VM (MVoid z p) :: s)
    | ["mat"], VP p2 :: VR d :: VP p1 :: VR m :: s => Some (VM (MMat m p1 d p2) :: s)
    | ["cell"], VCPS ps :: VE g :: VM m :: VP p :: VR n :: VOP lead :: s =>
        Some (VShape (ShCell (mkCell lead n p m g ps)) :: s)
    | ["ptr"], VP p :: VR r :: s => Some (VPtr (Some (r, p)) :: s)
    | ["noptr"], _ => Some (VPtr None :: stack)
    | ["surf"; md; mn], VL l :: VP p2 :: VPtr ptr :: VP p1 :: VR n :: VOP lead :: s =>
        let m := if String.eqb md "*" then SMStar else if String.eqb md "+" then SMPlus else SMNone in
        Some (VShape (ShSurf (mkSurf lead m n p1 ptr (hex_decode mn) p2 l)) :: s)
    | ["kw"; k], VP p :: s => Some (VKw (Some (hex_decode k, p)) :: s)
    | ["nokw"], _ => Some (VKw None :: stack)
    | ["pt"; spc; p], VOP pd :: s => Some (VPT (String.eqb spc "1", hex_decode p, pd) :: s)
    | ["pts0"], _ => Some (VPTS [] :: stack)
    | ["ptsadd"], VPT p :: VPTS l :: s => Some (VPTS (l ++ [p]) :: s)
    | ["dnone"], _ => Some (VDD DNone :: stack)
    | ["dnums"], VL l :: s => Some (VDD (DNums l) :: s)
    | ["dparts"], VPTS ps :: VPT p :: s => Some (VDD (DParts p ps) :: s)
    | ["dopt"; o], VL l :: VP p :: s => Some (VDD (DOptNums (hex_decode o) p l) :: s)
    | ["dp"; k], VL v :: VSep sp :: s => Some (VDP (mkDParam (hex_decode k) sp (DPNums v)) :: s)
    | ["dpw"; k; w], VOP p :: VSep sp :: s =>
        Some (VDP (mkDParam (hex_decode k) sp (DPWord (hex_decode w) p)) :: s)
    | ["dps0"], _ => Some (VDPS [] :: stack)
    | ["dpsadd"], VDP p :: VDPS l :: s => Some (VDPS (l ++ [p]) :: s)
    | ["data"; md; pfx; n; parts], VDPS ps :: VDD dd :: VKw k :: VOP p :: VOP lead :: s =>
        option_map (fun c => VShape (ShData (mkData lead c p k dd ps)) :: s) (mk_dcls md pfx n parts)
    | ["tin"], VL l :: s => Some (VTI (TINums l) :: s)
    | ["tig"], VOP pr :: VL l :: VOP pl :: s => Some (VTI (TIGroup pl l pr) :: s)
    | ["tis0"], _ => Some (VTIS [] :: stack)
    | ["tisadd"], VTI t :: VTIS l :: s => Some (VTIS (l ++ [t]) :: s)
    | ["tally"; seg; md; pfx; n; parts; en], VOP ep :: VTIS rest :: VTI first :: VOP p :: VOP lead :: s =>
        option_map (fun c =>
          let t := mkTally lead c p first rest (option_map (fun e => (e, ep)) (parse_ostr en)) in
          VShape (if String.eqb seg "1" then ShTallySeg t else ShTally t) :: s) (mk_dcls md pfx n parts)
    | ["svn"], VL l :: s => Some (VSV (SVNums l) :: s)
    | ["svp"], VPT p :: s => Some (VSV (SVPart p) :: s)
    | ["svd"], VOP p :: VR n :: s => Some (VSV (SVDist n p) :: s)
    | ["spar"; k], VSV v :: VSep sp :: s => Some (VSP (mkSParam (hex_decode k) sp v) :: s)
    | ["sps0"], _ => Some (VSPS [] :: stack)
    | ["spsadd"], VSP p :: VSPS l :: s => Some (VSPS (l ++ [p]) :: s)
    | ["sdef"; md; pfx; n; parts], VSPS rest :: VSP first :: VP p :: VOP lead :: s =>
        option_map (fun c => VShape (ShSdef (mkSdef lead c p first rest)) :: s) (mk_dcls md pfx n parts)
    | ["sdef0"; md; pfx; n; parts], VOP p :: VOP lead :: s =>
        option_map (fun c => VShape (ShSdef0 (mkSdef0 lead c p)) :: s) (mk_dcls md pfx n parts)
    | ["text"; src; t], VOP lead :: s =>
        Some (VShape (ShText (mkText lead (String.eqb src "1") (hex_decode t))) :: s)
    | ["zaid"; lib; z], VOP tr :: VR fr :: VOP p :: s =>
        Some (VZ (mkZ (String.eqb lib "1") (hex_decode z) p fr tr) :: s)
    | ["zs0"], _ => Some (VZS [] :: stack)
    | ["zsadd"], VZ z :: VZS l :: s => Some (VZS (l ++ [z]) :: s)
    | ["mpn"; k], VL v :: VSep sp :: s => Some (VMP (MPNum (hex_decode k) sp v) :: s)
    | ["mpl"; k; lib], VOP p :: VSep sp :: s => Some (VMP (MPLib (hex_decode k) sp (hex_decode lib) p) :: s)
    | ["mps0"], _ => Some (VMPS [] :: stack)
    | ["mpsadd"], VMP m :: VMPS l :: s => Some (VMPS (l ++ [m]) :: s)
    | ["mcard"; n], VMPS ps :: VZS zs :: VZ z :: VOP p :: VOP lead :: s =>
        option_map (fun k => VShape (ShMat (mkMat lead k p z zs ps)) :: s) (parse_Z n)
    | ["law"; t], VOP p :: s => Some (VLaw (hex_decode t, p) :: s)
    | ["laws0"], _ => Some (VLaws [] :: stack)
    | ["lawsadd"], VLaw l :: VLaws ls :: s => Some (VLaws (ls ++ [l]) :: s)
    | ["mtcard"; n], VLaws ls :: VLaw l :: VOP p :: VOP lead :: s =>
        option_map (fun k => VShape (ShMT (mkMT lead k p l ls)) :: s) (parse_Z n)
    | _, _ => None
    end
  end.

Definition parse_shape (ws : list string) : option shape :=
  match fold_left step ws (Some []) with
  | Some [VShape s] => Some s
  | _ => None
  end.

Definition upchar (a : ascii) : ascii :=
  let n := nat_of_ascii a in if andb (Nat.leb 97 n) (Nat.leb n 122) then ascii_of_nat (n - 32) else a.
Fixpoint upcase (s : string) : string :=
  match s with EmptyString => EmptyString | String a r => String (upchar a) (upcase r) end.
(* either case, independently per token: token i is written in upper case when bit (i mod |mask|) of the
   mask is set; the class of a token does not depend on the case of its letters *)
Fixpoint apply_mask (mask cur : list bool) (ts : list token) : list token :=
  match ts with
  | [] => []
  | t :: r =>
      match cur with
      | b :: cur' => (fst t, if b then upcase (snd t) else snd t) :: apply_mask mask cur' r
      | [] => match mask with
              | b :: m' => (fst t, if b then upcase (snd t) else snd t) :: apply_mask mask m' r
              | [] => t :: r
              end
      end
  end.
Fixpoint parse_mask (s : string) : list bool :=
  match s with EmptyString => [] | String a r => Ascii.eqb a "1"%char :: parse_mask r end.
Definition gen_case (mask : list bool) (sh : shape) : list token := apply_mask mask mask (gen sh).

Definition show_tok (t : token) : string := hex_encode (fst t) ++ "." ++ hex_encode (snd t).
Definition show_lr (r : lr_result) : string :=
  match r with
  | LRAccept => "A"
  | LRReject pos st tok => "R" ++ show_nat pos ++ "/" ++ show_Z st ++ "/" ++ hex_encode tok
  | LRFuel => "F"
  | LRTable why => "T" ++ hex_encode why
  end.
Definition lr_of (parser : string) (ts : list string) : string :=
  match lr_by_name parser with Some T => show_lr (lr_run T ts) | None => "-" end.

(* requests:
     "gen <mask> <postfix program>" -> "ok <0|1><0|1> <parser> <lr> <lr of the classifier | -> tok tok ..."
        (first bit: the shape predicate holds; second bit: [lex_safe]; lr = the verdict of the LR driver of the card's parser on the classes
         of the rendered tokens: A accept, R<pos>/<state>/<class> reject, F fuel, T<why> inconsistent table)
     "lr <parser> <hexclass,hexclass,...>" -> the verdict of that parser's LR driver
     "dispatch <0|1> <prefix,prefix,..> <key>" -> the claiming prefixes
     "wordclass <hexword>" -> the class ParticleLexer.TEXT gives the word
     "lex <C|D|S|K> <hextext>" -> "ok tok tok ..." | "error <pos> <hexwhy>": Input.tokenize with the cell / data /
        surface lexer (K: _ClassifierInput with the data lexer) *)
Definition run_CoreGrammar (req : string) : string :=
  match words req with
  | "gen" :: c :: prog =>
      match parse_shape prog with
      | Some sh =>
          let ts := gen sh in
          "ok " ++ (if shape_ok_b sh then "1" else "0") ++ (if lex_safe ts then "1" else "0") ++ " "
          ++ parser_of sh ++ " "
          ++ lr_of (parser_of sh) (classes ts) ++ " "
          ++ (match classifier_toks sh with [] => "-" | ct => lr_of "classifier" (classes ct) end) ++ " "
          ++ join " " (map show_tok (apply_mask (parse_mask c) (parse_mask c) ts))
      | None => "error:shape"
      end
  | ["lr"; p; cs] => lr_of p (parse_strs cs)
  | ["dispatch"; m; pfx; key] =>
      show_list hex_encode (dispatch (String.eqb m "1") (parse_strs pfx) (hex_decode key))
  | ["wordclass"; w] => word_class (hex_decode w)
  | ["lex"; l; txt] =>
      let L := if String.eqb l "C" then LCell else if String.eqb l "S" then LSurface else LData in
      match tokenize L (hex_decode txt) with
      | LexOk ts => "ok " ++ join " " (map show_tok (if String.eqb l "K" then classifier_cut true ts else ts))
      | LexError pos why => "error " ++ show_Z (Z.of_N pos) ++ " " ++ hex_encode why
      end
  | _ => "error:request"
  end.
