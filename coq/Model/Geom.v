(* Geom.v — executable model of MontePy's cell geometry (property C02).

   Source modelled (montepy @ /repo):
     surfaces/half_space.py   HalfSpace / UnitHalfSpace: parse_input_node, __and__ __or__ __invert__
                              __iand__ __ior__, the left / right / operator setters, _update_values,
                              _ensure_has_nodes, _child_node, _strip_parentheses, _update_node
     surfaces/surface.py      Surface.__pos__ / __neg__         cell.py  Cell.__invert__,
                              Cell._update_values (geometry part: the cell keeps the parentheses
                              around its whole geometry unless the geometry object was replaced)
     input_parser/syntax_node.py   GeometryTree and GeometryTree.format
     input_parser/cell_parser.py   geometry_expr / geometry_term / geometry_factor / geometry_factory / union
                              and their actions (which tree each production builds)

   Level of abstraction: *tokens*.  Blanks, line breaks and comments inside the padding nodes are
   not represented; a padding node is represented by the token it carries ("(" / ")" / ":" / "#" / none).
   (An implicit intersection such as "9(7)" has an empty operator padding; _ensure_has_nodes puts a blank
   into it when it links another node to one of its sides, so this stays invisible at token level; notes/C02.md.)  Python object identity ([is]) is represented by *links*: a HalfSpace object keeps,
   for each child, the syntax node it uses for that side; [LKeep k] says "that node is the child's own
   node inside k pairs of parentheses" (so it is kept by _child_node), [LStale] says "that node does not
   belong to the present child" (the child was replaced), so _child_node computes a new one.
   Values are used linearly by the operator programs (no aliasing between the operands of one program).
   No proofs in this file. *)
From Coq Require Import List ZArith Bool String Ascii.
From MPV Require Import Model.Wire.
Import ListNotations.
Open Scope Z_scope.

(* ------------------------------------------------------------------ Boolean meaning *)
Inductive atom := ASurf (n : Z) | ACell (n : Z).

Inductive bexp :=
| BSurf (pos : bool) (n : Z)        (* +n / -n : the positive / negative side of surface n *)
| BCompl (n : Z)                    (* #n : everything that is not in cell n *)
| BNot (e : bexp)
| BAnd (a b : bexp)
| BOr (a b : bexp).

Fixpoint eval (env : atom -> bool) (e : bexp) : bool :=
  match e with
  | BSurf pos n => if pos then env (ASurf n) else negb (env (ASurf n))
  | BCompl n => negb (env (ACell n))
  | BNot a => negb (eval env a)
  | BAnd a b => andb (eval env a) (eval env b)
  | BOr a b => orb (eval env a) (eval env b)
  end.

Definition beq (a b : bexp) : Prop := forall env, eval env a = eval env b.

(* ------------------------------------------------------------------ tokens and the MCNP reference grammar *)
Inductive gtok :=
| TLeaf (pos : bool) (n : Z)        (* 5, +5, -5 *)
| TCompl (n : Z)                    (* #5 : complement of a cell *)
| THash                             (* # in front of a parenthesis *)
| TLParen | TRParen | TColon.

Inductive lvl := LE | LT | LF.      (* expression (unions), term (intersections), factor *)

(* MCNP manual: complement binds tighter than intersection (juxtaposition), which binds tighter
   than union (':'); parentheses override. *)
Inductive GD : lvl -> list gtok -> bexp -> Prop :=
| GD_leaf : forall pos n, GD LF [TLeaf pos n] (BSurf pos n)
| GD_cell : forall n, GD LF [TCompl n] (BCompl n)
| GD_not : forall ts e, GD LE ts e -> GD LF (THash :: TLParen :: ts ++ [TRParen]) (BNot e)
| GD_paren : forall ts e, GD LE ts e -> GD LF (TLParen :: ts ++ [TRParen]) e
| GD_f2t : forall ts e, GD LF ts e -> GD LT ts e
| GD_and : forall ts1 ts2 a b, GD LT ts1 a -> GD LF ts2 b -> GD LT (ts1 ++ ts2) (BAnd a b)
| GD_t2e : forall ts e, GD LT ts e -> GD LE ts e
| GD_or : forall ts1 ts2 a b, GD LE ts1 a -> GD LT ts2 b -> GD LE (ts1 ++ TColon :: ts2) (BOr a b).

Definition GDenotes (ts : list gtok) (e : bexp) : Prop := GD LE ts e.

(* ------------------------------------------------------------------ syntax trees (GeometryTree / ValueNode) *)
Inductive gop := OInter | OUnion.

Inductive gtree :=
| GVal (pos : bool) (n : Z)          (* ValueNode *)
| GBin (op : gop) (l r : gtree)      (* "union" / "intersection": nodes left, operator, right *)
| GCompl (l : gtree)                 (* "complement": nodes operator, left *)
| GParen (l : gtree)                 (* "geom parens": start_pad "(", left, end_pad ")"; operator _SHIFT *)
| GShift (l : gtree).                (* "shift": left only (a lone number promoted to a tree); operator _SHIFT *)

(* semantic actions of the productions (cell_parser.py) *)
Definition act_number (pos : bool) (n : Z) : gtree := GVal pos n.                 (* geometry_factory : NUMBER *)
Definition act_parens (e : gtree) : gtree := GParen e.                           (* geometry_factory : "(" geometry_expr ")" *)
Definition act_complement (f : gtree) : gtree := GCompl f.                       (* geometry_factor : COMPLEMENT geometry_factory *)
Definition act_intersection (l r : gtree) : gtree := GBin OInter l r.            (* geometry_term : geometry_term [padding] geometry_factor *)
Definition act_union (l r : gtree) : gtree := GBin OUnion l r.                   (* geometry_expr : geometry_expr union geometry_term *)
Definition act_expr_of_term (t : gtree) : gtree :=                                (* geometry_expr : geometry_term *)
  match t with GVal _ _ => GShift t | _ => t end.

(* the productions with their actions, padding erased; COMPLEMENT NUMBER is the token TCompl *)
Inductive Derives : lvl -> list gtok -> gtree -> Prop :=
| D_num : forall pos n, Derives LF [TLeaf pos n] (act_number pos n)
| D_paren : forall ts t, Derives LE ts t -> Derives LF (TLParen :: ts ++ [TRParen]) (act_parens t)
| D_compl_num : forall n, Derives LF [TCompl n] (act_complement (act_number true n))
| D_compl_paren : forall ts t, Derives LE ts t ->
    Derives LF (THash :: TLParen :: ts ++ [TRParen]) (act_complement (act_parens t))
| D_f2t : forall ts t, Derives LF ts t -> Derives LT ts t
| D_inter : forall ts1 ts2 l r, Derives LT ts1 l -> Derives LF ts2 r ->
    Derives LT (ts1 ++ ts2) (act_intersection l r)
| D_t2e : forall ts t, Derives LT ts t -> Derives LE ts (act_expr_of_term t)
| D_union : forall ts1 ts2 l r, Derives LE ts1 l -> Derives LT ts2 r ->
    Derives LE (ts1 ++ TColon :: ts2) (act_union l r).

(* GeometryTree.format, as tokens *)
Fixpoint format_tree (t : gtree) : list gtok :=
  match t with
  | GVal pos n => [TLeaf pos n]
  | GBin OInter l r => format_tree l ++ format_tree r
  | GBin OUnion l r => format_tree l ++ TColon :: format_tree r
  | GCompl (GVal pos n) => if pos then [TCompl n] else [THash; TLeaf false n]
  | GCompl l => THash :: format_tree l
  | GParen l => TLParen :: format_tree l ++ [TRParen]
  | GShift l => format_tree l
  end.

Fixpoint sem_tree (t : gtree) : bexp :=
  match t with
  | GVal pos n => BSurf pos n
  | GBin OInter l r => BAnd (sem_tree l) (sem_tree r)
  | GBin OUnion l r => BOr (sem_tree l) (sem_tree r)
  | GCompl (GVal _ n) => BCompl n
  | GCompl l => BNot (sem_tree l)
  | GParen l => sem_tree l
  | GShift l => sem_tree l
  end.

(* executable recursive-descent parser that builds the trees of the actions (left associative) *)
Inductive pmode := MExpr | MExprLoop (a : gtree) | MTerm | MTermLoop (a : gtree) | MFactor.

Fixpoint tp (fuel : nat) (m : pmode) (ts : list gtok) : option (gtree * list gtok) :=
  match fuel with
  | O => None
  | S f =>
      match m with
      | MFactor =>
          match ts with
          | TLeaf pos n :: r => Some (act_number pos n, r)
          | TCompl n :: r => Some (act_complement (act_number true n), r)
          | THash :: TLParen :: r =>
              match tp f MExpr r with
              | Some (e, TRParen :: r') => Some (act_complement (act_parens e), r')
              | _ => None
              end
          | TLParen :: r =>
              match tp f MExpr r with
              | Some (e, TRParen :: r') => Some (act_parens e, r')
              | _ => None
              end
          | _ => None
          end
      | MTerm =>
          match tp f MFactor ts with
          | Some (a, r) => tp f (MTermLoop a) r
          | None => None
          end
      | MTermLoop a =>
          match ts with
          | [] => Some (a, ts)
          | TColon :: _ => Some (a, ts)
          | TRParen :: _ => Some (a, ts)
          | _ => match tp f MFactor ts with
                 | Some (b, r) => tp f (MTermLoop (act_intersection a b)) r
                 | None => None
                 end
          end
      | MExpr =>
          match tp f MTerm ts with
          | Some (a, r) => tp f (MExprLoop (act_expr_of_term a)) r
          | None => None
          end
      | MExprLoop a =>
          match ts with
          | TColon :: r =>
              match tp f MTerm r with
              | Some (b, r') => tp f (MExprLoop (act_union a b)) r'
              | None => None
              end
          | _ => Some (a, ts)
          end
      end
  end.

Definition tparse (ts : list gtok) : option gtree :=
  match tp (4 * List.length ts + 8) MExpr ts with
  | Some (t, []) => Some t
  | _ => None
  end.

Definition gparse (ts : list gtok) : option bexp := option_map sem_tree (tparse ts).

(* ------------------------------------------------------------------ HalfSpace trees *)
Inductive link := LStale | LKeep (k : nat).

Inductive hs :=
| HUnit (cell : bool) (pos : bool) (n : Z)                     (* UnitHalfSpace(divider n, side, is_cell) *)
| HCompl (l : hs) (nd : option (bool * link))                  (* node: start_pad "(" present?, link of left *)
| HBin (op : gop) (l r : hs) (nd : option (link * link)).      (* node: links of left and right *)

(* UnitHalfSpace.side: cells are always "+" *)
Definition unit_side (cell pos : bool) : bool := orb cell pos.

Fixpoint sem_hs (h : hs) : bexp :=
  match h with
  | HUnit false pos n => BSurf pos n
  | HUnit true _ n => BNot (BCompl n)               (* "inside cell n" *)
  | HCompl l _ => BNot (sem_hs l)
  | HBin OInter l r _ => BAnd (sem_hs l) (sem_hs r)
  | HBin OUnion l r _ => BOr (sem_hs l) (sem_hs r)
  end.

(* number of "(" layers of a chain of _SHIFT nodes; _strip_parentheses goes through all of them *)
Fixpoint paren_layers (t : gtree) : nat :=
  match t with
  | GParen l => S (paren_layers l)
  | GShift l => paren_layers l
  | _ => 0%nat
  end.

(* HalfSpace.parse_input_node / UnitHalfSpace.parse_input_node: _SHIFT nodes are skipped, every other
   tree becomes a HalfSpace that keeps its tree as node; a number directly under a complement is a cell *)
Fixpoint parse_input_node (t : gtree) : hs :=
  match t with
  | GVal pos n => HUnit false pos n
  | GBin op l r =>
      HBin op (parse_input_node l) (parse_input_node r)
           (Some (LKeep (paren_layers l), LKeep (paren_layers r)))
  | GCompl (GVal _ n) => HCompl (HUnit true true n) (Some (false, LKeep 0%nat))
  | GCompl l => HCompl (parse_input_node l) (Some (false, LKeep (paren_layers l)))
  | GParen l => parse_input_node l
  | GShift l => parse_input_node l
  end.

(* ---- the Python operators *)
Definition surf_neg (n : Z) : hs := HUnit false false n.                  (* -surface *)
Definition surf_pos (n : Z) : hs := HUnit false true n.                   (* +surface *)
Definition cell_compl (n : Z) : hs := HCompl (HUnit true true n) None.    (* ~cell *)
Definition hs_and (a b : hs) : hs := HBin OInter a b None.                (* a & b *)
Definition hs_or (a b : hs) : hs := HBin OUnion a b None.                 (* a | b *)
Definition hs_not (a : hs) : hs := HCompl a None.                         (* ~a *)

Definition stale_right (nd : option (link * link)) : option (link * link) :=
  match nd with Some (ll, _) => Some (ll, LStale) | None => None end.
Definition stale_left (nd : option (link * link)) : option (link * link) :=
  match nd with Some (_, rl) => Some (LStale, rl) | None => None end.

(* __iand__ / __ior__ : (the object Python binds to the name afterwards, is it the same object?) *)
Fixpoint hs_iop (op : gop) (h other : hs) : hs * bool :=
  match h with
  | HUnit _ _ _ => (HBin op h other None, false)                           (* return self & other *)
  | HCompl l _ => (HBin op (HCompl l None) other None, false)              (* return (~self.left) & other *)
  | HBin o l r nd =>
      match r with
      | HUnit _ _ _ => (HBin o l (HBin op r other None) (stale_right nd), true)   (* self.right = self.right & other *)
      | _ =>
          let (r', same) := hs_iop op r other in                           (* self.right &= other *)
          (HBin o l r' (if same then nd else stale_right nd), true)
      end
  end.

(* setters (guards of the program runner: left on a non-unit, right / operator on a binary node) *)
Definition hs_set_left (h b : hs) : option hs :=
  match h with
  | HUnit _ _ _ => None
  | HCompl _ nd => Some (HCompl b (match nd with Some (lp, _) => Some (lp, LStale) | None => None end))
  | HBin o _ r nd => Some (HBin o b r (stale_left nd))
  end.
Definition hs_set_right (h b : hs) : option hs :=
  match h with
  | HBin o l _ nd => Some (HBin o l b (stale_right nd))
  | _ => None
  end.
(* operator setter, between INTERSECTION and UNION: the node and its links stay; _update_node rewrites the
   operator padding so that it shows the present operator (that is why [format_hs] prints [op]); a child that
   now needs parentheses gets them in _child_node *)
Definition hs_set_op (h : hs) (op : gop) : option hs :=
  match h with
  | HBin _ l r nd => Some (HBin op l r nd)
  | _ => None
  end.

(* ---- in-place edits of a sub-object: x.left.operator = ..., x.right.left = y, x.left &= y, ...
   path: false = .left, true = .right.  The edit [f] is applied to the sub-object at the end of the path and gives
   its new value and whether that is still the same Python object (only &= / |= on a leaf or a complement make a
   new one, which the attribute assignment then stores in the parent: the parent's link for that side is stale).
   An edit of an object further down leaves every link above it as it is (the objects and their nodes are the same). *)
Definition stale_compl (nd : option (bool * link)) : option (bool * link) :=
  match nd with Some (lp, _) => Some (lp, LStale) | None => None end.

Fixpoint hs_at (path : list bool) (f : hs -> option (hs * bool)) (h : hs) : option hs :=
  match path with
  | [] => None
  | d :: rest =>
      match h with
      | HUnit _ _ _ => None
      | HCompl l nd =>
          if d then None
          else match rest with
               | [] => match f l with
                       | Some (l', same) => Some (HCompl l' (if same then nd else stale_compl nd))
                       | None => None
                       end
               | _ => match hs_at rest f l with Some l' => Some (HCompl l' nd) | None => None end
               end
      | HBin op l r nd =>
          if d then
            match rest with
            | [] => match f r with
                    | Some (r', same) => Some (HBin op l r' (if same then nd else stale_right nd))
                    | None => None
                    end
            | _ => match hs_at rest f r with Some r' => Some (HBin op l r' nd) | None => None end
            end
          else
            match rest with
            | [] => match f l with
                    | Some (l', same) => Some (HBin op l' r (if same then nd else stale_left nd))
                    | None => None
                    end
            | _ => match hs_at rest f l with Some l' => Some (HBin op l' r nd) | None => None end
            end
      end
  end.

Inductive atop := AtSetOp (op : gop) | AtSetL | AtSetR | AtIop (op : gop).

Definition is_cell_unit0 (h : hs) : bool := match h with HUnit true _ _ => true | _ => false end.

(* the edit itself (guards of the program runner: no edit of a cell leaf, which only means something under its
   complement; setters as above) *)
Definition at_apply (k : atop) (b : hs) (c : hs) : option (hs * bool) :=
  match k with
  | AtSetOp op => option_map (fun h => (h, true)) (hs_set_op c op)
  | AtSetL => option_map (fun h => (h, true)) (hs_set_left c b)
  | AtSetR => option_map (fun h => (h, true)) (hs_set_right c b)
  | AtIop op => if is_cell_unit0 c then None else Some (hs_iop op c b)
  end.

(* ---- writing *)
Definition is_unit (h : hs) : bool := match h with HUnit _ _ _ => true | _ => false end.
Definition is_cell_unit (h : hs) : bool := match h with HUnit true _ _ => true | _ => false end.
Definition is_union (h : hs) : bool := match h with HBin OUnion _ _ _ => true | _ => false end.

Inductive pctx := PBin (op : gop) | PCompl (lp : bool).

(* _child_node: how many pairs of parentheses surround the child's node on that side.  A side that still has
   parentheses of its own around the child's node keeps them; a bare node (the child's own node, or a node that
   does not belong to the child) gets the parentheses that the precedence of the parent requires *)
Definition child_node (ctx : pctx) (child : hs) (current : link) : nat :=
  match current with
  | LKeep (S k) => S k                  (* current is not child.node and _strip_parentheses(current) is child.node *)
  | _ =>
      if andb (is_unit child)
              (match ctx with PCompl _ => is_cell_unit child | PBin _ => true end)
      then 0%nat
      else match ctx with
           | PBin OInter => if is_union child then 1%nat else 0%nat
           | PBin OUnion => 0%nat
           | PCompl lp => if lp then 0%nat else 1%nat
           end
  end.

(* _ensure_has_nodes (children first; a missing node is created; both sides are re-linked) *)
Fixpoint ensure_has_nodes (h : hs) : hs :=
  match h with
  | HUnit _ _ _ => h
  | HCompl l nd =>
      let l' := ensure_has_nodes l in
      match nd with
      | None => HCompl l' (Some (negb (is_cell_unit l'), LKeep 0%nat))
      | Some (lp, lk) => HCompl l' (Some (lp, LKeep (child_node (PCompl lp) l' lk)))
      end
  | HBin op l r nd =>
      let l' := ensure_has_nodes l in
      let r' := ensure_has_nodes r in
      match nd with
      | None => HBin op l' r' (Some (LKeep (child_node (PBin op) l' LStale),
                                     LKeep (child_node (PBin op) r' LStale)))
      | Some (ll, rl) => HBin op l' r' (Some (LKeep (child_node (PBin op) l' ll),
                                              LKeep (child_node (PBin op) r' rl)))
      end
  end.

Fixpoint wrapk (k : nat) (ts : list gtok) : list gtok :=
  match k with
  | O => ts
  | S k' => TLParen :: wrapk k' ts ++ [TRParen]
  end.

Definition link_k (l : link) : nat := match l with LKeep k => k | LStale => 0%nat end.

(* GeometryTree.format of the node of h, followed through the links (defined for every h; it is what the
   code prints when h went through _ensure_has_nodes) *)
Fixpoint format_hs (h : hs) : list gtok :=
  match h with
  | HUnit cell pos n => [TLeaf (unit_side cell pos) n]
  | HCompl l nd =>
      let lp := match nd with Some (lp, _) => lp | None => false end in
      let k := match nd with Some (_, lk) => link_k lk | None => 0%nat end in
      match l, lp, k with
      | HUnit cell pos n, false, O =>
          if unit_side cell pos then [TCompl n] else [THash; TLeaf false n]
      | _, _, _ =>
          THash :: (if lp then [TLParen] else []) ++ wrapk k (format_hs l) ++ (if lp then [TRParen] else [])
      end
  | HBin op l r nd =>
      let kl := match nd with Some (ll, _) => link_k ll | None => 0%nat end in
      let kr := match nd with Some (_, rl) => link_k rl | None => 0%nat end in
      wrapk kl (format_hs l) ++ (match op with OInter => [] | OUnion => [TColon] end) ++ wrapk kr (format_hs r)
  end.

(* HalfSpace._update_values: _ensure_has_nodes, then _update_node on every node (token-neutral, see above) *)
Definition update_values (h : hs) : hs := ensure_has_nodes h.
Definition written_tokens (h : hs) : list gtok := format_hs (update_values h).

(* ---- the cell around the geometry: Cell._tree["geometry"] and Cell._update_values *)
Record cellst := mkcell { geom : hs; outer : link }.

Definition parse_cell (t : gtree) : cellst := mkcell (parse_input_node t) (LKeep (paren_layers t)).
Definition new_cell (g : hs) : cellst := mkcell g LStale.
(* cell.geometry = g  (same: g is the object the cell already had) *)
Definition set_geometry (c : cellst) (g : hs) (same : bool) : cellst :=
  mkcell g (if same then outer c else LStale).
Definition cell_update (c : cellst) : cellst :=
  mkcell (update_values (geom c)) (LKeep (link_k (outer c))).
Definition cell_tokens (c : cellst) : list gtok :=
  let c' := cell_update c in wrapk (link_k (outer c')) (format_hs (geom c')).

(* ------------------------------------------------------------------ operator programs (postfix) *)
Inductive instr :=
| ISurf (pos : bool) (n : Z)     (* push +s / -s *)
| ICell (n : Z)                  (* push ~cell *)
| IBase                          (* push the geometry object of the parsed cell *)
| IAnd | IOr | INot              (* a b -> a & b ; a b -> a | b ; a -> ~a *)
| IIand | IIor                   (* a b -> (a &= b) *)
| ISetL | ISetR                  (* a b -> a with a.left = b / a.right = b *)
| ISetOp (op : gop)              (* a -> a with a.operator = op *)
| IWrite                         (* a -> a after being written once (in a scratch cell) *)
| IAt (path : list bool) (k : atop).   (* a [b] -> a after the in-place edit k of its sub-object at path *)

Inductive perr := EStack | EGuard | ENoBase.

Definition stack := list (hs * bool).     (* value, "is the object the parsed cell holds" *)

Definition step (base : option hs) (i : instr) (st : stack) : perr + stack :=
  match i, st with
  | ISurf pos n, _ => inr ((HUnit false pos n, false) :: st)
  | ICell n, _ => inr ((cell_compl n, false) :: st)
  | IBase, _ => match base with Some b => inr ((b, true) :: st) | None => inl ENoBase end
  | IAnd, (b, _) :: (a, _) :: r => inr ((hs_and a b, false) :: r)
  | IOr, (b, _) :: (a, _) :: r => inr ((hs_or a b, false) :: r)
  | INot, (a, _) :: r => inr ((hs_not a, false) :: r)
  | IIand, (b, _) :: (a, fa) :: r => let (h, same) := hs_iop OInter a b in inr ((h, andb fa same) :: r)
  | IIor, (b, _) :: (a, fa) :: r => let (h, same) := hs_iop OUnion a b in inr ((h, andb fa same) :: r)
  | ISetL, (b, _) :: (a, fa) :: r =>
      match hs_set_left a b with Some h => inr ((h, fa) :: r) | None => inl EGuard end
  | ISetR, (b, _) :: (a, fa) :: r =>
      match hs_set_right a b with Some h => inr ((h, fa) :: r) | None => inl EGuard end
  | ISetOp op, (a, fa) :: r =>
      match hs_set_op a op with Some h => inr ((h, fa) :: r) | None => inl EGuard end
  | IWrite, (a, fa) :: r => inr ((update_values a, fa) :: r)
  | IAt path (AtSetOp op), (a, fa) :: r =>
      match hs_at path (at_apply (AtSetOp op) a) a with Some h => inr ((h, fa) :: r) | None => inl EGuard end
  | IAt path k, (b, _) :: (a, fa) :: r =>
      match hs_at path (at_apply k b) a with Some h => inr ((h, fa) :: r) | None => inl EGuard end
  | _, _ => inl EStack
  end.

Fixpoint exec (base : option hs) (p : list instr) (st : stack) : perr + stack :=
  match p with
  | [] => inr st
  | i :: r => match step base i st with
              | inr st' => exec base r st'
              | inl e => inl e
              end
  end.

(* whole case: optional parsed cell, program; the result is assigned to the parsed cell (or a new one) and written *)
Definition run_case (base : option gtree) (p : list instr) : perr + (hs * list gtok) :=
  let c0 := match base with Some t => parse_cell t | None => new_cell (HUnit false true 0) end in
  match exec (option_map parse_input_node base) p [] with
  | inl e => inl e
  | inr [(h, same)] => inr (h, cell_tokens (set_geometry c0 h same))
  | inr _ => inl EStack
  end.

(* ------------------------------------------------------------------ the source grammar *)
(* Parse trees over a production table in the format of Gen/Grammar.v (lhs, rhs symbols), which
   harness/translate_grammar.py regenerates from CellParser on every run, and the semantic actions of the
   geometry productions keyed by the production itself.  [stok] are the tokens of CellParser that can occur
   inside a geometry; SPad stands for every token the "padding" productions accept. *)
Inductive padkind := PSpace | PComment | PDollar | PAmp.

Inductive stok :=
| SNum (pos : bool) (n : Z)       (* NUMBER *)
| SHash                           (* COMPLEMENT *)
| SLP | SRP | SColon              (* "(" ")" ":" *)
| SPad (k : padkind).             (* SPACE COMMENT DOLLAR_COMMENT & *)

Definition stok_class (t : stok) : string :=
  match t with
  | SNum _ _ => "NUMBER"
  | SHash => "COMPLEMENT"
  | SLP => "("
  | SRP => ")"
  | SColon => ":"
  | SPad PSpace => "SPACE"
  | SPad PComment => "COMMENT"
  | SPad PDollar => "DOLLAR_COMMENT"
  | SPad PAmp => "&"
  end%string.

Definition gprod := (string * list string)%type.

Fixpoint strs_eqb (a b : list string) : bool :=
  match a, b with
  | [], [] => true
  | x :: a', y :: b' => andb (String.eqb x y) (strs_eqb a' b')
  | _, _ => false
  end.
Definition gprod_eqb (p q : gprod) : bool := andb (String.eqb (fst p) (fst q)) (strs_eqb (snd p) (snd q)).

Inductive ptree :=
| PTok (t : stok)
| PNode (lhs : string) (rhs : list string) (kids : list ptree).

Definition proot (t : ptree) : string :=
  match t with PTok k => stok_class k | PNode l _ _ => l end.

Fixpoint pyield (t : ptree) : list stok :=
  match t with
  | PTok k => [k]
  | PNode _ _ ks => flat_map pyield ks
  end.

(* every inner node is an instance of a production of G *)
Fixpoint pwf (G : list gprod) (t : ptree) : bool :=
  match t with
  | PTok _ => true
  | PNode l r ks =>
      andb (andb (existsb (gprod_eqb (l, r)) G) (strs_eqb (map proot ks) r)) (forallb (pwf G) ks)
  end.

(* one name per function of CellParser that is decorated with geometry productions *)
Inductive grule :=
| RNumber            (* geometry_factory : NUMBER *)
| RParens            (* geometry_factory : "(" geometry_expr ")" *)
| RParensPad         (* geometry_factory : "(" padding geometry_expr ")" *)
| RFactorOfFactory   (* geometry_factor : geometry_factory *)
| RComplement        (* geometry_factor : COMPLEMENT geometry_factory *)
| RTermOfFactor      (* geometry_term : geometry_factor *)
| RTermPad           (* geometry_term : geometry_term padding *)
| RInterPad          (* geometry_term : geometry_term padding geometry_factor *)
| RInterImplicit     (* geometry_term : geometry_term geometry_factor   ( )( ), 1( ), ( )#n *)
| RShortcut          (* geometry_term : geometry_term REPEAT | MULTIPLY | INTERPOLATE ... : not modelled *)
| RExprOfTerm        (* geometry_expr : geometry_term *)
| RUnion             (* geometry_expr : geometry_expr union geometry_term *)
| RColon             (* union : ":" *)
| RColonPad.         (* union : union padding *)

(* the geometry productions of CellParser, in the order of the generated table *)
Definition geom_rules : list (gprod * grule) := [
  (("union", ["union"; "padding"]), RColonPad);
  (("union", [":"]), RColon);
  (("geometry_expr", ["geometry_term"]), RExprOfTerm);
  (("geometry_expr", ["geometry_expr"; "union"; "geometry_term"]), RUnion);
  (("geometry_term", ["geometry_factor"]), RTermOfFactor);
  (("geometry_term", ["geometry_term"; "padding"]), RTermPad);
  (("geometry_term", ["geometry_term"; "LOG_INTERPOLATE"; "padding"; "number_phrase"]), RShortcut);
  (("geometry_term", ["geometry_term"; "NUM_LOG_INTERPOLATE"; "padding"; "number_phrase"]), RShortcut);
  (("geometry_term", ["geometry_term"; "INTERPOLATE"; "padding"; "number_phrase"]), RShortcut);
  (("geometry_term", ["geometry_term"; "NUM_INTERPOLATE"; "padding"; "number_phrase"]), RShortcut);
  (("geometry_term", ["geometry_term"; "MULTIPLY"]), RShortcut);
  (("geometry_term", ["geometry_term"; "NUM_MULTIPLY"]), RShortcut);
  (("geometry_term", ["geometry_term"; "REPEAT"]), RShortcut);
  (("geometry_term", ["geometry_term"; "NUM_REPEAT"]), RShortcut);
  (("geometry_term", ["geometry_term"; "geometry_factor"]), RInterImplicit);
  (("geometry_term", ["geometry_term"; "padding"; "geometry_factor"]), RInterPad);
  (("geometry_factor", ["COMPLEMENT"; "geometry_factory"]), RComplement);
  (("geometry_factor", ["geometry_factory"]), RFactorOfFactory);
  (("geometry_factory", ["("; "padding"; "geometry_expr"; ")"]), RParensPad);
  (("geometry_factory", ["("; "geometry_expr"; ")"]), RParens);
  (("geometry_factory", ["NUMBER"]), RNumber)
]%string.

Definition geom_lhs (s : string) : bool :=
  existsb (String.eqb s) ["union"; "geometry_expr"; "geometry_term"; "geometry_factor"; "geometry_factory"]%string.

(* the part of a generated production table the model has to account for *)
Definition geom_table (G : list gprod) : list gprod := filter (fun p => geom_lhs (fst p)) G.

(* the same productions, in any order (the order of SLY's table follows the order of the methods in the source) *)
Definition gprod_mem (p : gprod) (l : list gprod) : bool := existsb (gprod_eqb p) l.
Definition same_prods (a b : list gprod) : bool :=
  andb (forallb (fun p => gprod_mem p b) a) (forallb (fun p => gprod_mem p a) b).

Definition padding_prods : list gprod := [
  ("padding", ["padding"; "&"]); ("padding", ["padding"; "COMMENT"]); ("padding", ["padding"; "DOLLAR_COMMENT"]);
  ("padding", ["padding"; "SPACE"]); ("padding", ["COMMENT"]); ("padding", ["DOLLAR_COMMENT"]); ("padding", ["SPACE"])
]%string.
Definition padding_table (G : list gprod) : list gprod := filter (fun p => String.eqb (fst p) "padding") G.

Fixpoint rule_lookup (p : gprod) (tbl : list (gprod * grule)) : option grule :=
  match tbl with
  | [] => None
  | (q, r) :: rest => if gprod_eqb p q then Some r else rule_lookup p rest
  end.
Definition rule_of (l : string) (r : list string) : option grule := rule_lookup (l, r) geom_rules.

Definition opt2 {A B C : Type} (f : A -> B -> C) (a : option A) (b : option B) : option C :=
  match a, b with Some x, Some y => Some (f x y) | _, _ => None end.

(* the syntax tree CellParser builds for a parse tree (None: no tree — padding, union — or not modelled) *)
Fixpoint pact (t : ptree) : option gtree :=
  match t with
  | PTok _ => None
  | PNode l r ks =>
      match rule_of l r, ks with
      | Some RNumber, [PTok (SNum pos n)] => Some (act_number pos n)
      | Some RParens, [_; e; _] => option_map act_parens (pact e)
      | Some RParensPad, [_; _; e; _] => option_map act_parens (pact e)
      | Some RFactorOfFactory, [f] => pact f
      | Some RComplement, [_; f] => option_map act_complement (pact f)
      | Some RTermOfFactor, [f] => pact f
      | Some RTermPad, [a; _] => pact a
      | Some RInterPad, [a; _; b] => opt2 act_intersection (pact a) (pact b)
      | Some RInterImplicit, [a; b] => opt2 act_intersection (pact a) (pact b)
      | Some RExprOfTerm, [a] => option_map act_expr_of_term (pact a)
      | Some RUnion, [a; _; b] => opt2 act_union (pact a) (pact b)
      | _, _ => None
      end
  end.

Fixpoint uses_shortcut (t : ptree) : bool :=
  match t with
  | PTok _ => false
  | PNode l r ks =>
      orb (match rule_of l r with Some RShortcut => true | _ => false end) (existsb uses_shortcut ks)
  end.

(* source tokens -> tokens of the reference grammar: padding disappears, "#" directly followed by an
   unsigned number is the complement of a cell *)
Fixpoint strip (ts : list stok) : list gtok :=
  match ts with
  | [] => []
  | t :: r =>
      match t with
      | SPad _ => strip r
      | SNum pos n => TLeaf pos n :: strip r
      | SLP => TLParen :: strip r
      | SRP => TRParen :: strip r
      | SColon => TColon :: strip r
      | SHash =>
          match r with
          | SNum true n :: r' => TCompl n :: strip r'
          | _ => THash :: strip r
          end
      end
  end.

(* "#" directly followed by a negative number is no MCNP geometry (MontePy reads it as the complement
   of the cell with the absolute number) *)
Fixpoint hash_neg (ts : list stok) : bool :=
  match ts with
  | [] => false
  | t :: r =>
      orb (match t, r with SHash, SNum false _ :: _ => true | _, _ => false end) (hash_neg r)
  end.

(* ------------------------------------------------------------------ wire *)
Open Scope string_scope.

Definition show_tok (t : gtok) : string :=
  match t with
  | TLeaf pos n => "L" ++ (if pos then "" else "-") ++ show_Z n
  | TCompl n => "C" ++ show_Z n
  | THash => "#"
  | TLParen => "("
  | TRParen => ")"
  | TColon => ":"
  end.

Definition parse_tok (s : string) : option gtok :=
  match s with
  | "#" => Some THash
  | "(" => Some TLParen
  | ")" => Some TRParen
  | ":" => Some TColon
  | String "L" r =>
      match parse_Z r with
      | Some z => Some (if (z <? 0)%Z then TLeaf false (- z) else TLeaf true z)
      | None => None
      end
  | String "C" r => option_map TCompl (parse_Z r)
  | _ => None
  end.

Fixpoint show_bexp (e : bexp) : string :=
  match e with
  | BSurf pos n => (if pos then "+" else "-") ++ show_Z n
  | BCompl n => "#" ++ show_Z n
  | BNot a => "(not " ++ show_bexp a ++ ")"
  | BAnd a b => "(and " ++ show_bexp a ++ " " ++ show_bexp b ++ ")"
  | BOr a b => "(or " ++ show_bexp a ++ " " ++ show_bexp b ++ ")"
  end.

Fixpoint show_tree (t : gtree) : string :=
  match t with
  | GVal pos n => (if pos then "+" else "-") ++ show_Z n
  | GBin OInter l r => "(* " ++ show_tree l ++ " " ++ show_tree r ++ ")"
  | GBin OUnion l r => "(: " ++ show_tree l ++ " " ++ show_tree r ++ ")"
  | GCompl l => "(# " ++ show_tree l ++ ")"
  | GParen l => "(p " ++ show_tree l ++ ")"
  | GShift l => "(> " ++ show_tree l ++ ")"
  end.

(* the HalfSpace object as the API shows it: operator, left, right, divider number, side, is_cell *)
Fixpoint show_hs (h : hs) : string :=
  match h with
  | HUnit cell pos n => (if cell then "c" else if pos then "+" else "-") ++ show_Z n
  | HCompl l _ => "(# " ++ show_hs l ++ ")"
  | HBin OInter l r _ => "(* " ++ show_hs l ++ " " ++ show_hs r ++ ")"
  | HBin OUnion l r _ => "(: " ++ show_hs l ++ " " ++ show_hs r ++ ")"
  end.

(* HalfSpace.__str__ / UnitHalfSpace.__str__ *)
Fixpoint str_hs (h : hs) : string :=
  match h with
  | HUnit cell pos n => (if cell then "" else if pos then "+" else "-") ++ show_Z n
  | HCompl l _ => "#" ++ str_hs l
  | HBin OInter l r _ => "(" ++ str_hs l ++ "*" ++ str_hs r ++ ")"
  | HBin OUnion l r _ => "(" ++ str_hs l ++ ":" ++ str_hs r ++ ")"
  end.

(* the syntax nodes behind a HalfSpace after _update_values, followed through the links: which sides are wrapped in
   "geom parens" nodes, which complement nodes carry their own parentheses *)
Fixpoint wrap_show (k : nat) (s : string) : string :=
  match k with O => s | S k' => "(p " ++ wrap_show k' s ++ ")" end.

Fixpoint show_nodes (h : hs) : string :=
  match h with
  | HUnit cell pos n => (if unit_side cell pos then "+" else "-") ++ show_Z n
  | HCompl l nd =>
      let lp := match nd with Some (lp, _) => lp | None => false end in
      let k := match nd with Some (_, lk) => link_k lk | None => 0%nat end in
      (if lp then "(#p " else "(# ") ++ wrap_show k (show_nodes l) ++ ")"
  | HBin op l r nd =>
      let kl := match nd with Some (ll, _) => link_k ll | None => 0%nat end in
      let kr := match nd with Some (_, rl) => link_k rl | None => 0%nat end in
      (match op with OInter => "(* " | OUnion => "(: " end)
        ++ wrap_show kl (show_nodes l) ++ " " ++ wrap_show kr (show_nodes r) ++ ")"
  end.

(* "@LRXU": path L R, edit XU *)
Fixpoint parse_at (s : string) (path : list bool) : option instr :=
  match s with
  | "XI" => Some (IAt (rev path) (AtSetOp OInter))
  | "XU" => Some (IAt (rev path) (AtSetOp OUnion))
  | "SL" => Some (IAt (rev path) AtSetL)
  | "SR" => Some (IAt (rev path) AtSetR)
  | "IA" => Some (IAt (rev path) (AtIop OInter))
  | "IO" => Some (IAt (rev path) (AtIop OUnion))
  | String "L" r => parse_at r (false :: path)
  | String "R" r => parse_at r (true :: path)
  | _ => None
  end.

Definition parse_instr (s : string) : option instr :=
  match s with
  | String "@" r => parse_at r []
  | "b" => Some IBase
  | "A" => Some IAnd
  | "O" => Some IOr
  | "N" => Some INot
  | "IA" => Some IIand
  | "IO" => Some IIor
  | "SL" => Some ISetL
  | "SR" => Some ISetR
  | "XI" => Some (ISetOp OInter)
  | "XU" => Some (ISetOp OUnion)
  | "W" => Some IWrite
  | String "p" r => option_map (ISurf true) (parse_Z r)
  | String "n" r => option_map (ISurf false) (parse_Z r)
  | String "c" r => option_map ICell (parse_Z r)
  | _ => None
  end.

Definition show_perr (e : perr) : string :=
  match e with EStack => "err:stack" | EGuard => "err:guard" | ENoBase => "err:nobase" end.

(* requests:
     "case <base tokens|-> <program|->"   ->  "<written tokens>|<object dump>|<str()>|<syntax nodes after the write>"
     "tree <tokens>"                      ->  dump of the syntax tree the actions build
     "parse <tokens>"                     ->  the Boolean expression of the reference grammar
     "unedited <tokens>"                  ->  tokens written for the parsed, unedited cell *)
Definition run_Geom (req : string) : string :=
  match words req with
  | ["case"; b; p] =>
      match parse_list parse_tok b, parse_list parse_instr p with
      | Some bt, Some prog =>
          let base := if String.eqb b "-" then Some None
                      else match tparse bt with Some t => Some (Some t) | None => None end in
          match base with
          | None => "noparse"
          | Some base =>
              match run_case base prog with
              | inl e => show_perr e
              | inr (h, toks) =>
                  show_list show_tok toks ++ "|" ++ show_hs h ++ "|" ++ str_hs h ++ "|"
                    ++ show_nodes (update_values h)
              end
          end
      | _, _ => "parse:err"
      end
  | ["tree"; b] =>
      match parse_list parse_tok b with
      | Some bt => match tparse bt with Some t => show_tree t | None => "noparse" end
      | None => "parse:err"
      end
  | ["parse"; b] =>
      match parse_list parse_tok b with
      | Some bt => match gparse bt with Some e => show_bexp e | None => "noparse" end
      | None => "parse:err"
      end
  | ["unedited"; b] =>
      match parse_list parse_tok b with
      | Some bt => match tparse bt with
                   | Some t => show_list show_tok (cell_tokens (parse_cell t))
                   | None => "noparse"
                   end
      | None => "parse:err"
      end
  | _ => "parse:err"
  end.
