(* Tree.v — executable model of the syntax-tree formatting layer of
   montepy/input_parser/syntax_node.py: the text that is written for one input is
   [format] of its tree.  Modelled: ValueNode.format's short circuit (an unchanged value
   echoes its token and padding; a changed value prints its new rendering, which is an
   input of this model — the rendering itself is Model/Num.v's business), PaddingNode /
   CommentNode / ClassifierNode / ParametersNode / GeometryTree / IsotopesNode.format (plain
   concatenation in field order), SyntaxNode.format (skips value leaves whose value is
   None), ListNode.format (a value without padding that is followed by another node gets a
   one-blank padding — an in-place MUTATION of the tree, hence format is state-passing), and
   the file writer's block structure (MCNP_Problem.write_to_file).
   Opaque leaves (ShortcutNode, ParticleNode) carry their formatted text.  No proofs here. *)
From Coq Require Import List String Ascii Arith Bool Lia.
From MPV Require Import Model.Wire.
Import ListNotations.
Open Scope string_scope.

Inductive node :=
| NV (tok : string) (pad : option string) (never_pad : bool) (has_value : bool) (edit : option string)
| NP (text : string)
| NO (text : string)
| NS (children : list node)      (* SyntaxNode: dict in insertion order *)
| NL (children : list node)      (* ListNode *)
| NC (children : list node).     (* any other container: concatenation in field order *)

Definition opt_str (o : option string) : string := match o with Some s => s | None => "" end.

(* the original text the tree was parsed from *)
Fixpoint flatten (n : node) : string :=
  match n with
  | NV tok pad _ _ _ => tok ++ opt_str pad
  | NP t => t
  | NO t => t
  | NS cs | NL cs | NC cs => String.concat "" (map flatten cs)
  end.

Definition is_P (n : node) : bool := match n with NP _ => true | _ => false end.

(* ListNode.format's padding repair on child i, given the next sibling (if any) *)
Definition padfix (n : node) (next : option node) : node :=
  match n, next with
  | NV tok None false hv ed, Some nx => if is_P nx then n else NV tok (Some " ") false hv ed
  | _, _ => n
  end.

Definition fmt_leaf (tok : string) (pad : option string) (ed : option string) : string :=
  match ed with
  | None => tok ++ opt_str pad
  | Some r => r
  end.

(* format : text * tree-after-format *)
Fixpoint format (n : node) : string * node :=
  match n with
  | NV tok pad np hv ed => (fmt_leaf tok pad ed, n)
  | NP t => (t, n)
  | NO t => (t, n)
  | NS cs =>
      let fix go (l : list node) : string * list node :=
        match l with
        | [] => ("", [])
        | x :: r =>
            let (sr, r') := go r in
            match x with
            | NV _ _ _ false _ => (sr, x :: r')            (* value is None: not printed *)
            | _ => let (sx, x') := format x in (sx ++ sr, x' :: r')
            end
        end in
      let (s, cs') := go cs in (s, NS cs')
  | NL cs =>
      let fix go (l : list node) : string * list node :=
        match l with
        | [] => ("", [])
        | x :: r =>
            let (sr, r') := go r in
            match x with
            | NV tok pad np hv ed =>           (* a leaf: format is not recursive *)
                match padfix x (hd_error r) with
                | NV tok1 pad1 np1 hv1 ed1 as x1 => (fmt_leaf tok1 pad1 ed1 ++ sr, x1 :: r')
                | x1 => (sr, x1 :: r')         (* unreachable: padfix keeps a leaf a leaf *)
                end
            | _ => let (sx, x') := format x in (sx ++ sr, x' :: r')
            end
        end in
      let (s, cs') := go cs in (s, NL cs')
  | NC cs =>
      let fix go (l : list node) : string * list node :=
        match l with
        | [] => ("", [])
        | x :: r =>
            let (sx, x') := format x in
            let (sr, r') := go r in
            (sx ++ sr, x' :: r')
        end in
      let (s, cs') := go cs in (s, NC cs')
  end.

(* no leaf carries an edit *)
Fixpoint unedited (n : node) : bool :=
  match n with
  | NV _ _ _ _ ed => match ed with None => true | Some _ => false end
  | NP _ | NO _ => true
  | NS cs | NL cs | NC cs => forallb unedited cs
  end.

(* the tree is "as parsed": every value that is printed has a value, and no ListNode child needs
   the padding repair (true of every parsed tree: checked per case by the correspondence) *)
Fixpoint as_parsed (n : node) : bool :=
  match n with
  | NV _ _ _ _ _ | NP _ | NO _ => true
  | NS cs =>
      forallb (fun x => match x with NV tok pad _ false _ => String.eqb (tok ++ opt_str pad) "" | _ => as_parsed x end) cs
  | NL cs =>
      (fix go (l : list node) : bool :=
         match l with
         | [] => true
         | x :: r => andb (andb (as_parsed x)
                        (match x, r with
                         | NV _ None false _ _, nx :: _ => is_P nx
                         | _, _ => true
                         end)) (go r)
         end) cs
  | NC cs => forallb as_parsed cs
  end.

(* editing the leaf at a path (list of child indices): the new rendering is [r] *)
Fixpoint set_leaf (path : list nat) (r : string) (n : node) {struct path} : node :=
  match path with
  | [] => match n with
          | NV tok pad np hv _ => NV tok pad np true (Some r)
          | _ => n
          end
  | i :: p =>
      let upd := fix upd (l : list node) (k : nat) : list node :=
                   match l, k with
                   | [], _ => []
                   | x :: rest, 0 => set_leaf p r x :: rest
                   | x :: rest, Datatypes.S k' => x :: upd rest k'
                   end in
      match n with
      | NS cs => NS (upd cs i)
      | NL cs => NL (upd cs i)
      | NC cs => NC (upd cs i)
      | _ => n
      end
  end.

(* the text of the leaf at a path in the formatted output, with what precedes and follows it:
   used to state locality *)
Fixpoint leaf_at (path : list nat) (n : node) : option node :=
  match path with
  | [] => match n with NV _ _ _ _ _ => Some n | _ => None end
  | i :: p => match n with
              | NS cs | NL cs | NC cs => match nth_error cs i with Some c => leaf_at p c | None => None end
              | _ => None
              end
  end.

(* ------------------------------------------------------------------ *)
(* the file writer: message, title, three blocks each ended by one blank line, child cards of the
   cell modifiers inside the data block, one more blank line at the very end *)
Definition write_lines (message : list string) (title : string)
           (cells surfaces data children : list (list string)) : list string :=
  message ++ [title] ++ List.concat cells ++ [""] ++ List.concat surfaces ++ [""]
          ++ List.concat data ++ List.concat children ++ [""] ++ [""].

Definition blank_line (l : string) : bool :=
  (fix go (s : string) : bool :=
     match s with EmptyString => true | String a r => andb (Ascii.eqb a " "%char) (go r) end) l.

(* MCNP rule S4: blocks are separated by blank lines *)
Fixpoint split_blocks (ls : list string) (cur : list string) : list (list string) :=
  match ls with
  | [] => [rev cur]
  | l :: r => if blank_line l then rev cur :: split_blocks r [] else split_blocks r (l :: cur)
  end.

(* ------------------------------------------------------------------ *)
(* wire: prefix notation, fields separated by blanks:
     V <tokhex|-> <N|padhex|-> <np> <hv> <-|edithex>   P <hex|->   O <hex|->   S n ...   L n ...   C n ...  *)
Definition unhex (s : string) : string := if String.eqb s "-" then "" else hex_decode s.

Fixpoint parse_nodes (fuel : nat) (ws : list string) (k : nat) : option (list node * list string) :=
  match k with
  | 0 => Some ([], ws)
  | Datatypes.S k' =>
      match fuel with
      | 0 => None
      | Datatypes.S f =>
          match ws with
          | "V" :: tok :: pad :: np :: hv :: ed :: rest =>
              let n := NV (unhex tok) (if String.eqb pad "N" then None else Some (unhex pad))
                          (String.eqb np "1") (String.eqb hv "1")
                          (if String.eqb ed "-" then None else Some (unhex (substring 1 (String.length ed) ed))) in
              match parse_nodes f rest k' with Some (ns, rest') => Some (n :: ns, rest') | None => None end
          | "P" :: t :: rest =>
              match parse_nodes f rest k' with Some (ns, rest') => Some (NP (unhex t) :: ns, rest') | None => None end
          | "O" :: t :: rest =>
              match parse_nodes f rest k' with Some (ns, rest') => Some (NO (unhex t) :: ns, rest') | None => None end
          | tag :: cnt :: rest =>
              match parse_nat cnt with
              | Some c =>
                  match parse_nodes f rest c with
                  | Some (cs, rest1) =>
                      let n := if String.eqb tag "S" then Some (NS cs)
                               else if String.eqb tag "L" then Some (NL cs)
                               else if String.eqb tag "C" then Some (NC cs) else None in
                      match n, parse_nodes f rest1 k' with
                      | Some n, Some (ns, rest') => Some (n :: ns, rest')
                      | _, _ => None
                      end
                  | None => None
                  end
              | None => None
              end
          | _ => None
          end
      end
  end.

(* request: "fmt <tree>" -> hex(format) ; "fmt2 <tree>" -> hex(format of the tree left by format) ;
            "flat <tree>" -> hex(flatten) ; "parsed <tree>" -> 0/1 *)
Definition run_Tree (req : string) : string :=
  match words req with
  | cmd :: ws =>
      match parse_nodes (Datatypes.S (List.length ws)) ws 1 with
      | Some ([t], []) =>
          if String.eqb cmd "fmt" then hex_encode (fst (format t))
          else if String.eqb cmd "fmt2" then hex_encode (fst (format (snd (format t))))
          else if String.eqb cmd "flat" then hex_encode (flatten t)
          else if String.eqb cmd "parsed" then (if as_parsed t then "1" else "0")
          else "parse:cmd"
      | _ => "parse:tree"
      end
  | _ => "parse:empty"
  end.
