(* Tree.v — executable model of the syntax-tree formatting layer of
   montepy/input_parser/syntax_node.py and of the code that assembles the written text from it
   (montepy/cell.py: Cell.format_for_mcnp_input, montepy/data_inputs/importance.py: the per-particle
   trees of a cell's importance, montepy/mcnp_problem.py: write_to_file's block layout).

   The text that is written for one input is [format] of its tree.  Formatting MUTATES the tree in the
   source (ListNode.format repairs missing padding, ValueNode.format fixes the field width it reverse
   engineers from the token the first time a changed value is written, ParticleNode.format normalises the
   order of its particles), so [format] is state passing: it returns the text and the tree it leaves.

   Modelled:
     ValueNode.format         short circuit for an unchanged value (token + padding); for a changed value the
                              field logic: left-justify the new rendering to value_length, keep / add / drop
                              the separating blank, then the rest of the padding.  The rendering of the new
                              value itself ([edit], "temp" in the source) is an INPUT of this model: how a
                              number is spelled is Model/Num.v's business (property C05)
     ValueNode.value setter   _check_if_needs_end_padding (a value that was None gets a blank)
     PaddingNode / CommentNode / ClassifierNode / ParametersNode / GeometryTree / IsotopesNode.format
                              concatenation in field order
     SyntaxNode.format        skips value leaves whose value is None
     ListNode.format          padding repair of a value followed by another node; a blank after a shortcut
                              that does not end in white space and is not the last node
     ParticleNode.format      ':' + particles in the remembered order, stragglers appended, removed ones dropped
     Cell.format_for_mcnp_input  the parameter loop with cleanup_last_line and the removal of a dangling '&'
     Importance               one tree shared by the particles of 'imp:n,p=1'; __setitem__ with _unshare_tree
     MCNP_Problem.write_to_file  block layout
   Opaque (carry their formatted text): ShortcutNode (property C08).  NOT modelled: the LALR parsers and the
   object constructors (hypothesis [as_parsed] / [Lossless], validated per case by the correspondence), line
   wrapping (Model/Wrap.v, property C10).  No proofs here. *)
From Coq Require Import List String Ascii Arith Bool Lia.
From MPV Require Import Model.Wire.
Import ListNotations.
Open Scope string_scope.

(* ------------------------------------------------------------------ *)
(* strings *)
Definition nl : string := String (ascii_of_nat 10) "".

Definition is_ws (a : ascii) : bool :=                      (* str.isspace() / what str.strip() removes *)
  let n := nat_of_ascii a in orb (Nat.eqb n 32) (andb (Nat.leb 9 n) (Nat.leb n 13)).

Fixpoint all_ws (s : string) : bool :=                      (* len(s.strip()) == 0 *)
  match s with EmptyString => true | String a r => andb (is_ws a) (all_ws r) end.

Fixpoint last_char (s : string) : option ascii :=
  match s with
  | EmptyString => None
  | String a EmptyString => Some a
  | String _ r => last_char r
  end.

Definition ends_ws (s : string) : bool :=                   (* s and s[-1].isspace() *)
  match last_char s with Some a => is_ws a | None => false end.

Fixpoint spaces (n : nat) : string :=
  match n with 0 => "" | Datatypes.S k => String " "%char (spaces k) end.

Definition ljust (s : string) (w : nat) : string := s ++ spaces (w - String.length s).   (* "{s:<{w}}" *)

(* ------------------------------------------------------------------ *)
(* trees *)
Inductive piece := PS (s : string) | PC (s : string).       (* PaddingNode.nodes: str | CommentNode *)

Definition piece_text (p : piece) : string := match p with PS s | PC s => s end.
Definition pad_text (ps : list piece) : string := String.concat "" (map piece_text ps).
Definition opad_text (o : option (list piece)) : string := match o with Some ps => pad_text ps | None => "" end.

(* PaddingNode.is_space(i) *)
Definition is_space_piece (p : piece) : bool :=
  match p with PS s => andb (all_ws s) (negb (String.eqb s nl)) | PC _ => false end.

Inductive node :=
| NV (tok : string) (pad : option (list piece)) (never_pad : bool) (has_value : bool)
     (edit : option string)          (* Some temp: the value changed, temp is the rendering of the new value *)
     (vlen : option nat)             (* _formatter["value_length"] once _reverse_engineer_formatting has run *)
| NP (ps : list piece)
| NO (text : string)                 (* opaque leaf *)
| NK (text : string)                 (* ShortcutNode: opaque, but ListNode.format treats it specially *)
| NT (upper : bool) (order : list string) (parts : list string)   (* ParticleNode: _order, particles (sorted) *)
| NS (children : list node)          (* SyntaxNode: dict in insertion order *)
| NL (children : list node)          (* ListNode *)
| NC (children : list node).         (* any other container: concatenation in field order *)

(* str.upper() / str.lower() on ASCII letters *)
Definition case_char (up : bool) (a : ascii) : ascii :=
  let n := nat_of_ascii a in
  if up then (if andb (Nat.leb 97 n) (Nat.leb n 122) then ascii_of_nat (n - 32) else a)
  else (if andb (Nat.leb 65 n) (Nat.leb n 90) then ascii_of_nat (n + 32) else a).
Fixpoint case_str (up : bool) (s : string) : string :=
  match s with EmptyString => EmptyString | String a r => String (case_char up a) (case_str up r) end.

(* ParticleNode.format: ':' and the particle designators in upper or lower case *)
Definition particles_text (upper : bool) (ps : list string) : string :=
  ":" ++ join "," (map (case_str upper) ps).

Fixpoint flatten (n : node) : string :=
  match n with
  | NV tok pad _ _ _ _ => tok ++ opad_text pad
  | NP ps => pad_text ps
  | NO t => t
  | NK t => t
  | NT up order _ => particles_text up order
  | NS cs | NL cs | NC cs => String.concat "" (map flatten cs)
  end.

Definition is_P (n : node) : bool := match n with NP _ => true | _ => false end.

(* ---- ValueNode.format *)
Definition value_length (tok : string) (pad : option (list piece)) : nat :=
  String.length tok +
  match pad with
  | Some (p0 :: _) => if is_space_piece p0 then String.length (piece_text p0) else 0
  | _ => 0
  end.

(* "a saving space later on": the second padding element is blank or a line break *)
Definition saving_space (rest : list piece) : bool :=
  match rest with
  | PS s :: _ => orb (andb (all_ws s) (negb (String.eqb s nl))) (String.eqb s nl)
  | _ => false
  end.

Definition fmt_changed (temp : string) (vl : nat) (pad : option (list piece)) : string :=
  match pad with
  | Some (p0 :: rest) =>
      if is_space_piece p0 then
        ljust temp vl
        ++ (if andb (Nat.leb vl (String.length temp)) (negb (saving_space rest)) then " " else "")
        ++ pad_text rest
      else ljust temp vl ++ pad_text (p0 :: rest)
  | _ => ljust temp vl
  end.

Definition eff_vlen (tok : string) (pad : option (list piece)) (vl : option nat) : nat :=
  match vl with Some v => v | None => value_length tok pad end.

Definition fmt_leaf (tok : string) (pad : option (list piece)) (hv : bool) (ed : option string)
           (vl : option nat) : string :=
  match ed with
  | None => tok ++ opad_text pad
  | Some temp => if hv then fmt_changed temp (eff_vlen tok pad vl) pad else ""
  end.

(* the formatter state after a format: a changed value that is written fixes its field width *)
Definition vlen_after (tok : string) (pad : option (list piece)) (hv : bool) (ed : option string)
           (vl : option nat) : option nat :=
  match ed with
  | Some _ => if hv then Some (eff_vlen tok pad vl) else vl
  | None => vl
  end.

Definition fmt_V (tok : string) (pad : option (list piece)) (np hv : bool) (ed : option string) (vl : option nat)
  : string * node :=
  (fmt_leaf tok pad hv ed vl, NV tok pad np hv ed (vlen_after tok pad hv ed vl)).

(* ---- ListNode.format's padding repair on child i, given the next sibling (if any) *)
Definition padfix (n : node) (next : option node) : node :=
  match n, next with
  | NV tok None false hv ed vl, Some nx => if is_P nx then n else NV tok (Some [PS " "]) false hv ed vl
  | _, _ => n
  end.

(* ---- ParticleNode._particles_sorted: remembered order without the removed ones, then the new ones *)
Definition mem_str (x : string) (l : list string) : bool := existsb (String.eqb x) l.
Definition particles_sorted (order parts : list string) : list string :=
  filter (fun p => mem_str p parts) order ++ filter (fun p => negb (mem_str p order)) parts.

(* ---- ListNode.format: a shortcut that is not the last node is followed by white space *)
Definition shortcut_sep (text : string) (last : bool) : string :=
  if last then "" else if String.eqb text "" then "" else if ends_ws text then "" else " ".

(* format : text * tree-after-format *)
Fixpoint format (n : node) : string * node :=
  match n with
  | NV tok pad np hv ed vl => fmt_V tok pad np hv ed vl
  | NP ps => (pad_text ps, n)
  | NO t => (t, n)
  | NK t => (t, n)
  | NT up order parts =>
      let o := particles_sorted order parts in (particles_text up o, NT up o parts)
  | NS cs =>
      let fix go (l : list node) : string * list node :=
        match l with
        | [] => ("", [])
        | x :: r =>
            let (sr, r') := go r in
            match x with
            | NV _ _ _ false _ _ => (sr, x :: r')          (* value is None: not printed *)
            | _ => let (sx, x') := format x in (sx ++ sr, x' :: r')
            end
        end in
      let (s, cs') := go cs in (s, NS cs')
  | NL cs =>
      let fix go (l : list node) : string * list node :=
        match l with
        | [] => ("", [])
        | x :: r =>
            let (sr, r') := go r in
            match x with
            | NV _ _ _ _ _ _ =>                 (* a leaf: format is not recursive *)
                match padfix x (hd_error r) with
                | NV tok1 pad1 np1 hv1 ed1 vl1 =>
                    let (sx, x') := fmt_V tok1 pad1 np1 hv1 ed1 vl1 in (sx ++ sr, x' :: r')
                | x1 => (sr, x1 :: r')         (* unreachable: padfix keeps a leaf a leaf *)
                end
            | NK t => (t ++ shortcut_sep t (match r with [] => true | _ => false end) ++ sr, x :: r')
            | _ => let (sx, x') := format x in (sx ++ sr, x' :: r')
            end
        end in
      let (s, cs') := go cs in (s, NL cs')
  | NC cs =>
      let fix go (l : list node) : string * list node :=
        match l with
        | [] => ("", [])
        | x :: r =>
            let (sx, x') := format x in
            let (sr, r') := go r in
            (sx ++ sr, x' :: r')
        end in
      let (s, cs') := go cs in (s, NC cs')
  end.

(* no leaf carries an edit *)
Fixpoint unedited (n : node) : bool :=
  match n with
  | NV _ _ _ _ ed _ => match ed with None => true | Some _ => false end
  | NP _ | NO _ | NK _ | NT _ _ _ => true
  | NS cs | NL cs | NC cs => forallb unedited cs
  end.

Definition all_in (l m : list string) : bool := forallb (fun x => mem_str x m) l.

(* the tree is "as parsed": a value that is None in a SyntaxNode has no text, no ListNode child needs the
   padding repair, a shortcut inside a list is followed by white space, a ParticleNode lists exactly its
   particles (true of every parsed tree: checked per case by the correspondence) *)
Fixpoint as_parsed (n : node) : bool :=
  match n with
  | NV _ _ _ _ _ _ | NP _ | NO _ | NK _ => true
  | NT _ order parts => andb (all_in order parts) (all_in parts order)
  | NS cs =>
      forallb (fun x => match x with
                        | NV tok pad _ false _ _ => String.eqb (tok ++ opad_text pad) ""
                        | _ => as_parsed x end) cs
  | NL cs =>
      (fix go (l : list node) : bool :=
         match l with
         | [] => true
         | x :: r => andb (andb (as_parsed x)
                        (match x, r with
                         | NV _ None false _ _ _, nx :: _ => is_P nx
                         | NK t, _ :: _ => orb (String.eqb t "") (ends_ws t)
                         | _, _ => true
                         end)) (go r)
         end) cs
  | NC cs => forallb as_parsed cs
  end.

(* ---- editing the leaf at a path (list of child indices): the new rendering is [r].
   ValueNode.value setter: a value that was None gets a blank after it unless it may never be padded *)
Definition set_value (n : node) (r : string) : node :=
  match n with
  | NV tok pad np hv _ vl =>
      let pad' := match pad, np, hv with None, false, false => Some [PS " "] | _, _, _ => pad end in
      NV tok pad' np true (Some r) vl
  | _ => n
  end.

Fixpoint set_leaf (path : list nat) (r : string) (n : node) {struct path} : node :=
  match path with
  | [] => set_value n r
  | i :: p =>
      let upd := fix upd (l : list node) (k : nat) : list node :=
                   match l, k with
                   | [], _ => []
                   | x :: rest, 0 => set_leaf p r x :: rest
                   | x :: rest, Datatypes.S k' => x :: upd rest k'
                   end in
      match n with
      | NS cs => NS (upd cs i)
      | NL cs => NL (upd cs i)
      | NC cs => NC (upd cs i)
      | _ => n
      end
  end.

Fixpoint leaf_at (path : list nat) (n : node) : option node :=
  match path with
  | [] => match n with NV _ _ _ _ _ _ => Some n | _ => None end
  | i :: p => match n with
              | NS cs | NL cs | NC cs => match nth_error cs i with Some c => leaf_at p c | None => None end
              | _ => None
              end
  end.

(* a program of edits, applied in order *)
Definition apply_edits (es : list (list nat * string)) (n : node) : node :=
  fold_left (fun t e => set_leaf (fst e) (snd e) t) es n.

(* ---- a problem as the list of the trees of its inputs; an edit names the input and the leaf *)
Definition format_all (cards : list node) : list string := map (fun c => fst (format c)) cards.

Fixpoint edit_card (cards : list node) (k : nat) (path : list nat) (r : string) : list node :=
  match cards, k with
  | [], _ => []
  | c :: rest, 0 => set_leaf path r c :: rest
  | c :: rest, Datatypes.S k' => c :: edit_card rest k' path r
  end.

Definition apply_card_edits (es : list (nat * list nat * string)) (cards : list node) : list node :=
  fold_left (fun cs e => edit_card cs (fst (fst e)) (snd (fst e)) (snd e)) es cards.

(* ------------------------------------------------------------------ *)
(* Cell.format_for_mcnp_input: the parameter loop *)

(* the last line of str.splitlines(): the text after the last line break, or, when the text ends with a
   line break, the line before it *)
Fixpoint last_line_aux (s : string) (cur prev : string) (fresh : bool) : string :=
  match s with
  | EmptyString => if fresh then prev else cur
  | String a r =>
      if Nat.eqb (nat_of_ascii a) 10 then last_line_aux r "" cur true
      else last_line_aux r (cur ++ String a "") prev false
  end.
Definition last_line (s : string) : string := last_line_aux s "" "" false.

Fixpoint has_char (c : ascii) (s : string) : bool :=
  match s with EmptyString => false | String a r => orb (Ascii.eqb a c) (has_char c r) end.

Fixpoint lstrip_ws (s : string) : string :=
  match s with String a r => if is_ws a then lstrip_ws r else s | EmptyString => EmptyString end.

Fixpoint rstrip_ws (s : string) : string :=
  match s with
  | EmptyString => EmptyString
  | String a r => let r' := rstrip_ws r in
                  match r' with EmptyString => if is_ws a then EmptyString else String a EmptyString
                           | _ => String a r' end
  end.

Definition is_c (a : ascii) : bool := orb (Ascii.eqb a "c"%char) (Ascii.eqb a "C"%char).

(* montepy.utilities.is_comment on a line without a line break *)
Definition is_comment_line (line : string) : bool :=
  let start := substring 0 6 line in
  let l := lstrip_ws line in
  orb (andb (negb (String.eqb start ""))
            (match l with String a (String b _) => andb (is_c a) (Ascii.eqb b " "%char) | _ => false end))
      (match start with String a EmptyString => is_c a | _ => false end).

Definition ends_amp (line : string) : bool :=               (* line.rstrip().endswith("&") *)
  match last_char (rstrip_ws line) with Some a => Ascii.eqb a "&"%char | None => false end.

Definition ends_nl (s : string) : bool :=
  match last_char s with Some a => Nat.eqb (nat_of_ascii a) 10 | None => false end.

Definition cont5 : string := "     ".

Definition cleanup_last_line (ret : string) : string :=
  let ll := last_line ret in
  if orb (is_comment_line ll) (has_char "$"%char ll) then
    (if ends_nl ret then ret ++ cont5 else ret ++ nl ++ cont5)
  else if ends_amp ll then ret ++ nl ++ cont5
  else if ends_ws ll then ret else ret ++ " ".     (* last_line[-1].isspace(); an empty last line cannot occur *)

(* the parts of a cell in the order of its tree: the nodes before the parameters are formatted as they are,
   every parameter after cleanup_last_line; a modifier contributes the text of its own object *)
Inductive cpart :=
| CNode (n : node)
| CParam (n : node)
| CMod (text : string).

Fixpoint cell_loop (parts : list cpart) (ret : string) : string :=
  match parts with
  | [] => ret
  | CNode n :: r => cell_loop r (ret ++ fst (format n))
  | CParam n :: r => cell_loop r (cleanup_last_line ret ++ fst (format n))
  | CMod t :: r => cell_loop r (cleanup_last_line ret ++ t)
  end.

(* a continuation marker on the last line of data would make the next input a part of this one *)
Fixpoint split_nl_aux (s cur : string) : list string :=
  match s with
  | EmptyString => [cur]
  | String a r => if Nat.eqb (nat_of_ascii a) 10 then cur :: split_nl_aux r "" else split_nl_aux r (cur ++ String a "")
  end.
Definition split_nl (s : string) : list string := split_nl_aux s "".      (* s.split("\n") *)

Fixpoint drop_last_char (s : string) : string :=
  match s with
  | EmptyString => EmptyString
  | String _ EmptyString => EmptyString
  | String a r => String a (drop_last_char r)
  end.

(* lines in REVERSE order: the first line that is data loses its trailing '&' *)
Fixpoint drop_amp_rev (rl : list string) : list string :=
  match rl with
  | [] => []
  | l :: r =>
      if andb (negb (all_ws l)) (negb (is_comment_line l)) then
        (if ends_amp l then drop_last_char (rstrip_ws l) else l) :: r
      else l :: drop_amp_rev r
  end.

Definition drop_dangling_amp (ret : string) : string :=
  join nl (rev (drop_amp_rev (rev (split_nl ret)))).

Definition cell_text (parts : list cpart) : string := drop_dangling_amp (cell_loop parts "").

(* ------------------------------------------------------------------ *)
(* Importance of one cell: Importance._particle_importances maps a particle to a syntax tree; the particles
   of one parameter 'imp:n,p=1' are mapped to ONE tree.  A tree is abstracted to the particles of its
   classifier and the text of its value. *)
Record imp_tree := { it_parts : list string; it_value : string }.
Record imp_state := { trees : list imp_tree; owner : list (string * nat) }.   (* particle -> index in trees *)

Fixpoint lookup (p : string) (o : list (string * nat)) : option nat :=
  match o with
  | [] => None
  | (q, i) :: r => if String.eqb p q then Some i else lookup p r
  end.

Definition imp_get (st : imp_state) (p : string) : option string :=
  match lookup p (owner st) with
  | Some i => option_map it_value (nth_error (trees st) i)
  | None => None
  end.

Fixpoint set_nth {A} (l : list A) (i : nat) (x : A) : list A :=
  match l, i with
  | [], _ => []
  | _ :: r, 0 => x :: r
  | y :: r, Datatypes.S k => y :: set_nth r k x
  end.

Definition shares (st : imp_state) (p : string) (i : nat) : bool :=
  existsb (fun qi => andb (negb (String.eqb (fst qi) p)) (Nat.eqb (snd qi) i)) (owner st).

(* _unshare_tree rebuilds the dict: the particle gets its new tree (index [new]) directly before the first
   particle of the tree [i] it was split from, and its old entry is dropped *)
Fixpoint set_owner (o : list (string * nat)) (p : string) (i new : nat) (placed : bool) : list (string * nat) :=
  match o with
  | [] => []
  | (q, j) :: r =>
      let here := andb (Nat.eqb j i) (negb placed) in
      ((if here then [(p, new)] else []) ++ (if String.eqb p q then [] else [(q, j)])
       ++ set_owner r p i new (orb placed here))%list
  end.

(* the code before 11534b6: the value node of the (possibly shared) tree is overwritten *)
Definition imp_set_old (st : imp_state) (p v : string) : imp_state :=
  match lookup p (owner st) with
  | Some i => match nth_error (trees st) i with
              | Some t => {| trees := set_nth (trees st) i {| it_parts := it_parts t; it_value := v |};
                             owner := owner st |}
              | None => st
              end
  | None => st
  end.

(* the current code: _unshare_tree gives the particle a tree of its own first *)
Definition imp_set (st : imp_state) (p v : string) : imp_state :=
  match lookup p (owner st) with
  | Some i =>
      match nth_error (trees st) i with
      | Some t =>
          if shares st p i then
            let t_old := {| it_parts := filter (fun q => negb (String.eqb q p)) (it_parts t);
                            it_value := it_value t |} in
            let t_new := {| it_parts := [p]; it_value := v |} in
            {| trees := (set_nth (trees st) i t_old ++ [t_new])%list;
               owner := set_owner (owner st) p i (List.length (trees st)) false |}
          else
            {| trees := set_nth (trees st) i {| it_parts := it_parts t; it_value := v |};
               owner := owner st |}
      | None => st
      end
  | None => st
  end.

(* Importance._format_tree in a cell: the trees in the order of the dict, each one once *)
Fixpoint written_idx (o : list (string * nat)) (seen : list nat) : list nat :=
  match o with
  | [] => []
  | (_, i) :: r => if existsb (Nat.eqb i) seen then written_idx r seen else i :: written_idx r (i :: seen)
  end.
Definition imp_written (st : imp_state) : list imp_tree :=
  flat_map (fun i => match nth_error (trees st) i with Some t => [t] | None => [] end)
           (written_idx (owner st) []).

(* what the written parameters 'imp:<parts>=<value>' say about a particle: the first tree that lists it *)
Fixpoint imp_denote (ts : list imp_tree) (p : string) : option string :=
  match ts with
  | [] => None
  | t :: r => if mem_str p (it_parts t) then Some (it_value t) else imp_denote r p
  end.

(* owner and classifier particles agree: particle p is owned by tree i iff tree i lists p, and no particle is
   listed by two trees *)
Definition imp_wf (st : imp_state) : Prop :=
  (forall p i, lookup p (owner st) = Some i ->
     exists t, nth_error (trees st) i = Some t /\ mem_str p (it_parts t) = true) /\
  (forall p i j t u, nth_error (trees st) i = Some t -> nth_error (trees st) j = Some u ->
     mem_str p (it_parts t) = true -> mem_str p (it_parts u) = true -> i = j) /\
  (forall p i t, nth_error (trees st) i = Some t -> mem_str p (it_parts t) = true ->
     lookup p (owner st) = Some i).

(* ------------------------------------------------------------------ *)
(* the file writer: message, title, three blocks each ended by one blank line, child cards of the
   cell modifiers inside the data block, one more blank line at the very end *)
Definition write_lines (message : list string) (title : string)
           (cells surfaces data children : list (list string)) : list string :=
  message ++ [title] ++ List.concat cells ++ [""] ++ List.concat surfaces ++ [""]
          ++ List.concat data ++ List.concat children ++ [""] ++ [""].

Definition blank_line (l : string) : bool :=
  (fix go (s : string) : bool :=
     match s with EmptyString => true | String a r => andb (Ascii.eqb a " "%char) (go r) end) l.

(* MCNP rule S4: blocks are separated by blank lines *)
Fixpoint split_blocks (ls : list string) (cur : list string) : list (list string) :=
  match ls with
  | [] => [rev cur]
  | l :: r => if blank_line l then rev cur :: split_blocks r [] else split_blocks r (l :: cur)
  end.

(* ------------------------------------------------------------------ *)
(* wire: prefix notation, fields separated by blanks:
     V <tokhex|-> <N|pieces> <np> <hv> <-|Ehex> <N|nat>     pieces: comma separated s<hex>|c<hex>, "-" = no piece
     P <pieces>   O <hex|->   K <hex|->   T <0|1> <order: comma separated hex|-> <parts>
     S n ...   L n ...   C n ...  *)
Definition unhex (s : string) : string := if String.eqb s "-" then "" else hex_decode s.

Definition parse_piece (w : string) : option piece :=
  match w with
  | String "s"%char h => Some (PS (hex_decode h))
  | String "c"%char h => Some (PC (hex_decode h))
  | _ => None
  end.
Definition parse_pieces (w : string) : option (list piece) := parse_list parse_piece w.
Definition parse_strs (w : string) : option (list string) := parse_list (fun h => Some (hex_decode h)) w.

Fixpoint parse_nodes (fuel : nat) (ws : list string) (k : nat) : option (list node * list string) :=
  match k with
  | 0 => Some ([], ws)
  | Datatypes.S k' =>
      match fuel with
      | 0 => None
      | Datatypes.S f =>
          match ws with
          | "V" :: tok :: pad :: np :: hv :: ed :: vl :: rest =>
              match (if String.eqb pad "N" then Some None else option_map Some (parse_pieces pad)),
                    (if String.eqb vl "N" then Some None else option_map Some (parse_nat vl)) with
              | Some pad', Some vl' =>
                  let n := NV (unhex tok) pad' (String.eqb np "1") (String.eqb hv "1")
                              (if String.eqb ed "-" then None else Some (unhex (substring 1 (String.length ed) ed)))
                              vl' in
                  match parse_nodes f rest k' with Some (ns, rest') => Some (n :: ns, rest') | None => None end
              | _, _ => None
              end
          | "P" :: t :: rest =>
              match parse_pieces t, parse_nodes f rest k' with
              | Some ps, Some (ns, rest') => Some (NP ps :: ns, rest')
              | _, _ => None
              end
          | "O" :: t :: rest =>
              match parse_nodes f rest k' with Some (ns, rest') => Some (NO (unhex t) :: ns, rest') | None => None end
          | "K" :: t :: rest =>
              match parse_nodes f rest k' with Some (ns, rest') => Some (NK (unhex t) :: ns, rest') | None => None end
          | "T" :: up :: order :: parts :: rest =>
              match parse_strs order, parse_strs parts, parse_nodes f rest k' with
              | Some o, Some p, Some (ns, rest') => Some (NT (String.eqb up "1") o p :: ns, rest')
              | _, _, _ => None
              end
          | tag :: cnt :: rest =>
              match parse_nat cnt with
              | Some c =>
                  match parse_nodes f rest c with
                  | Some (cs, rest1) =>
                      let n := if String.eqb tag "S" then Some (NS cs)
                               else if String.eqb tag "L" then Some (NL cs)
                               else if String.eqb tag "C" then Some (NC cs) else None in
                      match n, parse_nodes f rest1 k' with
                      | Some n, Some (ns, rest') => Some (n :: ns, rest')
                      | _, _ => None
                      end
                  | None => None
                  end
              | None => None
              end
          | _ => None
          end
      end
  end.

Fixpoint parse_cparts (fuel : nat) (ws : list string) : option (list cpart) :=
  match fuel with
  | 0 => None
  | Datatypes.S f =>
      match ws with
      | [] => Some []
      | "M" :: t :: rest => option_map (cons (CMod (unhex t))) (parse_cparts f rest)
      | "N" :: rest =>
          match parse_nodes (Datatypes.S (List.length rest)) rest 1 with
          | Some ([n], rest') => option_map (cons (CNode n)) (parse_cparts f rest')
          | _ => None
          end
      | "R" :: rest =>
          match parse_nodes (Datatypes.S (List.length rest)) rest 1 with
          | Some ([n], rest') => option_map (cons (CParam n)) (parse_cparts f rest')
          | _ => None
          end
      | _ => None
      end
  end.

Definition show_imp (st : imp_state) : string :=
  join ";" (map (fun t => join "," (it_parts t) ++ "=" ++ it_value t) (imp_written st)).

Definition parse_imp_tree (w : string) : option imp_tree :=
  match split_on "="%char w with
  | [ps; v] => Some {| it_parts := split_on ","%char ps; it_value := v |}
  | _ => None
  end.

Fixpoint index_of (p : string) (ts : list imp_tree) (i : nat) : option nat :=
  match ts with
  | [] => None
  | t :: r => if mem_str p (it_parts t) then Some i else index_of p r (Datatypes.S i)
  end.

Definition imp_of_trees (ts : list imp_tree) : imp_state :=
  {| trees := ts;
     owner := flat_map (fun t => flat_map (fun p => match index_of p ts 0 with Some i => [(p, i)] | None => [] end)
                                          (it_parts t)) ts |}.

Fixpoint imp_run (st : imp_state) (ops : list string) : imp_state :=
  match ops with
  | [] => st
  | w :: r => match split_on "="%char w with
              | [p; v] => imp_run (imp_set st p v) r
              | _ => st
              end
  end.

(* request: "fmt <tree>" -> hex(format) ; "fmt2 <tree>" -> hex(format of the tree left by format) ;
            "flat <tree>" -> hex(flatten) ; "parsed <tree>" -> 0/1 ;
            "cell <parts>" -> hex(text assembled by the parameter loop) ;
            "imp <tree;tree;...> <p=v> ..." -> the trees after the edits, e.g. "n=2;p=1" *)
Definition run_Tree (req : string) : string :=
  match words req with
  | "cell" :: ws =>
      match parse_cparts (Datatypes.S (List.length ws)) ws with
      | Some parts => hex_encode (cell_text parts)
      | None => "parse:cell"
      end
  | "imp" :: ts :: ops =>
      match map_opt parse_imp_tree (split_on ";"%char ts) with
      | Some trs => show_imp (imp_run (imp_of_trees trs) ops)
      | None => "parse:imp"
      end
  | cmd :: ws =>
      match parse_nodes (Datatypes.S (List.length ws)) ws 1 with
      | Some ([t], []) =>
          if String.eqb cmd "fmt" then hex_encode (fst (format t))
          else if String.eqb cmd "fmt2" then hex_encode (fst (format (snd (format t))))
          else if String.eqb cmd "flat" then hex_encode (flatten t)
          else if String.eqb cmd "parsed" then (if as_parsed t then "1" else "0")
          else "parse:cmd"
      | _ => "parse:tree"
      end
  | _ => "parse:empty"
  end.
