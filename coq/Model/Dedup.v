(* Dedup.v — executable model of MontePy's duplicate-surface removal.

   Part 1 (the code at /repo HEAD, after fix: d09ab94, f2650a0, 983bf94):
     montepy/mcnp_problem.py      MCNP_Problem.remove_duplicate_surfaces: the scan with its [to_delete] set and
                                  overwritable [matching_map] dict, the cell loop, the re-pointing of periodic
                                  partners through the map, the final removal                          [scan, dedup]
     montepy/cell.py              Cell.remove_duplicate_surfaces: dict restricted to cell.surfaces, geometry re-pointed,
                                  each dead surface replaced by its survivor in cell.surfaces   [cell_dedup, surfs_after]
     montepy/surfaces/half_space.py  HalfSpace/UnitHalfSpace.remove_duplicate_surfaces, the [divider] setter (a new
                                  divider is appended to cell.surfaces)                                  [hs_dedup]
     montepy/surfaces/surface.py  Surface.find_duplicate_surfaces (returns []), Surface._may_be_merged_with  [may_merge]
     montepy/surfaces/axis_plane.py, cylinder_on_axis.py, cylinder_par_axis.py  find_duplicate_surfaces   [candidate]
     montepy/data_inputs/transform.py  Transform.equivalent                                          [tr_equivalent]
   Part 2 (suffix _old): the same functions as they were before those three commits (the second run of
     __update_internal_pointers included).  Kept for the regression witnesses in Proofs/DedupProofs.v (what each repaired
     defect was); nothing in Properties/C18.v is stated about it.

   Conventions.  Python object identity is modelled by the object's number: a geometry leaf holds the
   number of its divider, [to_delete] and the keys/values of [matching_map] are surface numbers
   ([surface != self], set and dict membership use Surface.__eq__/__hash__, which inside one collection
   -- unique numbers, property C06 -- coincide with equality of numbers; the harness checks uniqueness on
   every case).  Floats are exact rationals; [abs(a - b) < tol] is evaluated exactly (Python rounds the
   subtraction: the harness counts the cases in which the rounding decides a comparison).
   [s_perptr] is the number of the live [periodic_surface] (0 = None), [s_tr] the data of the Transform object that
   [transform] points to; [s_oldper] / [s_oldtr] (the numbers remembered from the file) are only read by Part 2.
   NOT modelled: unresolved (integer) dividers, from-scratch surfaces whose constants are None, leaves that do not
   know their cell (added with &= / |=: the setter then appends nothing, the loop in Cell.remove_duplicate_surfaces
   does; cell.surfaces is the same *set*, its order is not compared), the state left behind when an exception escapes.
   No proofs in this file. *)
From Coq Require Import List String Ascii ZArith QArith Qabs Bool.
From MPV Require Import Model.Wire.
Import ListNotations.

(* ------------------------------------------------------------------------- state *)
Inductive sclass := CAxisPlane | CCylOnAxis | CCylParAxis | COther.

Record transform := mkTr {
  t_num : Z; t_deg : bool; t_m2a : bool; t_disp : list Q; t_rot : list Q }.

Record surface := mkSurf {
  s_num : Z;
  s_class : sclass;            (* Python class of the object *)
  s_type : string;             (* surface_type mnemonic (upper case) *)
  s_consts : list Q;           (* surface_constants *)
  s_oldper : Z;                (* old_periodic_surface (0 = None): read by Part 2 only *)
  s_perptr : Z;                (* number of the live periodic_surface (0 = None): what the code tests *)
  s_refl : bool;               (* is_reflecting *)
  s_white : bool;              (* is_white_boundary *)
  s_oldtr : Z;                 (* old_transform_number (0 = None): read by Part 2 only *)
  s_tr : option transform      (* the Transform object [transform] points to (its data now) *)
}.

Inductive geom :=
| GSurf (side : bool) (n : Z)       (* UnitHalfSpace on a surface: side True = '+' *)
| GCell (c : Z)                     (* UnitHalfSpace on a cell (is_cell) *)
| GNot (g : geom)                   (* HalfSpace(left, COMPLEMENT) *)
| GAnd (a b : geom)                 (* HalfSpace(left, INTERSECTION, right) *)
| GOr (a b : geom).                 (* HalfSpace(left, UNION, right) *)

Record cell := mkCell { c_num : Z; c_surfs : list Z (* cell.surfaces *); c_geom : geom }.

Record problem := mkProb {
  p_surfs : list surface;      (* problem.surfaces, in collection order *)
  p_cells : list cell;
  p_trs : list transform       (* the Transform objects among problem.data_inputs, in order *)
}.

Inductive err := IndexError | BrokenObjectLinkError | MalformedInputError | BadRequest.
Inductive res (A : Type) := Ok (a : A) | Err (e : err).
Arguments Ok {A} a.
Arguments Err {A} e.

(* ------------------------------------------------------------------------- semantics of a geometry *)
Fixpoint region (es ec : Z -> bool) (g : geom) : bool :=
  match g with
  | GSurf side n => if side then es n else negb (es n)
  | GCell c => ec c
  | GNot a => negb (region es ec a)
  | GAnd a b => region es ec a && region es ec b
  | GOr a b => region es ec a || region es ec b
  end.

Fixpoint leaf_surfs (g : geom) : list Z :=
  match g with
  | GSurf _ n => [n]
  | GCell _ => []
  | GNot a => leaf_surfs a
  | GAnd a b | GOr a b => (leaf_surfs a ++ leaf_surfs b)%list
  end.

Fixpoint map_leaves (f : Z -> Z) (g : geom) : geom :=
  match g with
  | GSurf side n => GSurf side (f n)
  | GCell c => GCell c
  | GNot a => GNot (map_leaves f a)
  | GAnd a b => GAnd (map_leaves f a) (map_leaves f b)
  | GOr a b => GOr (map_leaves f a) (map_leaves f b)
  end.

(* ------------------------------------------------------------------------- comparisons *)
(* abs(a - b) >= tolerance *)
Definition far (tol a b : Q) : bool := Qle_bool tol (Qabs (a - b)).
(* abs(a - b) < tolerance *)
Definition near (tol a b : Q) : bool := negb (far tol a b).

(* for i, component in enumerate(xs): if abs(component - ys[i]) >= tolerance: return False *)
Fixpoint vec_loop (tol : Q) (xs ys : list Q) : res bool :=
  match xs with
  | [] => Ok true
  | x :: xs' =>
      match ys with
      | [] => Err IndexError
      | y :: ys' => if far tol x y then Ok false else vec_loop tol xs' ys'
      end
  end.

Definition cnst (s : surface) (i : nat) : Q := nth i (s_consts s) 0%Q.

(* surface != self and surface.surface_type == self.surface_type *)
Definition same_kind (self other : surface) : bool :=
  negb (Z.eqb (s_num other) (s_num self)) && String.eqb (s_type other) (s_type self).

Fixpoint filter_res {A} (f : A -> res bool) (l : list A) : res (list A) :=
  match l with
  | [] => Ok []
  | x :: r =>
      match f x with
      | Err e => Err e
      | Ok b => match filter_res f r with
                | Err e => Err e
                | Ok r' => Ok (if b then x :: r' else r')
                end
      end
  end.

(* ========================================================================= Part 1: the code at HEAD *)
(* Transform.equivalent(self = a, other = b, tolerance): rotation matrices of different length are not equivalent;
   the displacement loop indexes other.displacement_vector with self's indices (IndexError if shorter) *)
Definition tr_equivalent (tol : Q) (a b : transform) : res bool :=
  if negb (Bool.eqb (t_deg a) (t_deg b)) then Ok false
  else if negb (Bool.eqb (t_m2a a) (t_m2a b)) then Ok false
  else match vec_loop tol (t_disp a) (t_disp b) with
       | Err e => Err e
       | Ok false => Ok false
       | Ok true =>
           if negb (Nat.eqb (List.length (t_rot a)) (List.length (t_rot b))) then Ok false
           else vec_loop tol (t_rot a) (t_rot b)
       end.

(* the transform part shared by the three classes: [if self.transform: if surface.transform: equivalent ...
   else: if surface.transform is None] *)
Definition tr_check (tol : Q) (self other : surface) : res bool :=
  match s_tr self with
  | Some t => match s_tr other with
              | Some t' => tr_equivalent tol t t'
              | None => Ok false
              end
  | None => match s_tr other with
            | None => Ok true
            | Some _ => Ok false
            end
  end.

(* Surface._may_be_merged_with: neither periodic (the live pointer), same reflecting and white flags *)
Definition periodic_now (s : surface) : bool := negb (Z.eqb (s_perptr s) 0).
Definition may_merge (self other : surface) : bool :=
  negb (periodic_now self) && negb (periodic_now other)
  && Bool.eqb (s_refl self) (s_refl other) && Bool.eqb (s_white self) (s_white other).

(* is [other] appended to the result of self.find_duplicate_surfaces ?  All three classes: [if
   self.periodic_surface is None: for surface in surfaces: if surface != self and same type: if
   self._may_be_merged_with(surface): <constants within tolerance>: <transform part>] *)
Definition candidate (tol : Q) (self other : surface) : res bool :=
  if periodic_now self then Ok false
  else if negb (same_kind self other) then Ok false
  else match s_class self with
       | CAxisPlane | CCylOnAxis =>
           if negb (may_merge self other) then Ok false
           else if near tol (cnst self 0) (cnst other 0) then tr_check tol self other else Ok false
       | CCylParAxis =>
           if negb (may_merge self other) then Ok false
           else if near tol (cnst self 2) (cnst other 2)
                   && near tol (cnst self 0) (cnst other 0)
                   && near tol (cnst self 1) (cnst other 1)
           then tr_check tol self other else Ok false
       | COther => Ok false
       end.

(* ------------------------------------------------------------------------- the scan *)
Definition memZ (n : Z) (l : list Z) : bool := existsb (Z.eqb n) l.

(* set.add *)
Definition set_add (n : Z) (s : list Z) : list Z := if memZ n s then s else (s ++ [n])%list.

(* dict[k] = v : an existing key keeps its position *)
Fixpoint dict_set (k v : Z) (d : list (Z * Z)) : list (Z * Z) :=
  match d with
  | [] => [(k, v)]
  | (k', v') :: r => if Z.eqb k' k then (k', v) :: r else (k', v') :: dict_set k v r
  end.

Fixpoint lookup (k : Z) (d : list (Z * Z)) : option Z :=
  match d with
  | [] => None
  | (k', v) :: r => if Z.eqb k' k then Some v else lookup k r
  end.

Fixpoint record_matches (ms : list Z) (self : Z) (del : list Z) (m : list (Z * Z))
  : list Z * list (Z * Z) :=
  match ms with
  | [] => (del, m)
  | x :: r => record_matches r self (set_add x del) (dict_set x self m)
  end.

(* for surface in self.surfaces: if surface not in to_delete: for match in surface.find_duplicate_surfaces(...):
   to_delete.add(match); matching_map[match] = surface      (over any test [cand]) *)
Fixpoint scan_loop_g (cand : surface -> surface -> res bool) (all todo : list surface)
                     (del : list Z) (m : list (Z * Z)) : res (list Z * list (Z * Z)) :=
  match todo with
  | [] => Ok (del, m)
  | s :: r =>
      if memZ (s_num s) del then scan_loop_g cand all r del m
      else match filter_res (cand s) all with
           | Err e => Err e
           | Ok ms => let '(del', m') := record_matches (map s_num ms) (s_num s) del m in
                      scan_loop_g cand all r del' m'
           end
  end.

Definition scan (tol : Q) (all : list surface) : res (list Z * list (Z * Z)) :=
  scan_loop_g (candidate tol) all all [] [].

(* ------------------------------------------------------------------------- re-pointing the cells *)
(* {dead: new for dead, new in d.items() if dead in keep} *)
Definition restrict (keep : list Z) (d : list (Z * Z)) : list (Z * Z) :=
  filter (fun kv => memZ (fst kv) keep) d.

Definition ren (d : list (Z * Z)) (n : Z) : Z :=
  match lookup n d with Some s => s | None => n end.

Fixpoint hs_dedup (d : list (Z * Z)) (g : geom) : geom :=
  match g with
  | GSurf side n => match lookup n d with Some s => GSurf side s | None => g end
  | GCell _ => g
  | GNot a =>
      match restrict (leaf_surfs g) d with
      | [] => g
      | nd => GNot (hs_dedup nd a)
      end
  | GAnd a b =>
      match restrict (leaf_surfs g) d with
      | [] => g
      | nd => GAnd (hs_dedup nd a) (hs_dedup nd b)
      end
  | GOr a b =>
      match restrict (leaf_surfs g) d with
      | [] => g
      | nd => GOr (hs_dedup nd a) (hs_dedup nd b)
      end
  end.

Fixpoint remove_first (n : Z) (l : list Z) : list Z :=
  match l with
  | [] => []
  | x :: r => if Z.eqb x n then r else x :: remove_first n r
  end.

(* for surface in self.surfaces: if surface.periodic_surface in matching_map: surface._periodic_surface = ... *)
Definition repoint_periodic (m : list (Z * Z)) (s : surface) : surface :=
  match (if Z.eqb (s_perptr s) 0 then None else lookup (s_perptr s) m) with
  | Some n => mkSurf (s_num s) (s_class s) (s_type s) (s_consts s) (s_oldper s) n (s_refl s) (s_white s)
                     (s_oldtr s) (s_tr s)
  | None => s
  end.

(* Cell.remove_duplicate_surfaces: after the leaves are re-pointed (the divider setter appends a survivor that is
   not yet in cell.surfaces), every dead surface of the restricted dict is removed from cell.surfaces and its
   survivor appended when absent, in dict order *)
Definition surfs_after (nd : list (Z * Z)) (g : geom) (cs : list Z) : list Z :=
  let appended :=
    fold_left (fun acc n => match lookup n nd with
                            | Some s => if memZ s acc then acc else (acc ++ [s])%list
                            | None => acc
                            end) (leaf_surfs g) cs in
  fold_left (fun acc kv => let acc' := remove_first (fst kv) acc in
                           if memZ (snd kv) acc' then acc' else (acc' ++ [snd kv])%list) nd appended.

Definition cell_dedup (m : list (Z * Z)) (c : cell) : cell :=
  match restrict (c_surfs c) m with
  | [] => c
  | nd => mkCell (c_num c) (surfs_after nd (c_geom c) (c_surfs c)) (hs_dedup nd (c_geom c))
  end.

(* self._surfaces.remove(surface): the first member with that number *)
Fixpoint remove_surf (n : Z) (l : list surface) : list surface :=
  match l with
  | [] => []
  | x :: r => if Z.eqb (s_num x) n then r else x :: remove_surf n r
  end.

Definition remove_all (del : list Z) (l : list surface) : list surface :=
  fold_left (fun acc n => remove_surf n acc) del l.

(* ------------------------------------------------------------------------- the whole call *)
Definition dedup (tol : Q) (P : problem) : res problem :=
  match scan tol (p_surfs P) with
  | Err e => Err e
  | Ok (del, m) =>
      Ok (mkProb (remove_all del (map (repoint_periodic m) (p_surfs P)))
                 (map (cell_dedup m) (p_cells P)) (p_trs P))
  end.

(* ========================================================================= Part 2: before d09ab94 / f2650a0 / 983bf94 *)
(* Transform.equivalent(self = a, other = b, tolerance) *)
Definition tr_equivalent_old (tol : Q) (a b : transform) : res bool :=
  if negb (Bool.eqb (t_deg a) (t_deg b)) then Ok false
  else if negb (Bool.eqb (t_m2a a) (t_m2a b)) then Ok false
  else match vec_loop tol (t_disp a) (t_disp b) with
       | Err e => Err e
       | Ok false => Ok false
       | Ok true =>
           match t_rot a with
           | [] => Ok true
           | _ :: _ =>
               match t_rot b with
               | [] => Ok false
               | _ :: _ => vec_loop tol (t_rot a) (t_rot b)
               end
           end
       end.

Definition periodic_old (s : surface) : bool := negb (Z.eqb (s_oldper s) 0).

(* the transform part shared by the three classes *)
Definition tr_check_old (tol : Q) (self other : surface) : res bool :=
  match s_tr self with
  | Some t => match s_tr other with
              | Some t' => tr_equivalent_old tol t t'
              | None => Ok false
              end
  | None => match s_tr other with
            | None => Ok true
            | Some _ => Ok false
            end
  end.

(* is [other] appended to the result of self.find_duplicate_surfaces ?
   All three classes start with [if not self.old_periodic_surface: ... else: return []]; that outer test is the
   first one here.  AxisPlane and CylinderParAxis test self.old_periodic_surface a second time inside the loop
   (never the other surface's); CylinderOnAxis tests surface.old_periodic_surface there. *)
Definition candidate_old (tol : Q) (self other : surface) : res bool :=
  if periodic_old self then Ok false
  else if negb (same_kind self other) then Ok false
  else match s_class self with
       | CAxisPlane =>
           if near tol (cnst self 0) (cnst other 0) then tr_check_old tol self other else Ok false
       | CCylOnAxis =>
           if periodic_old other then Ok false
           else if near tol (cnst self 0) (cnst other 0) then tr_check_old tol self other else Ok false
       | CCylParAxis =>
           if near tol (cnst self 2) (cnst other 2)
              && near tol (cnst self 0) (cnst other 0)
              && near tol (cnst self 1) (cnst other 1)
           then tr_check_old tol self other else Ok false
       | COther => Ok false          (* Surface.find_duplicate_surfaces returns [] *)
       end.

Definition find_dups_old (tol : Q) (self : surface) (all : list surface) : res (list surface) :=
  filter_res (candidate_old tol self) all.

Fixpoint scan_loop_old (tol : Q) (all todo : list surface) (del : list Z) (m : list (Z * Z))
  : res (list Z * list (Z * Z)) :=
  match todo with
  | [] => Ok (del, m)
  | s :: r =>
      if memZ (s_num s) del then scan_loop_old tol all r del m
      else match find_dups_old tol s all with
           | Err e => Err e
           | Ok ms => let '(del', m') := record_matches (map s_num ms) (s_num s) del m in
                      scan_loop_old tol all r del' m'
           end
  end.

Definition scan_old (tol : Q) (all : list surface) : res (list Z * list (Z * Z)) :=
  scan_loop_old tol all all [] [].

(* cell.surfaces while the geometry is re-pointed: the divider setter appends a survivor that is not
   yet there (in leaf order), then the dead surfaces are removed *)
Definition surfs_after_old (nd : list (Z * Z)) (g : geom) (cs : list Z) : list Z :=
  let appended :=
    fold_left (fun acc n => match lookup n nd with
                            | Some s => if memZ s acc then acc else (acc ++ [s])%list
                            | None => acc
                            end) (leaf_surfs g) cs in
  fold_left (fun acc kv => remove_first (fst kv) acc) nd appended.

Definition cell_dedup_old (m : list (Z * Z)) (c : cell) : cell :=
  match restrict (c_surfs c) m with
  | [] => c
  | nd => mkCell (c_num c) (surfs_after_old nd (c_geom c) (c_surfs c)) (hs_dedup nd (c_geom c))
  end.

(* Cell.update_pointers: self._surfaces = Surfaces(); only integer dividers are added again, and a
   problem that was read has none *)
Definition cell_update_pointers (c : cell) : cell := mkCell (c_num c) [] (c_geom c).

(* ------------------------------------------------------------------------- Surface.update_pointers *)
Fixpoint find_last_tr (n : Z) (ts : list transform) (acc : option transform) : option transform :=
  match ts with
  | [] => acc
  | t :: r => find_last_tr n r (if Z.eqb (t_num t) n then Some t else acc)
  end.

Definition surface_update_pointers (all : list surface) (trs : list transform) (s : surface)
  : res surface :=
  let per :=
    if Z.eqb (s_oldper s) 0 then Ok (s_perptr s)
    else if memZ (s_oldper s) (map s_num all) then Ok (s_oldper s)
    else Err BrokenObjectLinkError in
  match per with
  | Err e => Err e
  | Ok p =>
      if Z.eqb (s_oldtr s) 0 then
        Ok (mkSurf (s_num s) (s_class s) (s_type s) (s_consts s) (s_oldper s) p (s_refl s) (s_white s)
                   (s_oldtr s) (s_tr s))
      else
        match find_last_tr (s_oldtr s) trs (s_tr s) with
        | None => Err BrokenObjectLinkError
        | Some t =>
            Ok (mkSurf (s_num s) (s_class s) (s_type s) (s_consts s) (s_oldper s) p (s_refl s) (s_white s)
                       (s_oldtr s) (Some t))
        end
  end.

Fixpoint map_res {A B} (f : A -> res B) (l : list A) : res (list B) :=
  match l with
  | [] => Ok []
  | x :: r =>
      match f x with
      | Err e => Err e
      | Ok y => match map_res f r with
                | Err e => Err e
                | Ok ys => Ok (y :: ys)
                end
      end
  end.

Definition dedup_old (tol : Q) (P : problem) : res problem :=
  match scan_old tol (p_surfs P) with
  | Err e => Err e
  | Ok (del, m) =>
      let cells1 := map (cell_dedup_old m) (p_cells P) in
      let cells2 := map cell_update_pointers cells1 in
      match map_res (surface_update_pointers (p_surfs P) (p_trs P)) (p_surfs P) with
      | Err e => Err e
      | Ok surfs2 => Ok (mkProb (remove_all del surfs2) cells2 (p_trs P))
      end
  end.

(* the call on a problem whose data block holds a VOL, U, LAT or FILL card ([cellmod]): the second run of
   Cells.update_pointers merges the card into the one already attached, which raises MalformedInputError - after the
   scan_old and after the cells were re-pointed, before any surface is removed *)
Definition dedup_call_old (cellmod : bool) (tol : Q) (P : problem) : res problem :=
  match scan_old tol (p_surfs P) with
  | Err e => Err e
  | Ok _ => if cellmod then Err MalformedInputError else dedup_old tol P
  end.

(* ------------------------------------------------------------------------- wire *)
Open Scope string_scope.

Definition parse_Q (s : string) : option Q :=
  match split_on "/"%char s with
  | [n; d] => match parse_Z n, parse_Z d with
              | Some n, Some (Zpos p) => Some (Qmake n p)
              | _, _ => None
              end
  | _ => None
  end.

Definition parse_bool (s : string) : option bool :=
  if String.eqb s "1" then Some true else if String.eqb s "0" then Some false else None.

Definition parse_class (s : string) : option sclass :=
  if String.eqb s "A" then Some CAxisPlane
  else if String.eqb s "O" then Some CCylOnAxis
  else if String.eqb s "P" then Some CCylParAxis
  else if String.eqb s "X" then Some COther else None.

(* transform: num@deg@m2a@disp@rot *)
Definition parse_tr (s : string) : option transform :=
  match split_on "@"%char s with
  | [n; dg; ma; dv; rt] =>
      match parse_Z n, parse_bool dg, parse_bool ma, parse_list parse_Q dv, parse_list parse_Q rt with
      | Some n, Some dg, Some ma, Some dv, Some rt => Some (mkTr n dg ma dv rt)
      | _, _, _, _, _ => None
      end
  | _ => None
  end.

Definition parse_opt_tr (s : string) : option (option transform) :=
  if String.eqb s "-" then Some None else option_map Some (parse_tr s).

(* surface: num:class:type:consts:oldper:perptr:refl:white:oldtr:tr *)
Definition parse_surface (s : string) : option surface :=
  match split_on ":"%char s with
  | [n; cl; ty; cs; op; pp; rf; wh; ot; tr] =>
      match parse_Z n, parse_class cl, parse_list parse_Q cs, parse_Z op, parse_Z pp with
      | Some n, Some cl, Some cs, Some op, Some pp =>
          match parse_bool rf, parse_bool wh, parse_Z ot, parse_opt_tr tr with
          | Some rf, Some wh, Some ot, Some tr => Some (mkSurf n cl ty cs op pp rf wh ot tr)
          | _, _, _, _ => None
          end
      | _, _, _, _, _ => None
      end
  | _ => None
  end.

(* geometry in prefix form: A x y | O x y | N x | p<n> | m<n> | c<n> *)
Fixpoint parse_geom (fuel : nat) (toks : list string) : option (geom * list string) :=
  match fuel with
  | O => None
  | S f =>
      match toks with
      | [] => None
      | String k rest :: r =>
          if Ascii.eqb k "A"%char then
            match parse_geom f r with
            | Some (a, r1) => match parse_geom f r1 with
                              | Some (b, r2) => Some (GAnd a b, r2)
                              | None => None
                              end
            | None => None
            end
          else if Ascii.eqb k "O"%char then
            match parse_geom f r with
            | Some (a, r1) => match parse_geom f r1 with
                              | Some (b, r2) => Some (GOr a b, r2)
                              | None => None
                              end
            | None => None
            end
          else if Ascii.eqb k "N"%char then
            match parse_geom f r with
            | Some (a, r1) => Some (GNot a, r1)
            | None => None
            end
          else if Ascii.eqb k "p"%char then option_map (fun n => (GSurf true n, r)) (parse_Z rest)
          else if Ascii.eqb k "m"%char then option_map (fun n => (GSurf false n, r)) (parse_Z rest)
          else if Ascii.eqb k "c"%char then option_map (fun n => (GCell n, r)) (parse_Z rest)
          else None
      | EmptyString :: _ => None
      end
  end.

Fixpoint show_geom (g : geom) : list string :=
  match g with
  | GSurf true n => ["p" ++ show_Z n]
  | GSurf false n => ["m" ++ show_Z n]
  | GCell c => ["c" ++ show_Z c]
  | GNot a => "N" :: show_geom a
  | GAnd a b => ("A" :: show_geom a ++ show_geom b)%list
  | GOr a b => ("O" :: show_geom a ++ show_geom b)%list
  end.

(* cell: num:surfs:geom *)
Definition parse_cell (s : string) : option cell :=
  match split_on ":"%char s with
  | [n; ss; g] =>
      let toks := split_on ","%char g in
      match parse_Z n, parse_list parse_Z ss, parse_geom (S (List.length toks)) toks with
      | Some n, Some ss, Some (g, []) => Some (mkCell n ss g)
      | _, _, _ => None
      end
  | _ => None
  end.

Definition parse_semi {A} (f : string -> option A) (s : string) : option (list A) :=
  if String.eqb s "-" then Some [] else map_opt f (split_on ";"%char s).

Definition show_semi {A} (f : A -> string) (l : list A) : string :=
  match l with [] => "-" | _ => join ";" (map f l) end.

Definition show_cell (c : cell) : string :=
  show_Z (c_num c) ++ ":" ++ show_list show_Z (c_surfs c) ++ ":" ++ join "," (show_geom (c_geom c)).

Definition show_ptrs (s : surface) : string :=
  show_Z (s_num s) ++ ":" ++ show_Z (s_perptr s) ++ ":"
  ++ match s_tr s with Some t => show_Z (t_num t) | None => "0" end.

Definition show_err (e : err) : string :=
  match e with
  | IndexError => "IndexError"
  | BrokenObjectLinkError => "BrokenObjectLinkError"
  | MalformedInputError => "MalformedInputError"
  | BadRequest => "BadRequest"
  end.

Definition show_pair (kv : Z * Z) : string := show_Z (fst kv) ++ ">" ++ show_Z (snd kv).

(* request : "<mode> <tol> <surfaces> <cells> <transforms>"   mode: c = the code at HEAD; o = the code before the three
   commits (om: with a VOL / U / LAT / FILL card in the data block)
   response: "ok <surviving numbers> <matching map> <to_delete> <cells> <surviving: num:periodic:transform>"
             or "err <exception class>" *)
Definition run_with (old cellmod : bool) (tol ss cs ts : string) : string :=
  match parse_Q tol, parse_semi parse_surface ss, parse_semi parse_cell cs, parse_semi parse_tr ts with
  | Some tol, Some ss, Some cs, Some ts =>
      match (if old then scan_old tol ss else scan tol ss),
            (if old then dedup_call_old cellmod tol (mkProb ss cs ts) else dedup tol (mkProb ss cs ts)) with
      | Ok (del, m), Ok P' =>
          "ok " ++ show_list show_Z (map s_num (p_surfs P')) ++ " " ++ show_list show_pair m
          ++ " " ++ show_list show_Z del
          ++ " " ++ show_semi show_cell (p_cells P') ++ " " ++ show_semi show_ptrs (p_surfs P')
      | Err e, _ => "err " ++ show_err e
      | _, Err e => "err " ++ show_err e
      end
  | _, _, _, _ => "err " ++ show_err BadRequest
  end.

Definition run_Dedup (req : string) : string :=
  match words req with
  | [k; tol; ss; cs; ts] =>
      if String.eqb k "c" then run_with false false tol ss cs ts
      else if String.eqb k "o" then run_with true false tol ss cs ts
      else if String.eqb k "om" then run_with true true tol ss cs ts
      else "err " ++ show_err BadRequest
  | _ => "err " ++ show_err BadRequest
  end.
