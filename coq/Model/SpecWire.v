(* SpecWire.v — (1) the executable well-formedness predicate [wf_file] of theorem C01_split_agrees
   (Properties/C01Spec.v): the files on which MontePy's line reader is proved to cut the file into the cards that
   MCNP's rules (Spec/Cards.v) prescribe; (2) the wire entry [run_Cards] / [run_SpecWire] through which the harness
   (harness/spec_tie.py) runs the extracted Spec.Cards next to harness/spec.py.
   No MontePy code is modelled here and there are no proofs in this file. *)
From Coq Require Import List String Ascii Arith Bool ZArith QArith.
From MPV Require Import Model.Wire Spec.Cards.
From MPV Require Spec.Geometry Spec.Shortcuts.
Import ListNotations.
Close Scope Q_scope.
Open Scope string_scope.

(* ================================================================== well-formed files
   [wf_file w bytes] holds when
   F0  the file ends in LF (every line is terminated), and it has at least one line;
   F1  every line up to the blank line that ends the third block consists of printable ASCII, tabs and bytes >= 127,
       optionally followed by one CR; once its tabs are expanded it has at most w columns, or it has text beyond
       column w (ignored by rule S1) but is not "blank within the first w columns and non-blank beyond them";
       the lines after that blank line are arbitrary;
   F2  the lines of the message block and the title line contain no tab and have at most w columns;
   and for every data line (a line that is neither blank nor a comment line by rule S5) of the three blocks:
   D1  no '#' in columns 1-5 (vertical input format is not covered);
   D2  not both a continuation mark and a '$' comment ("... & $ text");
   D3  the first data line of a block has a non-blank character in columns 1-5 (it starts a card);
   D4  no word of its data is a lone "&" (other than the continuation mark at its end);
   B1  no block consists of comment lines only. *)
Fixpoint string_forall (p : ascii -> bool) (s : string) : bool :=
  match s with
  | EmptyString => true
  | String a r => andb (p a) (string_forall p r)
  end.

Fixpoint has_char (c : ascii) (s : string) : bool :=
  match s with
  | EmptyString => false
  | String a r => orb (Ascii.eqb a c) (has_char c r)
  end.

Fixpoint ends_with_lf (s : string) : bool :=
  match s with
  | EmptyString => false
  | String a EmptyString => Ascii.eqb a LF
  | String _ r => ends_with_lf r
  end.

(* one CR at the end of the line removed *)
Fixpoint drop_last_cr (s : string) : string :=
  match s with
  | EmptyString => EmptyString
  | String a r => if andb (Ascii.eqb a CR) (String.eqb r EmptyString) then EmptyString else String a (drop_last_cr r)
  end.

Definition ok_char (a : ascii) : bool := orb (Nat.leb 32 (nat_of_ascii a)) (Ascii.eqb a TAB).
Definition ok_char_no_tab (a : ascii) : bool := Nat.leb 32 (nat_of_ascii a).

(* the physical line without the cut at column w *)
Definition uncut_line (raw : string) : string := expand_tabs 0 (string_map high_to_blank (drop_cr raw)).

(* F1: the characters of the line; and it fits the limit, or (text beyond the limit) it is blank altogether or has
   a non-blank character within the limit (w >= 6, so that a comment mark in columns 1-5 and the blank after it are
   within the limit) *)
Definition line_ok (w : nat) (raw : string) : bool :=
  let u := uncut_line raw in
  andb (string_forall ok_char (drop_last_cr raw))
       (orb (Nat.leb (String.length u) w)
            (andb (Nat.leb 6 w) (orb (all_blank u) (negb (all_blank (first_columns w u)))))).

Definition front_line_ok (w : nat) (raw : string) : bool :=
  andb (string_forall ok_char_no_tab (drop_last_cr raw)) (Nat.leb (String.length (uncut_line raw)) w).

Definition is_some {A : Type} (o : option A) : bool := match o with Some _ => true | None => false end.
Definition not_amp_word (s : string) : bool := negb (String.eqb s "&").

(* [nb] blank lines seen so far, [card] the current block has a data line, [cmt] ... a comment line *)
Fixpoint wf_data (w nb : nat) (card cmt : bool) (raws : list string) : bool :=
  match raws with
  | [] => orb card (negb cmt)
  | l :: r =>
      andb (line_ok w l)
      (let x := physical_line w l in
       match classify x with
       | Blank =>
           andb (orb card (negb cmt))
                (if Nat.ltb (S nb) 3 then wf_data w (S nb) false false r else true)
       | Comment _ => wf_data w nb card true r
       | Data starts ws am dc =>
           andb (negb (has_char "#"%char (first_columns 5 x)))           (* D1 *)
          (andb (negb (andb am (is_some dc)))                             (* D2 *)
          (andb (orb starts card)                                         (* D3 *)
          (andb (forallb not_amp_word ws)                                 (* D4 *)
                (wf_data w nb true cmt r))))
       end)
  end.

Definition wf_title (w : nat) (raws : list string) : bool :=
  match raws with
  | [] => true
  | t :: r => andb (front_line_ok w t) (wf_data w 0 false false r)
  end.

Fixpoint wf_message (w : nat) (raws : list string) : bool :=
  match raws with
  | [] => true
  | l :: r => andb (front_line_ok w l)
                   (if all_blank (physical_line w l) then wf_title w r else wf_message w r)
  end.

Definition wf_lines (w : nat) (raws : list string) : bool :=
  match raws with
  | [] => false
  | l :: _ => if starts_message (physical_line w l) then wf_message w raws else wf_title w raws
  end.

Definition wf_file (w : nat) (bytes : string) : bool :=
  andb (ends_with_lf bytes) (wf_lines w (lines_of bytes)).

(* ================================================================== wire
   strings travel hex-encoded; lists are joined by ',' ("-" = empty list)
     cards <w> <hexbytes>     ->  <message> <title> <blocks>
                                  message: none | m<list of lines>      title: none | s<hex>
                                  blocks joined by '|', a block is '-' or its cards joined by ';',
                                  a card is <list of words>:<list of comment texts>
     lines <w> <hexbytes>     ->  the physical lines (S1)
     wf <w> <hexbytes>        ->  1 | 0
     number <hextoken>        ->  none | <numerator>/<denominator>        (S9; not reduced)
     tokens <list of words>   ->  list of tokens (S8)       gtokens: with ( ) : # self-delimiting
     geometry <list of tokens>            ->  none | the region as an s-expression (S11)
     sameregion <tokens> <tokens>         ->  1 | 0 | none (one of them is not a geometry)
     shortcuts <list of tokens>           ->  none | entries: n<num>/<den>  j  l<a>:<b>:<n>:<j>  w<hexword> (S10) *)
Definition show_card (c : card) : string :=
  show_list hex_encode (card_words c) ++ ":" ++ show_list hex_encode (card_comments c).

Definition show_block (b : list card) : string :=
  match b with [] => "-" | _ => join ";" (map show_card b) end.

Definition show_problem (p : problem) : string :=
  (match message p with None => "none" | Some m => "m" ++ show_list hex_encode m end) ++ " " ++
  (match title p with None => "none" | Some t => "s" ++ hex_encode t end) ++ " " ++
  join "|" (map show_block (cards p)).

Definition show_Q (q : Q) : string := show_Z (Qnum q) ++ "/" ++ show_Z (Zpos (Qden q)).

(* S11 / S10 *)
Fixpoint show_region (e : Geometry.region) : string :=
  match e with
  | Geometry.Side p n => "(s" ++ (if p then "+" else "-") ++ " " ++ show_Z n ++ ")"
  | Geometry.NotCell n => "(c " ++ show_Z n ++ ")"
  | Geometry.Not a => "(not " ++ show_region a ++ ")"
  | Geometry.And a b => "(and " ++ show_region a ++ " " ++ show_region b ++ ")"
  | Geometry.Or a b => "(or " ++ show_region a ++ " " ++ show_region b ++ ")"
  end.

Definition show_entry (e : Shortcuts.entry) : string :=
  match e with
  | Shortcuts.Number q => "n" ++ show_Q q
  | Shortcuts.Jump => "j"
  | Shortcuts.LogStep a b n j => "l" ++ show_Q a ++ ":" ++ show_Q b ++ ":" ++ show_nat n ++ ":" ++ show_nat j
  | Shortcuts.Word w => "w" ++ hex_encode w
  end.

Definition hex_words (l : string) : option (list string) := parse_list (fun x => Some (hex_decode x)) l.

Definition run_Cards (req : string) : string :=
  match Wire.words req with
  | ["cards"; w; h] =>
      match parse_nat w with
      | Some W => show_problem (read W (hex_decode h))
      | None => "parse:err"
      end
  | ["lines"; w; h] =>
      match parse_nat w with
      | Some W => show_list hex_encode (physical_lines W (hex_decode h))
      | None => "parse:err"
      end
  | ["wf"; w; h] =>
      match parse_nat w with
      | Some W => if wf_file W (hex_decode h) then "1" else "0"
      | None => "parse:err"
      end
  | ["number"; h] =>
      match read_number (hex_decode h) with
      | Some q => show_Q q
      | None => "none"
      end
  | ["tokens"; l] =>
      match parse_list (fun x => Some (hex_decode x)) l with
      | Some ws => show_list hex_encode (tokens (mkCard ws []))
      | None => "parse:err"
      end
  | ["gtokens"; l] =>
      match parse_list (fun x => Some (hex_decode x)) l with
      | Some ws => show_list hex_encode (geometry_tokens (mkCard ws []))
      | None => "parse:err"
      end
  | ["geometry"; l] =>
      match hex_words l with
      | Some ws => match Geometry.read_geometry ws with Some e => show_region e | None => "none" end
      | None => "parse:err"
      end
  | ["sameregion"; l1; l2] =>
      match hex_words l1, hex_words l2 with
      | Some a, Some b =>
          match Geometry.read_geometry a, Geometry.read_geometry b with
          | Some x, Some y => if Geometry.same_regionb x y then "1" else "0"
          | _, _ => "none"
          end
      | _, _ => "parse:err"
      end
  | ["shortcuts"; l] =>
      match hex_words l with
      | Some ws => match Shortcuts.expand ws with Some es => show_list show_entry es | None => "none" end
      | None => "parse:err"
      end
  | _ => "parse:err"
  end.

Definition run_SpecWire : string -> string := run_Cards.
