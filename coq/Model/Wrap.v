(* Wrap.v — executable model of the line wrapping MontePy applies to every formatted input:
   montepy/mcnp_object.py: MCNP_Object.wrap_string_for_mcnp and MCNP_Object._wrap_line (as of /repo commits 5ca937a,
   6283f05, c3da1f2), which drive Python's textwrap.TextWrapper(width, initial_indent, subsequent_indent = 5 blanks,
   drop_whitespace=False, break_on_hyphens=False) with its defaults break_long_words = expand_tabs =
   replace_whitespace = True.

   Modelled here, from the raw line to the written lines: str.expandtabs(8), TextWrapper._munge_whitespace,
   TextWrapper._split for break_on_hyphens=False (wordsep_simple_re: maximal runs of blanks / non-blanks = [split_ws]),
   TextWrapper._wrap_chunks and _handle_long_word (CPython 3.12), montepy.utilities.is_comment,
   MCNP_Object._wrap_line (tabs expanded first; fit test; 'c' comment lines whose C is within the first five columns
   of the written line; split at the first '$'; comment appended / started on a short last data line / continued
   with "     $ "; a blank prefix of half the width or more is replaced by the continuation indent), the blank-line
   filters and per-line loop of wrap_string_for_mcnp; Message.__init__ / Message.format_for_mcnp_input and
   Title.format_for_mcnp_input (truncation to the limit).
   NOT modelled: str.splitlines (done by the caller).  Strings are sequences of latin-1 code points.
   Domain: 7 < W (textwrap raises ValueError for width <= 0 and does not terminate when an indent that is used
   twice exceeds the width; MontePy uses W = 80 / 128 and indents of at most 7 columns + a prefix shorter than W/2).
   No proofs in this file. *)
From Coq Require Import List String Ascii Arith Bool Lia.
From MPV Require Import Model.Wire.
Import ListNotations.
Open Scope string_scope.

Definition slen := String.length.

Fixpoint take (n : nat) (s : string) : string :=
  match n, s with
  | O, _ => ""
  | _, EmptyString => ""
  | S k, String a r => String a (take k r)
  end.
Fixpoint drop (n : nat) (s : string) : string :=
  match n, s with
  | O, _ => s
  | _, EmptyString => ""
  | S k, String a r => drop k r
  end.

(* _handle_long_word with break_long_words = True, break_on_hyphens = False: the cut position *)
Definition long_word_cut (chunk : string) (space_left : nat) : nat := space_left.

(* the inner loop: put chunks on the line while they fit *)
Fixpoint fill (chunks : list string) (cur : string) (cur_len width : nat) (any : bool)
  : string * nat * bool * list string :=
  match chunks with
  | [] => (cur, cur_len, any, [])
  | c :: r =>
      if Nat.leb (cur_len + slen c) width
      then fill r (cur ++ c) (cur_len + slen c) width true
      else (cur, cur_len, any, chunks)
  end.

(* one line: returns the line body (without indent), whether cur_line is a non-empty list,
   and the chunks left *)
Definition one_line (chunks : list string) (width : nat) : string * bool * list string :=
  match fill chunks "" 0 width false with
  | (cur, cur_len, any, rest) =>
      match rest with
      | c :: r =>
          if Nat.ltb width (slen c) then
            let space_left := if Nat.ltb width 1 then 1 else width - cur_len in
            let e := long_word_cut c space_left in
            (cur ++ take e c, true, drop e c :: r)
          else (cur, any, rest)
      | [] => (cur, any, rest)
      end
  end.

(* _wrap_chunks; None = out of fuel *)
Fixpoint wrap_loop (fuel : nat) (first : bool) (chunks : list string) (W : nat) (ii si : string)
  : option (list string) :=
  match chunks with
  | [] => Some []
  | _ =>
      match fuel with
      | O => None
      | S f =>
          let indent := if first then ii else si in
          let width := W - slen indent in
          match one_line chunks width with
          | (body, any, rest) =>
              match wrap_loop f (if any then false else first) rest W ii si with
              | Some ls => Some (if any then (indent ++ body) :: ls else ls)
              | None => None
              end
          end
      end
  end.

Fixpoint total_len (chunks : list string) : nat :=
  match chunks with [] => 0 | c :: r => slen c + total_len r end.

Definition wrap_chunks (W : nat) (ii si : string) (chunks : list string) : option (list string) :=
  wrap_loop (S (total_len chunks + List.length chunks)) true chunks W ii si.

(* chunking of hyphen-free, already munged text: maximal runs of blanks and of non-blanks *)
Definition is_blank (a : ascii) : bool := Ascii.eqb a " "%char.
Fixpoint split_ws_aux (s : string) (cur : string) (cur_blank : bool) : list string :=
  match s with
  | EmptyString => if String.eqb cur "" then [] else [cur]
  | String a r =>
      if String.eqb cur "" then split_ws_aux r (String a "") (is_blank a)
      else if Bool.eqb (is_blank a) cur_blank then split_ws_aux r (cur ++ String a "") cur_blank
      else cur :: split_ws_aux r (String a "") (is_blank a)
  end.
Definition split_ws (s : string) : list string := split_ws_aux s "" false.

Fixpoint all_blank (s : string) : bool :=
  match s with
  | EmptyString => true
  | String a r => andb (is_blank a) (all_blank r)
  end.

Definition blanks (n : nat) : string := String.concat "" (repeat " " n).

(* ---- Python string predicates (latin-1 code points) ---- *)
(* str.isspace *)
Definition is_pyspace (a : ascii) : bool :=
  let n := nat_of_ascii a in
  orb (andb (Nat.leb 9 n) (Nat.leb n 13))
      (orb (andb (Nat.leb 28 n) (Nat.leb n 32)) (orb (Nat.eqb n 133) (Nat.eqb n 160))).
Fixpoint all_pyspace (s : string) : bool :=          (* not s.strip() *)
  match s with
  | EmptyString => true
  | String a r => andb (is_pyspace a) (all_pyspace r)
  end.
Fixpoint lstrip_py (s : string) : string :=
  match s with
  | EmptyString => ""
  | String a r => if is_pyspace a then lstrip_py r else s
  end.
(* s.strip() (as a set of characters kept: only used to compare with "C") *)
Fixpoint rstrip_py (s : string) : string :=
  match s with
  | EmptyString => ""
  | String a r => let r' := rstrip_py r in
                  if andb (is_pyspace a) (String.eqb r' "") then "" else String a r'
  end.
Definition strip_py (s : string) : string := rstrip_py (lstrip_py s).

Definition tab_char : ascii := ascii_of_nat 9.
Definition nl_char : ascii := ascii_of_nat 10.
Definition cr_char : ascii := ascii_of_nat 13.

(* str.expandtabs(8) *)
Fixpoint expandtabs_aux (s : string) (col : nat) : string :=
  match s with
  | EmptyString => ""
  | String a r =>
      if Ascii.eqb a tab_char then
        let n := 8 - Nat.modulo col 8 in blanks n ++ expandtabs_aux r (col + n)
      else if orb (Ascii.eqb a nl_char) (Ascii.eqb a cr_char) then String a (expandtabs_aux r 0)
      else String a (expandtabs_aux r (S col))
  end.
Definition expandtabs (s : string) : string := expandtabs_aux s 0.
(* TextWrapper.unicode_whitespace_trans: "\t\n\x0b\x0c\r " -> " " *)
Definition is_munged_ws (a : ascii) : bool :=
  let n := nat_of_ascii a in orb (andb (Nat.leb 9 n) (Nat.leb n 13)) (Nat.eqb n 32).
Fixpoint translate_ws (s : string) : string :=
  match s with
  | EmptyString => ""
  | String a r => String (if is_munged_ws a then " "%char else a) (translate_ws r)
  end.
(* TextWrapper._munge_whitespace *)
Definition munge (s : string) : string := translate_ws (expandtabs s).

(* ---- montepy.utilities.is_comment ---- *)
Definition is_c (a : ascii) : bool := orb (Ascii.eqb a "c"%char) (Ascii.eqb a "C"%char).
(* s.upper().startswith("C ") : only c/C upper-case to "C" and only " " to " " *)
Definition starts_c_blank (s : string) : bool :=
  match s with
  | String a (String b _) => andb (is_c a) (is_blank b)
  | _ => false
  end.
Definition is_single_c (s : string) : bool :=        (* s.upper() == "C" *)
  match s with
  | String a EmptyString => is_c a
  | _ => false
  end.
Fixpoint has_char (c : ascii) (s : string) : bool :=
  match s with
  | EmptyString => false
  | String a r => orb (Ascii.eqb a c) (has_char c r)
  end.
Definition is_comment (line : string) : bool :=
  let upper_start := take 6 line in                  (* line[0 : BLANK_SPACE_CONTINUE + 1] *)
  let non_blank_comment := andb (negb (String.eqb upper_start "")) (starts_c_blank (lstrip_py line)) in
  if non_blank_comment then true
  else if has_char nl_char line then is_single_c (strip_py upper_start)
  else is_single_c upper_start.

(* ---- line.split("$", 1) ---- *)
Definition dollar : ascii := "$"%char.
Fixpoint before_dollar (s : string) : string :=
  match s with
  | EmptyString => ""
  | String a r => if Ascii.eqb a dollar then "" else String a (before_dollar r)
  end.
(* "$" + the text after the first '$'; "" when there is no '$' *)
Fixpoint from_dollar (s : string) : string :=
  match s with
  | EmptyString => ""
  | String a r => if Ascii.eqb a dollar then s else from_dollar r
  end.

(* ---- MCNP_Object._wrap_line ---- *)
Inductive wres : Type :=
| WOk (ls : list string)
| WFuel                      (* the model ran out of fuel (never: C10_line_total) *)
| WIndexError.               (* ret[-1] of an empty list *)

Definition of_opt (o : option (list string)) : wres :=
  match o with Some ls => WOk ls | None => WFuel end.
Definition wapp (pre : list string) (o : option (list string)) : wres :=
  match o with Some ls => WOk (List.app pre ls) | None => WFuel end.

(* one source line with the chunks TextWrapper._split gives for the line, for its data part (before the first
   '$') and for its comment part ('$' and what follows) *)
Record src_line : Type := SrcLine {
  l_text : string;
  l_chunks : list string;
  l_data_chunks : list string;
  l_comment_chunks : list string
}.

Definition comment_si : string := "c ".
Definition dollar_si (si : string) : string := si ++ "$ ".

(* is_comment(written) and written[:BLANK_SPACE_CONTINUE].strip(): the written line is a comment line whose C is
   within the first [cont] columns *)
Definition comment_branch (cont : nat) (written : string) : bool :=
  andb (is_comment written) (negb (all_pyspace (take cont written))).

(* the body of _wrap_line on the tab-expanded line and the chunks of its parts; [cont] = BLANK_SPACE_CONTINUE *)
Definition wrap_line_chunks (W cont : nat) (ii si : string) (l : src_line) : wres :=
  let line := l_text l in
  if Nat.leb (slen ii + slen line) W then of_opt (wrap_chunks W ii si (l_chunks l))
  else
    if comment_branch cont (ii ++ line)
    then of_opt (wrap_chunks W ii comment_si (l_chunks l))
    else if negb (has_char dollar line) then of_opt (wrap_chunks W ii si (l_chunks l))
    else
      let data := before_dollar line in
      let comment := from_dollar line in
      if negb (all_pyspace data) then
        match wrap_chunks W ii si (l_data_chunks l) with
        | None => WFuel
        | Some [] => WIndexError
        | Some ret =>
            let lst := List.last ret "" in
            if Nat.leb (slen lst + slen comment) W then WOk (List.app (removelast ret) [lst ++ comment])
            else if Nat.ltb (slen lst) (Nat.div W 2)
            then wapp (removelast ret) (wrap_chunks W lst (dollar_si si) (l_comment_chunks l))
            else wapp ret (wrap_chunks W si (dollar_si si) (l_comment_chunks l))
        end
      else
        let ci := ii ++ data in
        of_opt (wrap_chunks W (if Nat.leb (Nat.div W 2) (slen ci) then si else ci) (dollar_si si)
                            (l_comment_chunks l)).

(* wrapper.wrap(text): _munge_whitespace, then _split with break_on_hyphens = False *)
Definition chunks_of (text : string) : list string := split_ws (munge text).

(* MCNP_Object._wrap_line(wrapper, line) *)
Definition wrap_line (W cont : nat) (ii si : string) (line0 : string) : wres :=
  let line := expandtabs line0 in
  wrap_line_chunks W cont ii si
    (SrcLine line (chunks_of line) (chunks_of (before_dollar line)) (chunks_of (from_dollar line))).

Definition keep_part (s : string) : bool := negb (all_pyspace s).      (* if part.strip() *)

(* wrap_string_for_mcnp: [lines] are the splitlines() of the formatted text; blank-only lines are skipped; every
   line is wrapped on its own; wrapped parts of only blanks are dropped *)
Fixpoint wrap_lines (W : nat) (cont : nat) (is_first : bool) (lines : list string) : wres :=
  match lines with
  | [] => WOk []
  | l :: r =>
      if all_pyspace l then wrap_lines W cont is_first r
      else
        match wrap_line W cont (if is_first then "" else blanks cont) (blanks cont) l with
        | WOk a =>
            match wrap_lines W cont is_first r with
            | WOk b => WOk (List.app (filter keep_part a) b)
            | e => e
            end
        | e => e
        end
  end.

(* Message / Title (montepy/input_parser/mcnp_input.py) *)
(* Title.format_for_mcnp_input: [self.title[0 : line_length - 1]] *)
Definition title_line (W : nat) (title : string) : string := take (W - 1) title.
(* Title.__init__: self._title = title.rstrip() *)
Definition title_init (title : string) : string := rstrip_py title.
(* Message.__init__: every line is rstrip()ped *)
Definition message_init (lines : list string) : list string := map rstrip_py lines.
(* Message.format_for_mcnp_input: "MESSAGE: " + lines[0][0 : line_length - 10], the other lines [0 : line_length - 1],
   then the blank line that ends the block *)
Definition message_prefix : string := "MESSAGE: ".
Definition message_lines (W : nat) (lines : list string) : list string :=
  match lines with
  | [] => [""]
  | l0 :: r => (message_prefix ++ take (W - 10) l0) :: List.app (map (take (W - 1)) r) [""]
  end.

(* ---- wire ----
   "<W> <first:0|1> <cont> <hex line>/<hex line>/..."  ->  hex lines joined by ','   ("-" = no line);
   "x" stands for the empty line *)
(* linear-time splitting (Wire.split_on is quadratic in the length of a field; requests here are long) *)
Fixpoint rev_onto (s acc : string) : string :=
  match s with
  | EmptyString => acc
  | String a r => rev_onto r (String a acc)
  end.
Fixpoint fsplit_aux (c : ascii) (s : string) (cur : string) : list string :=
  match s with
  | EmptyString => [rev_onto cur ""]
  | String a r =>
      if Ascii.eqb a c then rev_onto cur "" :: fsplit_aux c r ""
      else fsplit_aux c r (String a cur)
  end.
Definition fsplit (c : ascii) (s : string) : list string := fsplit_aux c s "".
Definition fwords (s : string) : list string :=
  filter (fun w => negb (String.eqb w "")) (fsplit " "%char s).

Definition parse_line (s : string) : string := if String.eqb s "x" then "" else hex_decode s.
Definition show_wres (r : wres) : string :=
  match r with
  | WOk out => show_list hex_encode out
  | WFuel => "outoffuel"
  | WIndexError => "IndexError"
  end.
Definition run_Wrap (req : string) : string :=
  match fwords req with
  | ["message"; w; init; ls] =>
      (* init = 1: the lines as given to Message(...); 0: the lines of an existing object (after an edit) *)
      match parse_nat w with
      | Some W =>
          let lines := if String.eqb ls "-" then [] else map parse_line (fsplit "/"%char ls) in
          show_list (fun x => if String.eqb x "" then "x" else hex_encode x)
                    (message_lines W (if String.eqb init "1" then message_init lines else lines))
      | None => "parse:err"
      end
  | [w; f; c; ls] =>
      match parse_nat w, parse_nat c with
      | Some W, Some cont =>
          show_wres (wrap_lines W cont (String.eqb f "1")
                                (if String.eqb ls "-" then [] else map parse_line (fsplit "/"%char ls)))
      | _, _ => "parse:err"
      end
  | ["title"; w; t] =>
      match parse_nat w with Some W => hex_encode (title_line W (title_init (parse_line t))) | None => "parse:err" end
  | ["splitws"; t] => show_list hex_encode (split_ws (hex_decode t))
  | ["iscomment"; t] => if is_comment (if String.eqb t "x" then "" else hex_decode t) then "1" else "0"
  | ["munge"; t] => hex_encode (munge (hex_decode t))
  | _ => "parse:err"
  end.
