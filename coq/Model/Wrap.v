(* Wrap.v — executable model of the line wrapping MontePy applies to every formatted input:
   montepy/mcnp_object.py: MCNP_Object.wrap_string_for_mcnp, which drives Python's
   textwrap.TextWrapper(width, initial_indent, subsequent_indent = 5 blanks, drop_whitespace=False)
   with its defaults break_long_words = break_on_hyphens = True.

   Modelled here: TextWrapper._wrap_chunks and _handle_long_word (CPython 3.12), the blank-line
   filter and per-line loop of wrap_string_for_mcnp, Message/Title truncation.
   NOT modelled: TextWrapper._split (the chunking regular expression).  The chunks are an input;
   [split_ws] below is the chunking of hyphen-free text (maximal runs of blanks / non-blanks) and the
   correspondence checks on every case that the real chunks concatenate to the munged text and, for
   text without '-', equal [split_ws].  No proofs in this file. *)
From Coq Require Import List String Ascii Arith Bool Lia.
From MPV Require Import Model.Wire.
Import ListNotations.
Open Scope string_scope.

Definition slen := String.length.

Fixpoint take (n : nat) (s : string) : string :=
  match n, s with
  | O, _ => ""
  | _, EmptyString => ""
  | S k, String a r => String a (take k r)
  end.
Fixpoint drop (n : nat) (s : string) : string :=
  match n, s with
  | O, _ => s
  | _, EmptyString => ""
  | S k, String a r => drop k r
  end.

Definition is_hyphen (a : ascii) : bool := Ascii.eqb a "-"%char.

(* chunk.rfind('-', 0, limit): greatest i < limit with chunk[i] = '-' *)
Fixpoint rfind_hyphen_aux (s : string) (i limit : nat) (best : option nat) : option nat :=
  match s with
  | EmptyString => best
  | String a r =>
      if Nat.ltb i limit
      then rfind_hyphen_aux r (S i) limit (if is_hyphen a then Some i else best)
      else best
  end.
Definition rfind_hyphen (s : string) (limit : nat) : option nat := rfind_hyphen_aux s 0 limit None.

Fixpoint all_hyphens (s : string) : bool :=
  match s with
  | EmptyString => true
  | String a r => andb (is_hyphen a) (all_hyphens r)
  end.

(* _handle_long_word with break_long_words and break_on_hyphens: the cut position *)
Definition long_word_cut (chunk : string) (space_left : nat) : nat :=
  if Nat.ltb space_left (slen chunk) then
    match rfind_hyphen chunk space_left with
    | Some h => if andb (Nat.ltb 0 h) (negb (all_hyphens (take h chunk))) then S h else space_left
    | None => space_left
    end
  else space_left.

(* the inner loop: put chunks on the line while they fit *)
Fixpoint fill (chunks : list string) (cur : string) (cur_len width : nat) (any : bool)
  : string * nat * bool * list string :=
  match chunks with
  | [] => (cur, cur_len, any, [])
  | c :: r =>
      if Nat.leb (cur_len + slen c) width
      then fill r (cur ++ c) (cur_len + slen c) width true
      else (cur, cur_len, any, chunks)
  end.

(* one line: returns the line body (without indent), whether cur_line is a non-empty list,
   and the chunks left *)
Definition one_line (chunks : list string) (width : nat) : string * bool * list string :=
  match fill chunks "" 0 width false with
  | (cur, cur_len, any, rest) =>
      match rest with
      | c :: r =>
          if Nat.ltb width (slen c) then
            let space_left := if Nat.ltb width 1 then 1 else width - cur_len in
            let e := long_word_cut c space_left in
            (cur ++ take e c, true, drop e c :: r)
          else (cur, any, rest)
      | [] => (cur, any, rest)
      end
  end.

(* _wrap_chunks; None = out of fuel *)
Fixpoint wrap_loop (fuel : nat) (first : bool) (chunks : list string) (W : nat) (ii si : string)
  : option (list string) :=
  match chunks with
  | [] => Some []
  | _ =>
      match fuel with
      | O => None
      | S f =>
          let indent := if first then ii else si in
          let width := W - slen indent in
          match one_line chunks width with
          | (body, any, rest) =>
              match wrap_loop f (if any then false else first) rest W ii si with
              | Some ls => Some (if any then (indent ++ body) :: ls else ls)
              | None => None
              end
          end
      end
  end.

Fixpoint total_len (chunks : list string) : nat :=
  match chunks with [] => 0 | c :: r => slen c + total_len r end.

Definition wrap_chunks (W : nat) (ii si : string) (chunks : list string) : option (list string) :=
  wrap_loop (S (total_len chunks + List.length chunks)) true chunks W ii si.

(* chunking of hyphen-free, already munged text: maximal runs of blanks and of non-blanks *)
Definition is_blank (a : ascii) : bool := Ascii.eqb a " "%char.
Fixpoint split_ws_aux (s : string) (cur : string) (cur_blank : bool) : list string :=
  match s with
  | EmptyString => if String.eqb cur "" then [] else [cur]
  | String a r =>
      if String.eqb cur "" then split_ws_aux r (String a "") (is_blank a)
      else if Bool.eqb (is_blank a) cur_blank then split_ws_aux r (cur ++ String a "") cur_blank
      else cur :: split_ws_aux r (String a "") (is_blank a)
  end.
Definition split_ws (s : string) : list string := split_ws_aux s "" false.

Fixpoint all_blank (s : string) : bool :=
  match s with
  | EmptyString => true
  | String a r => andb (is_blank a) (all_blank r)
  end.

Definition blanks (n : nat) : string := String.concat "" (repeat " " n).

(* wrap_string_for_mcnp: [lines] are the splitlines() of the formatted text, each given by its chunks;
   blank-only lines are skipped; every line is wrapped on its own *)
Fixpoint wrap_lines (W : nat) (cont : nat) (is_first : bool) (lines : list (list string))
  : option (list string) :=
  match lines with
  | [] => Some []
  | l :: r =>
      if all_blank (String.concat "" l) then wrap_lines W cont is_first r
      else
        match wrap_chunks W (if is_first then "" else blanks cont) (blanks cont) l,
              wrap_lines W cont is_first r with
        | Some a, Some b => Some (List.app (filter (fun x => negb (all_blank x)) a) b)   (* fix: blank-only wrapped lines are dropped *)
        | _, _ => None
        end
  end.

(* Message / Title truncation (montepy/input_parser/mcnp_input.py) *)
Definition title_line (W : nat) (title : string) : string := take (W - 1) title.
Definition message_lines (W : nat) (lines : list string) : list string :=
  match lines with
  | [] => [""]
  | l0 :: r => ("MESSAGE: " ++ take (W - 10) l0) :: List.app (map (take (W - 1)) r) [""]
  end.

(* ---- wire: "<W> <first:0|1> <cont> <hexchunk,hexchunk,...>/<...>/..."  ->  hex lines joined by ',' *)
Definition run_Wrap (req : string) : string :=
  match words req with
  | [w; f; c; ls] =>
      match parse_nat w, parse_nat c with
      | Some W, Some cont =>
          let lines := map (fun l => if String.eqb l "-" then [] else map hex_decode (split_on ","%char l))
                           (split_on "/"%char ls) in
          match wrap_lines W cont (String.eqb f "1") lines with
          | Some out => show_list hex_encode out
          | None => "outoffuel"
          end
      | _, _ => "parse:err"
      end
  | ["title"; w; t] =>
      match parse_nat w with Some W => hex_encode (title_line W (hex_decode t)) | None => "parse:err" end
  | ["splitws"; t] => show_list hex_encode (split_ws (hex_decode t))
  | _ => "parse:err"
  end.
