(* ReadQ.v — executable model of how MontePy follows read cards.

   Modelled (source):
     montepy/input_parser/input_syntax_reader.py   read_input_syntax (queue reset), read_data.flush_input's read-card
                                                   test, the module-global reading_queue, the drain loop after the
                                                   main file (block type recorded with the card, path =
                                                   os.path.join(os.path.dirname(top), name), recursion=True for
                                                   sub-files: their read cards join the same queue, their blank lines
                                                   advance their own block counter)
     montepy/input_parser/mcnp_input.py            ReadInput.is_read_input (exactly)
     posixpath                                     dirname, join
   Approximated: ReadInput.__init__'s SLY parse (ReadParser + lexer).  [read_name] recognises the class
       [comment lines] read <padding> file <padding | = | padding = padding> NAME <padding>
     where padding is blanks, a " &" before a line break, a line break, '$' comments and C comment lines, and NAME
     is a non-empty run of  A-Z a-z 0-9 _ . / -  ; everything else that starts with the word "read" is answered
     ParsingError.  (The real lexer also rejects some NAMEs inside this class, e.g. ones containing a shortcut-like
     piece such as 2r or 3i, and accepts further parameters; the harness generates inside the class.)
   The file system is an association list from the path strings handed to open() to file bytes; a relative path
   is looked up under the working directory.  No proofs in this file. *)
From Coq Require Import List String Ascii Arith Bool Lia.
From MPV Require Import Model.Wire Model.Lines.
Import ListNotations.
Open Scope string_scope.

(* ------------------------------------------------------------------ ReadInput.is_read_input *)
Fixpoint first_non_comment (raw : list string) : string :=
  match raw with
  | [] => ""
  | l :: r => if is_comment l then first_non_comment r else l
  end.

(* first element of str.split() *)
Fixpoint take_word (s : string) : string :=
  match s with
  | EmptyString => EmptyString
  | String a r => if py_space a then EmptyString else String a (take_word r)
  end.
Definition first_word (s : string) : string := take_word (lstrip s).

Definition is_read_input (raw : list string) : bool :=
  String.eqb (lower (first_word (first_non_comment raw))) "read".

(* ------------------------------------------------------------------ the read card's file name (approximation) *)
Inductive rc := RcNot | RcName (n : string) | RcErr.

Definition name_char (a : ascii) : bool :=
  let n := nat_of_ascii a in
  orb (andb (Nat.leb 48 n) (Nat.leb n 57))
 (orb (andb (Nat.leb 65 n) (Nat.leb n 90))
 (orb (andb (Nat.leb 97 n) (Nat.leb n 122))
 (orb (Ascii.eqb a "_"%char) (orb (Ascii.eqb a "."%char) (orb (Ascii.eqb a "/"%char) (Ascii.eqb a "-"%char)))))).

Fixpoint all_chars (p : ascii -> bool) (s : string) : bool :=
  match s with
  | EmptyString => true
  | String a r => andb (p a) (all_chars p r)
  end.
Definition name_ok (s : string) : bool := andb (negb (is_empty s)) (all_chars name_char s).

(* '&' is padding when a blank (or nothing) precedes it; '=' becomes a word of its own *)
Fixpoint pad_text (prev_blank : bool) (s : string) : option string :=
  match s with
  | EmptyString => Some EmptyString
  | String a r =>
      if Ascii.eqb a "&"%char then
        if prev_blank then option_map (String sp) (pad_text true r) else None
      else if Ascii.eqb a "="%char then
        option_map (fun t => String sp (String a (String sp t))) (pad_text true r)
      else option_map (String a) (pad_text (py_space a) r)
  end.

Definition rc_text (raw : list string) : string :=
  join " " (map spec_data (filter (fun l => negb (is_comment l)) raw)).

Definition py_words (s : string) : list string :=
  words (smap (fun a => if py_space a then sp else a) s).

Definition read_name (raw : list string) : rc :=
  match pad_text true (rc_text raw) with
  | None => RcErr
  | Some t =>
      match py_words t with
      | [r; f; n] =>
          if andb (String.eqb (lower r) "read") (andb (String.eqb (lower f) "file") (name_ok n))
          then RcName n else RcErr
      | [r; f; e; n] =>
          if andb (String.eqb (lower r) "read")
            (andb (String.eqb (lower f) "file") (andb (String.eqb e "=") (name_ok n)))
          then RcName n else RcErr
      | _ => RcErr
      end
  end.

Definition classify (i : input) : rc :=
  if is_read_input (i_lines i) then read_name (i_lines i) else RcNot.

(* ------------------------------------------------------------------ posixpath *)
Fixpoint rfind_slash (s : string) (i : nat) (best : option nat) : option nat :=
  match s with
  | EmptyString => best
  | String a r => rfind_slash r (S i) (if Ascii.eqb a "/"%char then Some i else best)
  end.

Fixpoint all_slash (s : string) : bool :=
  match s with
  | EmptyString => true
  | String a r => andb (Ascii.eqb a "/"%char) (all_slash r)
  end.

Fixpoint rstrip_slash (s : string) : string :=
  match s with
  | EmptyString => EmptyString
  | String a r => if all_slash s then EmptyString else String a (rstrip_slash r)
  end.

Definition dirname (p : string) : string :=
  match rfind_slash p 0 None with
  | None => ""
  | Some i =>
      let head := takeS (S i) p in
      if all_slash head then head else rstrip_slash head
  end.

Definition is_abs (p : string) : bool := String.prefix "/" p.

Definition path_join (a b : string) : string :=
  if is_abs b then b
  else if orb (is_empty a) (ends_with "/" a) then a ++ b
  else a ++ "/" ++ b.

(* ------------------------------------------------------------------ file system *)
Definition fsys := list (string * string).

Fixpoint lookup (fs : fsys) (p : string) : option string :=
  match fs with
  | [] => None
  | (k, v) :: r => if String.eqb k p then Some v else lookup r p
  end.

Definition abs_path (cwd p : string) : string := if is_abs p then p else cwd ++ "/" ++ p.
Definition fs_open (fs : fsys) (cwd p : string) : option string := lookup fs (abs_path cwd p).
Definition fs_text (fs : fsys) (cwd p : string) : option (list string) := option_map file_lines (fs_open fs cwd p).

(* ------------------------------------------------------------------ flush_input over the inputs of one file *)
Definition qitem := (nat * string * string)%type.      (* block type, file name, parent path *)

Inductive yielded := YInput (path : string) (i : input) | YNone.

Inductive ra_err := E_Unsupported | E_Parsing | E_FileNotFound | E_OutOfFuel.

(* the inputs before the first read card that does not parse, and whether there is one *)
Fixpoint cut_at_err (ins : list input) : list input * bool :=
  match ins with
  | [] => ([], false)
  | i :: r =>
      match classify i with
      | RcErr => ([], true)
      | _ => let (p, e) := cut_at_err r in (i :: p, e)
      end
  end.

Definition yield_of (path : string) (i : input) : yielded :=
  match classify i with RcName _ => YNone | _ => YInput path i end.

Definition queue_of (path : string) (ins : list input) : list qitem :=
  flat_map (fun i => match classify i with RcName n => [(i_bt i, n, path)] | _ => [] end) ins.

(* one file: what it yields, what it queues, how it ends *)
Definition scan_file (w bt : nat) (path : string) (ls : list string)
  : list yielded * list qitem * option ra_err :=
  let (ins, e) := read_data_from w bt ls in
  let (pre, perr) := cut_at_err ins in
  (map (yield_of path) pre, queue_of path pre,
   if perr then Some E_Parsing else match e with Some _ => Some E_Unsupported | None => None end).

(* the drain loop; one unit of fuel per file opened *)
Fixpoint drain (fuel : nat) (fs : fsys) (cwd dir : string) (w : nat) (q : list qitem)
  : list yielded * option ra_err :=
  match q with
  | [] => ([], None)
  | (bt, name, parent) :: q' =>
      match fuel with
      | O => ([], Some E_OutOfFuel)
      | S f =>
          let p := path_join dir name in
          match fs_text fs cwd p with
          | None => ([], Some E_FileNotFound)
          | Some ls =>
              match scan_file w bt p ls with
              | (ys, qs, Some e) => (ys, Some e)
              | (ys, qs, None) =>
                  let (ys', e') := drain f fs cwd dir w (List.app q' qs) in
                  (List.app ys ys', e')
              end
          end
      end
  end.

Record ra_result := mkRA {
  ra_message : option (list string);
  ra_title : option string;
  ra_yields : list yielded;
  ra_error : option ra_err
}.

Definition read_all (w : nat) (fs : fsys) (cwd top : string) (fuel : nat) : ra_result :=
  match fs_text fs cwd top with
  | None => mkRA None None [] (Some E_FileNotFound)
  | Some ls =>
      let fm := read_front_matters ls in
      match scan_file w 0 top (f_rest fm) with
      | (ys, qs, Some e) => mkRA (f_message fm) (f_title fm) ys (Some e)
      | (ys, qs, None) =>
          let (ys', e') := drain fuel fs cwd (dirname top) w qs in
          mkRA (f_message fm) (f_title fm) (List.app ys ys') e'
      end
  end.

Definition inputs_of (ys : list yielded) : list (string * input) :=
  flat_map (fun y => match y with YInput p i => [(p, i)] | YNone => [] end) ys.

(* reading one file without following its read cards (they are still dropped from the stream) *)
Definition read_single (w : nat) (ls : list string) : list yielded * option ra_err :=
  match scan_file w 0 "" (f_rest (read_front_matters ls)) with (ys, _, e) => (ys, e) end.

(* ------------------------------------------------------------------ specification: breadth-first order,
   stated without a queue.  An item is a read card that was met: (block type, file name, parent). *)
Definition item_path (dir : string) (it : qitem) : string := path_join dir (snd (fst it)).

Definition item_scan (w : nat) (fs : fsys) (cwd dir : string) (it : qitem)
  : option (list yielded * list qitem * option ra_err) :=
  option_map (scan_file w (fst (fst it)) (item_path dir it)) (fs_text fs cwd (item_path dir it)).

(* the file exists and is read to its end without an error *)
Definition item_ok (w : nat) (fs : fsys) (cwd dir : string) (it : qitem) : Prop :=
  exists ys qs, item_scan w fs cwd dir it = Some (ys, qs, None).

Definition item_yields (w : nat) (fs : fsys) (cwd dir : string) (it : qitem) : list yielded :=
  match item_scan w fs cwd dir it with Some (ys, _, _) => ys | None => [] end.

Definition item_children (w : nat) (fs : fsys) (cwd dir : string) (it : qitem) : list qitem :=
  match item_scan w fs cwd dir it with Some (_, qs, _) => qs | None => [] end.

Definition next_gen (w : nat) (fs : fsys) (cwd dir : string) (g : list qitem) : list qitem :=
  flat_map (item_children w fs cwd dir) g.

(* the n-th generation below g, and the first n generations listed one after the other *)
Fixpoint gen_at (n : nat) (w : nat) (fs : fsys) (cwd dir : string) (g : list qitem) : list qitem :=
  match n with O => g | S k => gen_at k w fs cwd dir (next_gen w fs cwd dir g) end.

Fixpoint bfs (n : nat) (w : nat) (fs : fsys) (cwd dir : string) (g : list qitem) : list qitem :=
  match n with O => [] | S k => List.app g (bfs k w fs cwd dir (next_gen w fs cwd dir g)) end.

Definition blank_free (ls : list string) : Prop :=
  Forall (fun l => all_space (expandtabs TABSIZE l) = false) ls.

(* ------------------------------------------------------------------ wire
   readall <w> <fuel> <cwdhex> <tophex> <pathhex>=<byteshex>,...   ("-" = no file, "-" = empty bytes)
   isread <hexline,hexline..>      name <hexline,...>      dirname <hex>     join <hex> <hex> *)
Definition show_yield (y : yielded) : string :=
  match y with
  | YNone => "N"
  | YInput p i => hex_encode p ++ ":" ++ show_input i
  end.

Definition show_ra_err (e : option ra_err) : string :=
  match e with
  | None => "ok"
  | Some E_Unsupported => "UnsupportedFeature"
  | Some E_Parsing => "ParsingError"
  | Some E_FileNotFound => "FileNotFoundError"
  | Some E_OutOfFuel => "outoffuel"
  end.

Definition parse_fs (s : string) : fsys :=
  if String.eqb s "-" then []
  else flat_map (fun kv => match split_on "="%char kv with
                           | [k; v] => [(hex_decode k, hex_decode v)]
                           | _ => []
                           end) (split_on ","%char s).

Definition parse_lines (s : string) : list string :=
  if String.eqb s "-" then [] else map hex_decode (split_on ","%char s).

Definition run_ReadQ (req : string) : string :=
  match words req with
  | ["readall"; w; fuel; cwd; top; fs] =>
      match parse_nat w, parse_nat fuel with
      | Some W, Some F =>
          let r := read_all W (parse_fs fs) (hex_decode cwd) (hex_decode top) F in
          (match ra_message r with None => "none" | Some m => "m" ++ show_list hex_encode m end) ++ " " ++
          show_opt (ra_title r) ++ " " ++
          (match ra_yields r with [] => "-" | ys => join ";" (map show_yield ys) end) ++ " " ++
          show_ra_err (ra_error r)
      | _, _ => "parse:err"
      end
  | ["isread"; ls] => if is_read_input (parse_lines ls) then "1" else "0"
  | ["name"; ls] =>
      match read_name (parse_lines ls) with
      | RcName n => "n" ++ hex_encode n
      | RcErr => "err"
      | RcNot => "not"
      end
  | ["dirname"; p] => "d" ++ hex_encode (dirname (hex_decode p))
  | ["join"; a; b] => "j" ++ hex_encode (path_join (hex_decode a) (hex_decode b))
  | _ => "parse:err"
  end.
