(* ReadQ.v — executable model of how MontePy follows read cards.

   Modelled (source):
     montepy/input_parser/input_syntax_reader.py   read_input_syntax (queue reset), read_data.flush_input's read-card
                                                   test, the module-global reading_queue, the drain loop after the
                                                   main file (block type recorded with the card, path =
                                                   os.path.join(os.path.dirname(top), name), recursion=True for
                                                   sub-files: their read cards join the same queue, their blank lines
                                                   advance their own block counter; the cycle test of commit 2963569:
                                                   os.path.realpath keys, the lineage dictionary, MalformedInputError
                                                   before the target is opened: drain_g / read_all_gft / read_all)
     montepy/input_parser/mcnp_input.py            ReadInput.is_read_input (exactly)
     posixpath                                     dirname, join
   Approximated: ReadInput.__init__'s SLY parse (ReadParser + lexer).  [read_name] recognises the class
       [comment lines] read <padding> file <padding | = | padding = padding> NAME <padding>
     where padding is blanks, a " &" before a line break, a line break, '$' comments and C comment lines, and NAME
     is a non-empty run of  A-Z a-z 0-9 _ . / -  in which no letter and no '-' directly follows a digit and no
     'e', 'E' or '-' directly follows a '.' (the lexer would cut such a name into number-like pieces: 2r, 3i, 1-,
     1.e are answered ParsingError or a bare ValueError), and which is not the single letter c ("read file=c $ x"
     is lexed as the file name "c $ x"); everything else that starts with the word "read" is
     answered ParsingError here (an approximation: the real parser accepts some names outside the class, e.g. 1a.i,
     and leaks LexError for a double quote; the harness generates names inside the class and samples the boundary).
   The file system is an association list from the path strings handed to open() to file bytes; a relative path
   is looked up under the working directory.  The drain loop itself only sees [ft : path -> option lines]
   (open + iterate), so that it can be run on a byte file system ([fs_text fs cwd]) or on a tree of files given
   by their cards ([tree_ft], second half of this file: the specification side).
   montepy/mcnp_problem.py: parse_input appends the yielded inputs to the cells / surfaces / data_inputs
   collections by block type and ignores the None yielded for a read card; write_to_file writes those three
   collections in that order: [written_blocks].  No proofs in this file. *)
From Coq Require Import List String Ascii Arith Bool Lia.
From MPV Require Import Model.Wire Model.Lines.
Import ListNotations.
Open Scope string_scope.

(* ------------------------------------------------------------------ ReadInput.is_read_input *)
Fixpoint first_non_comment (raw : list string) : string :=
  match raw with
  | [] => ""
  | l :: r => if is_comment l then first_non_comment r else l
  end.

(* first element of str.split() *)
Fixpoint take_word (s : string) : string :=
  match s with
  | EmptyString => EmptyString
  | String a r => if py_space a then EmptyString else String a (take_word r)
  end.
Definition first_word (s : string) : string := take_word (lstrip s).

Definition is_read_input (raw : list string) : bool :=
  String.eqb (lower (first_word (first_non_comment raw))) "read".

(* ------------------------------------------------------------------ the read card's file name (approximation) *)
Inductive rc := RcNot | RcName (n : string) | RcErr.

Definition name_char (a : ascii) : bool :=
  let n := nat_of_ascii a in
  orb (andb (Nat.leb 48 n) (Nat.leb n 57))
 (orb (andb (Nat.leb 65 n) (Nat.leb n 90))
 (orb (andb (Nat.leb 97 n) (Nat.leb n 122))
 (orb (Ascii.eqb a "_"%char) (orb (Ascii.eqb a "."%char) (orb (Ascii.eqb a "/"%char) (Ascii.eqb a "-"%char)))))).

Fixpoint all_chars (p : ascii -> bool) (s : string) : bool :=
  match s with
  | EmptyString => true
  | String a r => andb (p a) (all_chars p r)
  end.
Definition is_digit (a : ascii) : bool := let n := nat_of_ascii a in andb (Nat.leb 48 n) (Nat.leb n 57).
Definition is_letter (a : ascii) : bool :=
  let n := nat_of_ascii a in orb (andb (Nat.leb 65 n) (Nat.leb n 90)) (andb (Nat.leb 97 n) (Nat.leb n 122)).
Definition is_e (a : ascii) : bool := orb (Ascii.eqb a "e"%char) (Ascii.eqb a "E"%char).

(* no letter and no '-' directly after a digit, no e / E / '-' directly after a '.' *)
Fixpoint name_seq (prev : ascii) (s : string) : bool :=
  match s with
  | EmptyString => true
  | String a r =>
      andb (negb (andb (is_digit prev) (orb (is_letter a) (Ascii.eqb a "-"%char))))
     (andb (negb (andb (Ascii.eqb prev "."%char) (orb (is_e a) (Ascii.eqb a "-"%char))))
           (name_seq a r))
  end.

Definition name_ok (s : string) : bool :=
  andb (negb (is_empty s))
 (andb (all_chars name_char s)
 (andb (name_seq " "%char s) (negb (String.eqb (lower s) "c")))).      (* "c $ x" is lexed as one comment-like token *)

(* '&' is padding when a blank (or nothing) precedes it; '=' becomes a word of its own *)
Fixpoint pad_text (prev_blank : bool) (s : string) : option string :=
  match s with
  | EmptyString => Some EmptyString
  | String a r =>
      if Ascii.eqb a "&"%char then
        if prev_blank then option_map (String sp) (pad_text true r) else None
      else if Ascii.eqb a "="%char then
        option_map (fun t => String sp (String a (String sp t))) (pad_text true r)
      else option_map (String a) (pad_text (py_space a) r)
  end.

Definition rc_text (raw : list string) : string :=
  join " " (map spec_data (filter (fun l => negb (is_comment l)) raw)).

Definition py_words (s : string) : list string :=
  words (smap (fun a => if py_space a then sp else a) s).

Definition read_name (raw : list string) : rc :=
  match pad_text true (rc_text raw) with
  | None => RcErr
  | Some t =>
      match py_words t with
      | [r; f; n] =>
          if andb (String.eqb (lower r) "read") (andb (String.eqb (lower f) "file") (name_ok n))
          then RcName n else RcErr
      | [r; f; e; n] =>
          if andb (String.eqb (lower r) "read")
            (andb (String.eqb (lower f) "file") (andb (String.eqb e "=") (name_ok n)))
          then RcName n else RcErr
      | _ => RcErr
      end
  end.

Definition classify_lines (raw : list string) : rc :=
  if is_read_input raw then read_name raw else RcNot.
Definition classify (i : input) : rc := classify_lines (i_lines i).

Definition is_name (r : rc) : bool := match r with RcName _ => true | _ => false end.
Definition is_rcerr (r : rc) : bool := match r with RcErr => true | _ => false end.

(* ------------------------------------------------------------------ posixpath *)
Fixpoint rfind_slash (s : string) (i : nat) (best : option nat) : option nat :=
  match s with
  | EmptyString => best
  | String a r => rfind_slash r (S i) (if Ascii.eqb a "/"%char then Some i else best)
  end.

Fixpoint all_slash (s : string) : bool :=
  match s with
  | EmptyString => true
  | String a r => andb (Ascii.eqb a "/"%char) (all_slash r)
  end.

Fixpoint rstrip_slash (s : string) : string :=
  match s with
  | EmptyString => EmptyString
  | String a r => if all_slash s then EmptyString else String a (rstrip_slash r)
  end.

Definition dirname (p : string) : string :=
  match rfind_slash p 0 None with
  | None => ""
  | Some i =>
      let head := takeS (S i) p in
      if all_slash head then head else rstrip_slash head
  end.

Definition is_abs (p : string) : bool := String.prefix "/" p.

Definition path_join (a b : string) : string :=
  if is_abs b then b
  else if orb (is_empty a) (ends_with "/" a) then a ++ b
  else a ++ "/" ++ b.

(* ------------------------------------------------------------------ file system *)
Definition fsys := list (string * string).

Fixpoint lookup (fs : fsys) (p : string) : option string :=
  match fs with
  | [] => None
  | (k, v) :: r => if String.eqb k p then Some v else lookup r p
  end.

Definition abs_path (cwd p : string) : string := if is_abs p then p else cwd ++ "/" ++ p.
Definition fs_open (fs : fsys) (cwd p : string) : option string := lookup fs (abs_path cwd p).
Definition fs_text (fs : fsys) (cwd p : string) : option (list string) := option_map file_lines (fs_open fs cwd p).

(* ------------------------------------------------------------------ flush_input over the inputs of one file *)
Definition qitem := (nat * string * string)%type.      (* block type, file name, parent path *)

Inductive yielded := YInput (path : string) (i : input) | YNone.

Inductive ra_err := E_Unsupported | E_Parsing | E_FileNotFound | E_OutOfFuel | E_Cycle.

(* the inputs before the first read card that does not parse, and whether there is one *)
Fixpoint cut_at_err (ins : list input) : list input * bool :=
  match ins with
  | [] => ([], false)
  | i :: r =>
      match classify i with
      | RcErr => ([], true)
      | _ => let (p, e) := cut_at_err r in (i :: p, e)
      end
  end.

Definition yield_of (path : string) (i : input) : yielded :=
  match classify i with RcName _ => YNone | _ => YInput path i end.

Definition queue_of (path : string) (ins : list input) : list qitem :=
  flat_map (fun i => match classify i with RcName n => [(i_bt i, n, path)] | _ => [] end) ins.

(* one file: what it yields, what it queues, how it ends.  [rec] is read_data's recursion argument: False for the
   top-level file (read up to the blank line that ends its third block), True for a file named by a read card *)
Definition read_data_rec (w : nat) (rec : bool) (bt : nat) (ls : list string) : list input * option rd_err :=
  rd_loop w rec ls 0 0 bt false false [].

Definition scan_file (w : nat) (rec : bool) (bt : nat) (path : string) (ls : list string)
  : list yielded * list qitem * option ra_err :=
  let (ins, e) := read_data_rec w rec bt ls in
  let (pre, perr) := cut_at_err ins in
  (map (yield_of path) pre, queue_of path pre,
   if perr then Some E_Parsing else match e with Some _ => Some E_Unsupported | None => None end).

(* open(path) + iteration over the cleaned lines *)
Definition opener := string -> option (list string).

(* the drain loop as it was before /repo commit 2963569 (no cycle test); one unit of fuel per file opened.  The
   theorems about the order of the stream are proved about this loop and carried over to the present one
   ([drain_g], below) by ReadQProofs.drain_g_transparent: unless it reports a cycle, drain_g is this loop. *)
Fixpoint drain (fuel : nat) (ft : opener) (dir : string) (w : nat) (q : list qitem)
  : list yielded * option ra_err :=
  match q with
  | [] => ([], None)
  | (bt, name, parent) :: q' =>
      match fuel with
      | O => ([], Some E_OutOfFuel)
      | S f =>
          let p := path_join dir name in
          match ft p with
          | None => ([], Some E_FileNotFound)
          | Some ls =>
              match scan_file w true bt p ls with
              | (ys, qs, Some e) => (ys, Some e)
              | (ys, qs, None) =>
                  let (ys', e') := drain f ft dir w (List.app q' qs) in
                  (List.app ys ys', e')
              end
          end
      end
  end.

(* ------------------------------------------------------------------ the drain loop of the code (commit 2963569):
   for every file read so far the set of files that led to it (os.path.realpath keys); a read card whose target is
   among the files that led to its own file raises MalformedInputError before the target is opened.
   realpath is modelled as normpath(abspath) : the model's file systems have no symbolic links. *)
Fixpoint norm_segs (segs acc : list string) : list string :=      (* acc is reversed *)
  match segs with
  | [] => rev acc
  | sg :: r =>
      if orb (is_empty sg) (String.eqb sg ".") then norm_segs r acc
      else if String.eqb sg ".." then norm_segs r (List.tl acc)
      else norm_segs r (sg :: acc)
  end.

Definition realpath (cwd p : string) : string :=
  "/" ++ join "/" (norm_segs (split_on "/"%char (abs_path cwd p)) []).

Definition lineage := list (string * list string).

Fixpoint lin_get (l : lineage) (k : string) : list string :=
  match l with
  | [] => []
  | (k', v) :: r => if String.eqb k' k then v else lin_get r k
  end.

Fixpoint mem_str (k : string) (l : list string) : bool :=
  match l with [] => false | x :: r => orb (String.eqb x k) (mem_str k r) end.

Fixpoint drain_g (fuel : nat) (ft : opener) (cwd dir : string) (w : nat) (lin : lineage) (q : list qitem)
  : list yielded * option ra_err :=
  match q with
  | [] => ([], None)
  | (bt, name, parent) :: q' =>
      match fuel with
      | O => ([], Some E_OutOfFuel)
      | S f =>
          let p := path_join dir name in
          let pk := realpath cwd parent in
          let anc := List.app (lin_get lin pk) [pk] in
          let k := realpath cwd p in
          if mem_str k anc then ([], Some E_Cycle)
          else
            let lin' := (k, List.app (lin_get lin k) anc) :: lin in
            match ft p with
            | None => ([], Some E_FileNotFound)
            | Some ls =>
                match scan_file w true bt p ls with
                | (ys, qs, Some e) => (ys, Some e)
                | (ys, qs, None) =>
                    let (ys', e') := drain_g f ft cwd dir w lin' (List.app q' qs) in
                    (List.app ys ys', e')
                end
            end
      end
  end.

Record ra_result := mkRA {
  ra_message : option (list string);
  ra_title : option string;
  ra_yields : list yielded;
  ra_error : option ra_err
}.

(* read_input_syntax: the queue starts empty on every call *)
Definition read_all_ft (w : nat) (ft : opener) (top : string) (fuel : nat) : ra_result :=
  match ft top with
  | None => mkRA None None [] (Some E_FileNotFound)
  | Some ls =>
      let fm := read_front_matters ls in
      match scan_file w false 0 top (f_rest fm) with
      | (ys, qs, Some e) => mkRA (f_message fm) (f_title fm) ys (Some e)
      | (ys, qs, None) =>
          let (ys', e') := drain fuel ft (dirname top) w qs in
          mkRA (f_message fm) (f_title fm) (List.app ys ys') e'
      end
  end.

(* read_input_syntax with the present drain loop, for any opener *)
Definition read_all_gft (w : nat) (ft : opener) (cwd top : string) (fuel : nat) : ra_result :=
  match ft top with
  | None => mkRA None None [] (Some E_FileNotFound)
  | Some ls =>
      let fm := read_front_matters ls in
      match scan_file w false 0 top (f_rest fm) with
      | (ys, qs, Some e) => mkRA (f_message fm) (f_title fm) ys (Some e)
      | (ys, qs, None) =>
          let (ys', e') := drain_g fuel ft cwd (dirname top) w [(realpath cwd top, [])] qs in
          mkRA (f_message fm) (f_title fm) (List.app ys ys') e'
      end
  end.

(* THE model of montepy's reading of a top-level file and everything it reads *)
Definition read_all (w : nat) (fs : fsys) (cwd top : string) (fuel : nat) : ra_result :=
  read_all_gft w (fs_text fs cwd) cwd top fuel.

(* the same with the loop as it was before commit 2963569 *)
Definition read_all_u (w : nat) (fs : fsys) (cwd top : string) (fuel : nat) : ra_result :=
  read_all_ft w (fs_text fs cwd) top fuel.

Definition inputs_of (ys : list yielded) : list (string * input) :=
  flat_map (fun y => match y with YInput p i => [(p, i)] | YNone => [] end) ys.

(* reading one file that holds no read card any more *)
Definition read_single (w : nat) (ls : list string) : ra_result :=
  let fm := read_front_matters ls in
  match scan_file w false 0 "" (f_rest fm) with
  | (ys, _, e) => mkRA (f_message fm) (f_title fm) ys e
  end.

(* ------------------------------------------------------------------ mcnp_problem.py: what is kept of the stream
   parse_input: an Input goes to the collection of its block type, None (a read card) is skipped;
   write_to_file: cells, then surfaces, then data inputs, each in the order of arrival. *)
Definition block_of {A : Type} (b : nat) (cs : list (nat * A)) : list (nat * A) :=
  filter (fun c => Nat.eqb (fst c) b) cs.

Definition by_blocks {A : Type} (cs : list (nat * A)) : list (nat * A) :=
  List.app (block_of 0 cs) (List.app (block_of 1 cs) (block_of 2 cs)).

Definition ycards (ys : list yielded) : list (nat * list string) :=
  map (fun pi => (i_bt (snd pi), i_lines (snd pi))) (inputs_of ys).

Definition written_blocks (r : ra_result) : list (list (list string)) :=
  map (fun b => map snd (block_of b (ycards (ra_yields r)))) [0; 1; 2].

(* ------------------------------------------------------------------ specification, part 1: breadth-first order,
   stated without a queue.  An item is a read card that was met: (block type, file name, parent). *)
Definition item_path (dir : string) (it : qitem) : string := path_join dir (snd (fst it)).

Definition item_scan (w : nat) (ft : opener) (dir : string) (it : qitem)
  : option (list yielded * list qitem * option ra_err) :=
  option_map (scan_file w true (fst (fst it)) (item_path dir it)) (ft (item_path dir it)).

(* the file exists and is read to its end without an error *)
Definition item_ok (w : nat) (ft : opener) (dir : string) (it : qitem) : Prop :=
  exists ys qs, item_scan w ft dir it = Some (ys, qs, None).

Definition item_missing (ft : opener) (dir : string) (it : qitem) : Prop := ft (item_path dir it) = None.

Definition item_yields (w : nat) (ft : opener) (dir : string) (it : qitem) : list yielded :=
  match item_scan w ft dir it with Some (ys, _, _) => ys | None => [] end.

Definition item_children (w : nat) (ft : opener) (dir : string) (it : qitem) : list qitem :=
  match item_scan w ft dir it with Some (_, qs, _) => qs | None => [] end.

(* every input of the item's file, the read cards included *)
Definition item_inputs (w : nat) (ft : opener) (dir : string) (it : qitem) : list input :=
  match ft (item_path dir it) with
  | Some ls => fst (read_data_rec w true (fst (fst it)) ls)
  | None => []
  end.

(* the n-th generation below g, and the first n generations listed one after the other, for any
   "children of a read card" function C *)
Fixpoint gen_atG (C : qitem -> list qitem) (n : nat) (g : list qitem) : list qitem :=
  match n with O => g | S k => gen_atG C k (flat_map C g) end.

Fixpoint bfsG (C : qitem -> list qitem) (n : nat) (g : list qitem) : list qitem :=
  match n with O => [] | S k => List.app g (bfsG C k (flat_map C g)) end.

Definition gen_at (n w : nat) (ft : opener) (dir : string) (g : list qitem) : list qitem :=
  gen_atG (item_children w ft dir) n g.
Definition bfs (n w : nat) (ft : opener) (dir : string) (g : list qitem) : list qitem :=
  bfsG (item_children w ft dir) n g.

(* a file that holds one block: nothing but blank lines after its first blank line *)
Definition blank_line (l : string) : bool := all_space (expandtabs TABSIZE l).

Fixpoint one_block (ls : list string) : bool :=
  match ls with
  | [] => true
  | l :: r => if blank_line l then forallb blank_line r else one_block r
  end.

Definition item_one_block (ft : opener) (dir : string) (it : qitem) : Prop :=
  match ft (item_path dir it) with Some ls => one_block ls = true | None => True end.

(* ------------------------------------------------------------------ specification, part 2: a problem's inputs
   distributed over a tree of files.  A card is the list of its physical lines (line ends included); a file is
   a first block of cards and further blocks, each behind its blank separator line. *)
Definition card := list string.

Definition cook (w : nat) (l : string) : string := rstrip (takeS w (expandtabs TABSIZE l)).
Definition cooked (w : nat) (c : card) : list string := map (cook w) c.

(* continue_input after line l, when it was cont before: a comment line with its c in columns 1-5 leaves it alone,
   any other line sets it when it has no '$' and, right-stripped, ends in " &" *)
Definition next_cont (w : nat) (cont : bool) (l : string) : bool :=
  if andb (is_comment (expandtabs TABSIZE l))
          (negb (all_space (takeS BLANK_SPACE_CONTINUE (expandtabs TABSIZE l))))
  then cont else amp_data (takeS w (expandtabs TABSIZE l)).

Definition comment_line (l : string) : bool :=
  let x := expandtabs TABSIZE l in andb (negb (all_space x)) (is_comment x).

(* a line that starts a card wherever it stands: data in columns 1-5, not a comment, no '#' there *)
Definition start_line (l : string) : bool :=
  let x := expandtabs TABSIZE l in
  andb (negb (all_space x))
 (andb (negb (is_comment x))
 (andb (negb (all_space (takeS BLANK_SPACE_CONTINUE x)))
       (negb (contains "#"%char (takeS BLANK_SPACE_CONTINUE x))))).

(* the lines after the first one: comment lines, lines indented by five blanks, lines behind a line that ends
   in " &"; the card does not end on such a line *)
Fixpoint cont_lines (w : nat) (cont : bool) (ls : list string) : bool :=
  match ls with
  | [] => negb cont
  | l :: r =>
      let x := expandtabs TABSIZE l in
      andb (negb (all_space x))
     (andb (orb (all_space (takeS BLANK_SPACE_CONTINUE x)) (orb cont (is_comment x)))
     (andb (negb (andb (contains "#"%char (takeS BLANK_SPACE_CONTINUE x)) (negb (is_comment x))))
           (cont_lines w (next_cont w cont l) r)))
  end.

Definition card_ok (w : nat) (c : card) : bool :=
  match c with
  | [] => false
  | l :: r => andb (start_line l) (cont_lines w (next_cont w false l) r)
  end.

(* the first card of a block may carry comment lines in front *)
Fixpoint lcard_ok (w : nat) (c : card) : bool :=
  match c with
  | [] => false
  | l :: r => if comment_line l then lcard_ok w r else card_ok w c
  end.

Definition block_ok (w : nat) (b : list card) : bool :=
  match b with
  | [] => true
  | c :: r => andb (lcard_ok w c) (forallb (card_ok w) r)
  end.

Record sfile := mkS { s_first : list card; s_more : list (string * list card) }.

Definition render (sf : sfile) : list string :=
  List.app (List.concat (s_first sf)) (flat_map (fun sb => fst sb :: List.concat (snd sb)) (s_more sf)).

(* block type after one more blank line (flush_block) *)
Definition next_bt (bc bt : nat) : nat := if Nat.ltb (S bc) 3 then S bc else bt.

(* the top-level file (rec = false) is read up to the blank line that ends its third block *)
Definition stops (rec : bool) (bc : nat) : bool := andb (Nat.leb 3 (S bc)) (negb rec).

Fixpoint more_tcards (rec : bool) (bc bt : nat) (more : list (string * list card)) : list (nat * card) :=
  match more with
  | [] => []
  | sb :: r =>
      if stops rec bc then []
      else List.app (map (pair (next_bt bc bt)) (snd sb)) (more_tcards rec (S bc) (next_bt bc bt) r)
  end.

(* the cards of a file read with block type bt, each with the block type it gets *)
Definition sfile_tcards (rec : bool) (bt : nat) (sf : sfile) : list (nat * card) :=
  List.app (map (pair bt) (s_first sf)) (more_tcards rec 0 bt (s_more sf)).

Definition cook_t (w : nat) (tc : nat * card) : nat * list string := (fst tc, cooked w (snd tc)).

Definition card_rc (w : nat) (c : card) : rc := classify_lines (cooked w c).

Definition nonread (w : nat) (tcs : list (nat * card)) : list (nat * card) :=
  filter (fun tc => negb (is_name (card_rc w (snd tc)))) tcs.

Definition reads_of (w : nat) (path : string) (tcs : list (nat * card)) : list qitem :=
  flat_map (fun tc => match card_rc w (snd tc) with RcName n => [(fst tc, n, path)] | _ => [] end) tcs.

(* a further block is only looked at while the reader has not stopped *)
Fixpoint more_ok (w : nat) (rec : bool) (bc : nat) (more : list (string * list card)) : bool :=
  match more with
  | [] => true
  | sb :: r =>
      andb (blank_line (fst sb))
           (if stops rec bc then true else andb (block_ok w (snd sb)) (more_ok w rec (S bc) r))
  end.

Definition read_cards (rec : bool) (sf : sfile) : list card := map snd (sfile_tcards rec 0 sf).

Definition sfile_ok (w : nat) (rec : bool) (sf : sfile) : bool :=
  andb (block_ok w (s_first sf))
 (andb (more_ok w rec 0 (s_more sf))
       (forallb (fun c => negb (is_rcerr (card_rc w c))) (read_cards rec sf))).

Definition is_nil {A : Type} (l : list A) : bool := match l with [] => true | _ => false end.

(* the top-level file: what stands behind the blank line that ends its third block is not looked at (it may be
   anything: a fourth "block" whose only "card" is that text) *)
Definition top_ok (w : nat) (sf : sfile) : bool := sfile_ok w false sf.

(* a file named by a read card: the cards of one block (no comment lines in front of the first one),
   then nothing but blank lines *)
Definition sub_ok (w : nat) (sf : sfile) : bool :=
  andb (forallb (card_ok w) (s_first sf))
 (andb (forallb (fun sb => andb (blank_line (fst sb)) (is_nil (snd sb))) (s_more sf))
       (forallb (fun c => negb (is_rcerr (card_rc w c))) (s_first sf))).

Definition stree := list (string * sfile).

Fixpoint slookup (t : stree) (p : string) : option sfile :=
  match t with
  | [] => None
  | (k, v) :: r => if String.eqb k p then Some v else slookup r p
  end.

(* the files as the reader sees them: the top-level file's lines, and the renderings of the tree *)
Definition tree_ft (top : string) (tl : list string) (t : stree) : opener :=
  fun p => if String.eqb p top then Some tl else option_map render (slookup t p).

Definition s_item_cards (t : stree) (dir : string) (it : qitem) : list (nat * card) :=
  match slookup t (item_path dir it) with
  | Some sf => sfile_tcards true (fst (fst it)) sf
  | None => []
  end.

Definition s_children (w : nat) (t : stree) (dir : string) (it : qitem) : list qitem :=
  reads_of w (item_path dir it) (s_item_cards t dir it).

Definition s_item_ok (w : nat) (t : stree) (dir : string) (it : qitem) : Prop :=
  exists sf, slookup t (item_path dir it) = Some sf /\ sub_ok w sf = true.

(* textual substitution: block b of the flattened file = the block's own cards without the read cards, then, for
   every read card met in that block type (breadth first, in the order met), the target's cards without its read
   cards *)
Definition flat_block (w : nat) (t : stree) (dir : string) (own : list (nat * card)) (items : list qitem) (b : nat)
  : list card :=
  List.app (map snd (block_of b (nonread w own)))
           (flat_map (fun it => map snd (block_of b (nonread w (s_item_cards t dir it)))) items).

Definition nl_line : string := String nl "".

Definition flatten (w : nat) (t : stree) (top : string) (tsf : sfile) (n : nat) : sfile :=
  let dir := dirname top in
  let own := sfile_tcards false 0 tsf in
  let items := bfsG (s_children w t dir) n (reads_of w top own) in
  mkS (flat_block w t dir own items 0)
      [(nl_line, flat_block w t dir own items 1); (nl_line, flat_block w t dir own items 2)].

(* ------------------------------------------------------------------ wire
   readall <w> <fuel> <cwdhex> <tophex> <pathhex>=<byteshex>,...   ("-" = no file, "-" = empty bytes)
   readallu ...   the same with the drain loop as it was before commit 2963569      realpath <cwdhex> <phex>
   isread <hexline,hexline..>      name <hexline,...>      dirname <hex>     join <hex> <hex>
   cardok <w> <hexline,...>  (answers card_ok / lcard_ok)
   flatten <w> <n> <tophex> <file> <pathhex>=<file>;...     file = block/block/... , block = card+card.. ("-" empty),
       card = hexline,hexline..; blocks are rendered behind a single line feed; answers the flattened file's
       lines (hex, comma separated) *)
Definition show_yield (y : yielded) : string :=
  match y with
  | YNone => "N"
  | YInput p i => hex_encode p ++ ":" ++ show_input i
  end.

Definition show_ra_err (e : option ra_err) : string :=
  match e with
  | None => "ok"
  | Some E_Unsupported => "UnsupportedFeature"
  | Some E_Parsing => "ParsingError"
  | Some E_FileNotFound => "FileNotFoundError"
  | Some E_OutOfFuel => "outoffuel"
  | Some E_Cycle => "MalformedInputError"
  end.

Definition parse_fs (s : string) : fsys :=
  if String.eqb s "-" then []
  else flat_map (fun kv => match split_on "="%char kv with
                           | [k; v] => [(hex_decode k, if String.eqb v "-" then "" else hex_decode v)]
                           | _ => []
                           end) (split_on ","%char s).

Definition parse_lines (s : string) : list string :=
  if String.eqb s "-" then [] else map hex_decode (split_on ","%char s).

Definition parse_block (s : string) : list card :=
  if String.eqb s "-" then [] else map parse_lines (split_on "+"%char s).

Definition parse_sfile (s : string) : sfile :=
  match map parse_block (split_on "/"%char s) with
  | [] => mkS [] []
  | b :: r => mkS b (map (pair nl_line) r)
  end.

Definition parse_stree (s : string) : stree :=
  if String.eqb s "-" then []
  else flat_map (fun kv => match split_on "="%char kv with
                           | [k; v] => [(hex_decode k, parse_sfile v)]
                           | _ => []
                           end) (split_on ";"%char s).

Definition show_ra (r : ra_result) : string :=
  (match ra_message r with None => "none" | Some m => "m" ++ show_list hex_encode m end) ++ " " ++
  show_opt (ra_title r) ++ " " ++
  (match ra_yields r with [] => "-" | ys => join ";" (map show_yield ys) end) ++ " " ++
  show_ra_err (ra_error r).

Definition run_ReadQ (req : string) : string :=
  match words req with
  | ["readall"; w; fuel; cwd; top; fs] =>
      match parse_nat w, parse_nat fuel with
      | Some W, Some F => show_ra (read_all W (parse_fs fs) (hex_decode cwd) (hex_decode top) F)
      | _, _ => "parse:err"
      end
  | ["readallu"; w; fuel; cwd; top; fs] =>
      match parse_nat w, parse_nat fuel with
      | Some W, Some F => show_ra (read_all_u W (parse_fs fs) (hex_decode cwd) (hex_decode top) F)
      | _, _ => "parse:err"
      end
  | ["realpath"; cwd; p] => "r" ++ hex_encode (realpath (hex_decode cwd) (hex_decode p))
  | ["isread"; ls] => if is_read_input (parse_lines ls) then "1" else "0"
  | ["name"; ls] =>
      match classify_lines (parse_lines ls) with
      | RcName n => "n" ++ hex_encode n
      | RcErr => "err"
      | RcNot => "not"
      end
  | ["cardok"; w; ls] =>
      match parse_nat w with
      | Some W => (if card_ok W (parse_lines ls) then "1" else "0") ++ (if lcard_ok W (parse_lines ls) then "1" else "0")
      | None => "parse:err"
      end
  | ["flatten"; w; n; top; tf; tree] =>
      match parse_nat w, parse_nat n with
      | Some W, Some N =>
          let tsf := parse_sfile tf in
          (if top_ok W tsf then "1" else "0") ++ " " ++
          show_list hex_encode (render (flatten W (parse_stree tree) (hex_decode top) tsf N))
      | _, _ => "parse:err"
      end
  | ["dirname"; p] => "d" ++ hex_encode (dirname (hex_decode p))
  | ["join"; a; b] => "j" ++ hex_encode (path_join (hex_decode a) (hex_decode b))
  | _ => "parse:err"
  end.
