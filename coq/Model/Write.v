(* Write.v — executable model of MCNP_Problem.write_to_file (montepy/mcnp_problem.py) and of
   MCNP_InputFile.open("w") / __enter__ / __exit__ / write (montepy/input_parser/input_file.py)
   over a small file-system model with crash points.

   The *order* of the steps is not written here: it is the step list [writer] that
   harness/translate_writer.py regenerates from the source on every run (coq/Gen/Writer.v) and that
   the harness also sends over the wire.  This file gives the steps their meaning:

     fs      : path -> Absent | File bytes | Dir       one flat directory; a path is a base name
     handle  : the file object self._fh (None, or open on the destination / on the temporary)
     pend    : the name through which __exit__ reaches the temporary still holds its path
               (`temp_path = None` after os.replace = step Forget; `if temp_path is not None` = IfTemp)
     adversary: may fail the k-th format_for_mcnp_input call (IllegalState), the j-th fh.write call
               (OSError), the child-card formatting, the open, the close, os.replace, os.remove and
               the warning hand-over after the with block — the crash points.
     an object of the problem is [Some lines] (what format_for_mcnp_input returns) or [None]
     (format_for_mcnp_input raises IllegalState by itself: an incomplete object).
     __exit__ = w_exit (its `try` part, or all of it) then w_final (its `finally` part).
     WriteLines true / Children true: every line is right-stripped (str.rstrip) before "\n".

   Also here (computable, no proofs): the reflective conditions on a step list that the theorems of
   Proofs/WriteProofs.v need, each with a witness printer used by the check when one breaks.
   NOT modelled: permission bits (CopyMode is a no-op), buffering inside the file object (a write
   that succeeded is in the file; a failing close loses nothing), symbolic links, fsync / power
   loss, other processes, several directories.
   Exported names used by other properties (C01, C09): writer, write_steps (Gen/Writer.v), w_body,
   pieces, children_before_terminator, body_blocks_in_order, spec_render, run_Write. *)
From Coq Require Import List String Ascii Bool Arith.
From MPV Require Import Model.Wire.
Import ListNotations.
Open Scope string_scope.

(* ---------------------------------------------------------------- file system *)
Inductive node := Absent | File (c : string) | Dir.
Definition path := string.
Definition fsys := path -> node.
Definition upd (f : fsys) (p : path) (n : node) : fsys :=
  fun q => if String.eqb q p then n else f q.

(* ---------------------------------------------------------------- step IR *)
(* IllegalState: a format call raised an exception that is not a Warning subclass;
   WarningClass: it raised a Warning subclass (a warning the user's filters turned into an error);
   WarningRaised: the warning hand-over after the with block raised *)
Inductive exn := FileExistsError | IsADirectoryError | IllegalState | WarningClass | OSError | WarningRaised | ModelStuck.
Inductive result := Ok | Err (e : exn).

Inductive target := Dest | Temp.
Inductive sec := SMessage | STitle | SCells | SSurfaces | SData.
(* inside `for obj in objects:` *)
Inductive ostep :=
| Format        (* lines = obj.format_for_mcnp_input(self.mcnp_version) *)
| Warn          (* if warning_catch: ... (bookkeeping on warning objects, no I/O) *)
| WriteLines (r : bool).   (* for line in lines: fh.write(line + "\n")   /   r: fh.write(line.rstrip() + "\n") *)
(* __exit__: exc_type is None / is not None / the name holding the temporary's path is not None *)
Inductive cond := Always | IfOk | IfErr | IfTemp | IfOkTemp.   (* IfOkTemp = IfOk and IfTemp *)
Inductive step :=
| GuardExists            (* if os.path.isfile(path) and overwrite is not True: raise FileExistsError *)
| GuardIsDir             (* if os.path.isdir(path): raise IsADirectoryError *)
| OpenW (t : target)     (* self._fh = open(<t>, "w") *)
| OpenElse (t u : target)   (* try: self._fh = open(<t>, "w")  except OSError: self._temp_path = None; self._fh = open(<u>, "w") *)
| CopyMode               (* if os.path.isfile(path): shutil.copymode(path, temp) *)
| Loop (s : sec) (body : list ostep)   (* for obj in <section s>: body *)
| Children (r : bool)    (* for line in self.cells._run_children_format_for_mcnp(...): fh.write(line[.rstrip()] + "\n") *)
| Blank                  (* fh.write("\n") *)
| Close                  (* self._fh.__exit__(...) ; self._fh = None *)
| Replace (c : cond)     (* os.replace(temp, path) *)
| Remove (c : cond) (t : target)   (* os.remove(<t>) *)
| Forget (c : cond)      (* temp_path = None: the temporary's path is forgotten (it has been moved) *)
| HandleWarnings.        (* self._handle_warnings(warning_catch), after the with block *)

(* name of the temporary file: os.path.join(directory, f".{base}.{os.getpid()}.tmp") *)
Inductive part := Lit (s : string) | Base | Pid.

Record writer := mkwriter {
  w_temp : list part;    (* template of the temporary's base name; [] when there is no temporary *)
  w_open : list step;    (* MCNP_InputFile.open("w"), in source order; an exception here skips __exit__ *)
  w_body : list step;    (* body of the with block of write_to_file *)
  w_exit : list step;    (* MCNP_InputFile.__exit__ (the `try` part when it is a try/finally) *)
  w_final : list step;   (* the `finally` part of __exit__; [] when there is none *)
  w_post : list step     (* statements of write_to_file after the with block *)
}.

Fixpoint temp_name (tm : list part) (pid base : string) : string :=
  match tm with
  | [] => ""
  | Lit s :: r => s ++ temp_name r pid base
  | Base :: r => base ++ temp_name r pid base
  | Pid :: r => pid ++ temp_name r pid base
  end.

(* ---------------------------------------------------------------- problem, adversary *)
Definition object := option (list string).
Record problem := mkproblem { p_objs : sec -> list object; p_children : object }.

Record adversary := mkadv {
  a_fmt : nat -> bool;      (* fail the k-th format_for_mcnp_input call (counted from 0) *)
  a_fmtw : nat -> bool;     (* ... with an exception that is a Warning subclass *)
  a_wr : nat -> bool;       (* fail the j-th fh.write call *)
  a_child : bool;           (* _run_children_format_for_mcnp raises *)
  a_open : bool;            (* open(..., "w") raises OSError (e.g. read-only directory) *)
  a_close : bool;           (* the file's close raises OSError (buffered data cannot be flushed) *)
  a_replace : bool;         (* os.replace raises OSError *)
  a_remove : bool;          (* os.remove raises OSError *)
  a_post : bool             (* _handle_warnings raises (warnings turned into errors) *)
}.
Definition no_faults : adversary :=
  mkadv (fun _ => false) (fun _ => false) (fun _ => false) false false false false false false.

Record env := mkenv {
  e_dest : path; e_temp : path; e_ov : bool; e_prob : problem; e_adv : adversary }.

(* [pend]: the name through which __exit__ reaches the temporary still holds its path *)
Record state := mkstate {
  fs : fsys; handle : option target; cur : list string; nfmt : nat; nwr : nat; pend : bool }.

Definition pth (E : env) (t : target) : path :=
  match t with Dest => e_dest E | Temp => e_temp E end.

Definition nl : string := String (ascii_of_nat 10) EmptyString.

(* ---------------------------------------------------------------- semantics *)
(* MCNP_InputFile.write: `if self._fh: return self._fh.write(to_write)` *)
Definition append_at (E : env) (f : fsys) (h : option target) (s : string) : fsys :=
  match h with
  | None => f
  | Some tg => match f (pth E tg) with
               | File c => upd f (pth E tg) (File (c ++ s))
               | _ => f
               end
  end.

Definition do_write (E : env) (s : string) (st : state) : state * result :=
  let j := nwr st in
  if a_wr (e_adv E) j
  then (mkstate (fs st) (handle st) (cur st) (nfmt st) (S j) (pend st), Err OSError)
  else (mkstate (append_at E (fs st) (handle st) s) (handle st) (cur st) (nfmt st) (S j) (pend st), Ok).

(* str.rstrip(): trailing characters c with c.isspace() are dropped; for code points below 256 these
   are 9-13, 28-32, 133 and 160 *)
Definition is_space (a : ascii) : bool :=
  let n := nat_of_ascii a in
  (Nat.leb 9 n && Nat.leb n 13) || (Nat.leb 28 n && Nat.leb n 32) || Nat.eqb n 133 || Nat.eqb n 160.
Fixpoint rstrip (s : string) : string :=
  match s with
  | EmptyString => EmptyString
  | String a r => match rstrip r with
                  | EmptyString => if is_space a then EmptyString else String a EmptyString
                  | r' => String a r'
                  end
  end.
Definition strip_if (r : bool) (ls : list string) : list string := if r then map rstrip ls else ls.

Fixpoint write_lines (E : env) (ls : list string) (st : state) : state * result :=
  match ls with
  | [] => (st, Ok)
  | l :: r => match do_write E (l ++ nl) st with
              | (st1, Ok) => write_lines E r st1
              | x => x
              end
  end.

Definition do_format (E : env) (o : object) (st : state) : state * result :=
  let k := nfmt st in
  match o with
  | None => (mkstate (fs st) (handle st) (cur st) (S k) (nwr st) (pend st),
             (* the adversary's failure, if any, comes before the object's own *)
             Err (if a_fmt (e_adv E) k && a_fmtw (e_adv E) k then WarningClass else IllegalState))
  | Some ls =>
      if a_fmt (e_adv E) k
      then (mkstate (fs st) (handle st) (cur st) (S k) (nwr st) (pend st),
            Err (if a_fmtw (e_adv E) k then WarningClass else IllegalState))
      else (mkstate (fs st) (handle st) ls (S k) (nwr st) (pend st), Ok)
  end.

Definition exec_ostep (E : env) (o : object) (os : ostep) (st : state) : state * result :=
  match os with
  | Format => do_format E o st
  | Warn => (st, Ok)
  | WriteLines r => write_lines E (strip_if r (cur st)) st
  end.

Fixpoint exec_osteps (E : env) (o : object) (l : list ostep) (st : state) : state * result :=
  match l with
  | [] => (st, Ok)
  | x :: r => match exec_ostep E o x st with
              | (st1, Ok) => exec_osteps E o r st1
              | y => y
              end
  end.

Fixpoint exec_objs (E : env) (body : list ostep) (objs : list object) (st : state) : state * result :=
  match objs with
  | [] => (st, Ok)
  | o :: r => match exec_osteps E o body st with
              | (st1, Ok) => exec_objs E body r st1
              | y => y
              end
  end.

Definition cond_holds (c : cond) (ok pd : bool) : bool :=
  match c with Always => true | IfOk => ok | IfErr => negb ok | IfTemp => pd | IfOkTemp => ok && pd end.

Definition with_fs (st : state) (f : fsys) (h : option target) : state :=
  mkstate f h (cur st) (nfmt st) (nwr st) (pend st).
Definition with_pend (st : state) (b : bool) : state :=
  mkstate (fs st) (handle st) (cur st) (nfmt st) (nwr st) b.

(* [ok]: no exception is propagating (matters inside __exit__ only) *)
Definition exec_step (E : env) (ok : bool) (s : step) (st : state) : state * result :=
  match s with
  | GuardExists =>
      match fs st (e_dest E) with
      | File _ => if e_ov E then (st, Ok) else (st, Err FileExistsError)
      | _ => (st, Ok)
      end
  | GuardIsDir =>
      match fs st (e_dest E) with
      | Dir => (st, Err IsADirectoryError)
      | _ => (st, Ok)
      end
  | OpenW tg =>
      match fs st (pth E tg) with
      | Dir => (st, Err IsADirectoryError)
      | _ => if a_open (e_adv E) then (st, Err OSError)
             else (with_pend (with_fs st (upd (fs st) (pth E tg) (File "")) (Some tg))
                              (match tg with Temp => true | Dest => pend st end), Ok)
      end
  | OpenElse tg ug =>
      (* the crash point [a_open] is "no NEW file can be made": it hits the first attempt only *)
      let fallback :=
        match fs st (pth E ug) with
        | Dir => (st, Err IsADirectoryError)
        | _ => (with_pend (with_fs st (upd (fs st) (pth E ug) (File "")) (Some ug)) false, Ok)
        end in
      match fs st (pth E tg) with
      | Dir => fallback
      | _ => if a_open (e_adv E) then fallback
             else (with_pend (with_fs st (upd (fs st) (pth E tg) (File "")) (Some tg))
                              (match tg with Temp => true | Dest => pend st end), Ok)
      end
  | CopyMode => (st, Ok)
  | Loop sc body => exec_objs E body (p_objs (e_prob E) sc) st
  | Children r =>
      match p_children (e_prob E) with
      | None => (st, Err IllegalState)
      | Some ls => if a_child (e_adv E) then (st, Err IllegalState) else write_lines E (strip_if r ls) st
      end
  | Blank => do_write E nl st
  | Close =>
      (with_fs st (fs st) None, if a_close (e_adv E) then Err OSError else Ok)
  | Replace c =>
      if cond_holds c ok (pend st) then
        match handle st with
        | Some _ => (st, Err ModelStuck)       (* moving a file that is still open: not modelled *)
        | None =>
            if a_replace (e_adv E) then (st, Err OSError)
            else match fs st (e_temp E) with
                 | File c0 =>
                     match fs st (e_dest E) with
                     | Dir => (st, Err IsADirectoryError)
                     | _ => (with_fs st (upd (upd (fs st) (e_dest E) (File c0)) (e_temp E) Absent) None, Ok)
                     end
                 | _ => (st, Err OSError)
                 end
        end
      else (st, Ok)
  | Remove c tg =>
      if cond_holds c ok (pend st) then
        match handle st with
        | Some _ => (st, Err ModelStuck)
        | None =>
            if a_remove (e_adv E) then (st, Err OSError)
            else match fs st (pth E tg) with
                 | File _ => (with_fs st (upd (fs st) (pth E tg) Absent) None, Ok)
                 | _ => (st, Err OSError)
                 end
        end
      else (st, Ok)
  | Forget c => (if cond_holds c ok (pend st) then with_pend st false else st, Ok)
  | HandleWarnings => if a_post (e_adv E) then (st, Err WarningRaised) else (st, Ok)
  end.

Fixpoint exec_list (E : env) (ok : bool) (l : list step) (st : state) : state * result :=
  match l with
  | [] => (st, Ok)
  | s :: r => match exec_step E ok s st with
              | (st1, Ok) => exec_list E ok r st1
              | y => y
              end
  end.

Definition is_ok (r : result) : bool := match r with Ok => true | Err _ => false end.

(* with new_file.open("w") as fh: <body>  ;  <post>
   - an exception in open() propagates, __exit__ does not run;
   - __exit__ runs after the body whatever happened; its `finally` part runs whatever happened in its
     `try` part; in both parts IfOk / IfErr test exc_type, i.e. whether the BODY raised (an exception
     of the try part is not visible to the finally part);
     an exception raised by the finally part replaces the one of the try part, which replaces the
     one of the body; __exit__ returns the (None) status of the file's own __exit__, so the body's
     exception propagates;
   - the statements after the with block run only when nothing propagated. *)
Definition run_state (w : writer) (E : env) (st0 : state) : state * result :=
  match exec_list E true (w_open w) st0 with
  | (s1, Err e) => (s1, Err e)
  | (s1, Ok) =>
      let '(s2, r2) := exec_list E true (w_body w) s1 in
      let '(s3, r3) := exec_list E (is_ok r2) (w_exit w) s2 in
      let '(s4, r4) := exec_list E (is_ok r2) (w_final w) s3 in
      match r4, r3, r2 with
      | Err e, _, _ => (s4, Err e)
      | Ok, Err e, _ => (s4, Err e)
      | Ok, Ok, Err e => (s4, Err e)
      | Ok, Ok, Ok => exec_list E true (w_post w) s4
      end
  end.

Definition init_state (f : fsys) : state := mkstate f None [] 0 0 false.

Definition run_writer (w : writer) (E : env) (f : fsys) : fsys * result :=
  let '(s, r) := run_state w E (init_state f) in (fs s, r).

(* the k-th crash point, one at a time *)
Inductive fault :=
| FNone | FFormat (k : nat) | FFormatW (k : nat) | FWrite (j : nat) | FChild | FOpen | FClose | FReplace | FRemove | FPost.
Definition adv_of (x : fault) : adversary :=
  let no := fun _ : nat => false in
  match x with
  | FNone => no_faults
  | FFormat k => mkadv (Nat.eqb k) no no false false false false false false
  | FFormatW k => mkadv (Nat.eqb k) (Nat.eqb k) no false false false false false false
  | FWrite j => mkadv no no (Nat.eqb j) false false false false false false
  | FChild => mkadv no no no true false false false false false
  | FOpen => mkadv no no no false true false false false false
  | FClose => mkadv no no no false false true false false false
  | FReplace => mkadv no no no false false false true false false
  | FRemove => mkadv no no no false false false false true false
  | FPost => mkadv no no no false false false false false true
  end.
Definition write_with_failure_at (x : fault) (w : writer) (d t : path) (ov : bool) (p : problem) (f : fsys)
  : fsys * result :=
  run_writer w (mkenv d t ov p (adv_of x)) f.

(* ---------------------------------------------------------------- what a complete file is *)
Definition lines_of (o : object) : list string := match o with Some ls => ls | None => [] end.
Definition cat_lines (ls : list string) : string := String.concat "" (map (fun l => l ++ nl) ls).
Definition cat_objs_r (r : bool) (os : list object) : string :=
  String.concat "" (map (fun o => cat_lines (strip_if r (lines_of o))) os).
Definition cat_objs (os : list object) : string := cat_objs_r false os.

(* the file MCNP expects: [message block] title, cell block, blank, surface block, blank, data block
   including the cell-modifier cards made from the cells, blank (and MontePy's extra final blank) *)
Definition spec_render_r (r : bool) (p : problem) : string :=
  cat_objs_r r (p_objs p SMessage) ++ cat_objs_r r (p_objs p STitle)
  ++ cat_objs_r r (p_objs p SCells) ++ nl
  ++ cat_objs_r r (p_objs p SSurfaces) ++ nl
  ++ cat_objs_r r (p_objs p SData) ++ cat_lines (strip_if r (lines_of (p_children p))) ++ nl
  ++ nl.
(* what the current source writes: every line right-stripped *)
Definition spec_render (p : problem) : string := spec_render_r true p.

(* symbolic content of a body: which pieces are written in which order *)
Inductive piece := PSec (s : sec) (r : bool) | PChildren (r : bool) | PNl | PBad.
Definition is_warn (o : ostep) := match o with Warn => true | _ => false end.
Definition ostep_eqb (a b : ostep) : bool :=
  match a, b with
  | Format, Format | Warn, Warn => true
  | WriteLines x, WriteLines y => Bool.eqb x y
  | _, _ => false
  end.
Fixpoint ostep_list_eqb (a b : list ostep) : bool :=
  match a, b with
  | [], [] => true
  | x :: r, y :: s => ostep_eqb x y && ostep_list_eqb r s
  | _, _ => false
  end.
Definition loop_ok (r : bool) (b : list ostep) : bool :=
  ostep_list_eqb (filter (fun o => negb (is_warn o)) b) [Format; WriteLines r].
Definition piece_of (s : step) : list piece :=
  match s with
  | Loop sc b => if loop_ok true b then [PSec sc true] else if loop_ok false b then [PSec sc false] else [PBad]
  | Children r => [PChildren r]
  | Blank => [PNl]
  | CopyMode => []
  | _ => [PBad]
  end.
Definition pieces (l : list step) : list piece := flat_map piece_of l.
Definition interp_piece (p : problem) (pc : piece) : string :=
  match pc with
  | PSec s r => cat_objs_r r (p_objs p s)
  | PChildren r => cat_lines (strip_if r (lines_of (p_children p)))
  | PNl => nl
  | PBad => ""
  end.
Definition interp (p : problem) (pcs : list piece) : string := String.concat "" (map (interp_piece p) pcs).

Definition sec_eqb (a b : sec) : bool :=
  match a, b with
  | SMessage, SMessage | STitle, STitle | SCells, SCells | SSurfaces, SSurfaces | SData, SData => true
  | _, _ => false
  end.
Definition piece_eqb (a b : piece) : bool :=
  match a, b with
  | PSec x r, PSec y q => sec_eqb x y && Bool.eqb r q
  | PChildren r, PChildren q => Bool.eqb r q
  | PNl, PNl | PBad, PBad => true
  | _, _ => false
  end.
Fixpoint piece_list_eqb (a b : list piece) : bool :=
  match a, b with
  | [], [] => true
  | x :: r, y :: s => piece_eqb x y && piece_list_eqb r s
  | _, _ => false
  end.
Definition canonical_pieces (r : bool) : list piece :=
  [PSec SMessage r; PSec STitle r; PSec SCells r; PNl; PSec SSurfaces r; PNl; PSec SData r; PChildren r; PNl; PNl].

(* ---------------------------------------------------------------- reflective conditions *)
Definition is_guard (s : step) : bool := match s with GuardExists | GuardIsDir => true | _ => false end.
Fixpoint leading_guards (l : list step) : list step :=
  match l with
  | s :: r => if is_guard s then s :: leading_guards r else []
  | [] => []
  end.
Definition is_gexists s := match s with GuardExists => true | _ => false end.
Definition is_gisdir s := match s with GuardIsDir => true | _ => false end.
(* both guards come before anything that touches the file system *)
Definition guards_first (w : writer) : bool :=
  existsb is_gexists (leading_guards (w_open w)) && existsb is_gisdir (leading_guards (w_open w)).

Definition all_steps (w : writer) : list step := w_open w ++ w_body w ++ w_exit w ++ w_final w ++ w_post w.

(* no step opens or removes the destination itself *)
Definition no_dest_step (s : step) : bool :=
  match s with
  | OpenW Dest => false | OpenElse Dest _ => false | OpenElse _ Dest => false | Remove _ Dest => false
  | _ => true
  end.
Definition dest_only_written_by_replace (w : writer) : bool := forallb no_dest_step (all_steps w).

Definition is_replace (s : step) : bool := match s with Replace _ => true | _ => false end.
Definition replace_guarded (s : step) : bool :=
  match s with Replace IfOk => true | Replace IfOkTemp => true | Replace _ => false | _ => true end.
(* os.replace only happens in the try part of __exit__, and only when no exception is propagating *)
Definition replace_only_on_success (w : writer) : bool :=
  forallb (fun s => negb (is_replace s)) (w_open w ++ w_body w ++ w_final w ++ w_post w)
  && forallb replace_guarded (w_exit w).

Definition is_post_step (s : step) : bool := match s with HandleWarnings | CopyMode => true | _ => false end.
Definition post_only_warnings (w : writer) : bool := forallb is_post_step (w_post w).

(* every write goes to the temporary, which only os.replace moves over the destination *)
Definition writes_go_to_temp_then_replace (w : writer) : bool :=
  dest_only_written_by_replace w && replace_only_on_success w && post_only_warnings w.
Definition atomic_ok := writes_go_to_temp_then_replace.   (* former name *)

(* open("w") = guards, then the temporary is opened, then at most mode copying *)
Fixpoint drop_guards (l : list step) : list step :=
  match l with
  | s :: r => if is_guard s then drop_guards r else l
  | [] => []
  end.
Definition is_copymode (s : step) : bool := match s with CopyMode => true | _ => false end.
Definition opens_temp_after_guards (w : writer) : bool :=
  match drop_guards (w_open w) with
  | OpenW Temp :: r => forallb is_copymode r
  | _ => false
  end.

Definition step_eqb (a b : step) : bool :=
  match a, b with
  | Close, Close => true
  | Replace IfOk, Replace IfOk => true
  | Remove IfErr Temp, Remove IfErr Temp => true
  | Remove IfTemp Temp, Remove IfTemp Temp => true
  | Forget IfOk, Forget IfOk => true
  | _, _ => false
  end.
Fixpoint step_list_eqb (a b : list step) : bool :=
  match a, b with
  | [], [] => true
  | x :: r, y :: s => step_eqb x y && step_list_eqb r s
  | _, _ => false
  end.
(* the two shapes of __exit__ the proofs know:
   plain:        close; on success move the temporary over the destination; otherwise remove it
   try/finally:  try: close; on success move and forget the temporary
                 finally: if the temporary has not been forgotten, remove it *)
Definition exit_shape : list step := [Close; Replace IfOk; Remove IfErr Temp].
Definition exit_try_shape : list step := [Close; Replace IfOk; Forget IfOk].
Definition exit_final_shape : list step := [Remove IfTemp Temp].
Definition exit_plain (w : writer) : bool :=
  step_list_eqb (w_exit w) exit_shape && step_list_eqb (w_final w) [].
Definition exit_try_finally (w : writer) : bool :=
  step_list_eqb (w_exit w) exit_try_shape && step_list_eqb (w_final w) exit_final_shape.
(* the temporary is removed when the body of the with block raised *)
Definition temp_removed_on_failure (w : writer) : bool := exit_plain w || exit_try_finally w.
(* ... and also when the close or the move itself raised *)
Definition cleanup_total (w : writer) : bool := exit_try_finally w.

(* which crash points can leave the temporary behind *)
Definition may_leave_temp (w : writer) (a : adversary) : bool :=
  if cleanup_total w then a_remove a else a_close a || a_replace a || a_remove a.

(* the body writes the blocks in MCNP's order, nothing else, through fh.write only *)
(* every line is right-stripped when it is written / no line is *)
Definition w_strips (w : writer) : bool := piece_list_eqb (pieces (w_body w)) (canonical_pieces true).
Definition body_blocks_in_order (w : writer) : bool :=
  w_strips w || piece_list_eqb (pieces (w_body w)) (canonical_pieces false).

(* the cell-modifier cards made from the cells come right after the data inputs, before the blank
   line that ends the data block (MCNP ignores everything after that line) — also serves C09 *)
Fixpoint after_data (l : list piece) : option (list piece) :=
  match l with
  | [] => None
  | PSec SData _ :: r => Some r
  | _ :: r => after_data r
  end.
Definition children_before_terminator (w : writer) : bool :=
  match after_data (pieces (w_body w)) with
  | Some (PChildren _ :: PNl :: _) => true
  | _ => false
  end.

(* the temporary's name differs from the destination's: it contains the base name exactly once
   and at least one more character *)
Definition is_base (x : part) : bool := match x with Base => true | _ => false end.
Definition nonempty_lit (x : part) : bool :=
  match x with Lit s => negb (String.eqb s "") | _ => false end.
Definition temp_name_distinct (w : writer) : bool :=
  Nat.eqb (List.length (filter is_base (w_temp w))) 1 && existsb nonempty_lit (w_temp w).

Definition writer_ok (w : writer) : bool :=
  guards_first w && writes_go_to_temp_then_replace w && opens_temp_after_guards w && temp_removed_on_failure w
  && body_blocks_in_order w && children_before_terminator w && temp_name_distinct w.

(* not a condition of the theorems, a diagnosis: every object is formatted before the first step
   that touches the file system.  False of the current source (objects are formatted one by one
   while the temporary is open), which is harmless because nothing is written to the destination
   before os.replace; reported in the evidence *)
Definition is_loop (s : step) : bool := match s with Loop _ _ => true | _ => false end.
Definition all_formats_precede_open (w : writer) : bool :=
  forallb (fun s => negb (is_loop s)) (w_body w) && negb (existsb is_loop (w_exit w ++ w_final w ++ w_post w)).


(* ---------------------------------------------------------------- wire *)
(* linear-time splitter (Wire.split_on is quadratic in the length of a field) *)
Fixpoint rev_string (s acc : string) : string :=
  match s with EmptyString => acc | String a r => rev_string r (String a acc) end.
Fixpoint split_lin_aux (c : ascii) (s : string) (cur : string) : list string :=
  match s with
  | EmptyString => [rev_string cur ""]
  | String a r => if Ascii.eqb a c then rev_string cur "" :: split_lin_aux c r ""
                  else split_lin_aux c r (String a cur)
  end.
Definition split_lin (c : ascii) (s : string) : list string := split_lin_aux c s "".
Definition list_of (c : ascii) (s : string) : list string :=
  if String.eqb s "-" then [] else split_lin c s.

Definition parse_target (a : ascii) : option target :=
  if Ascii.eqb a "D" then Some Dest else if Ascii.eqb a "T" then Some Temp else None.
Definition parse_cond (a : ascii) : option cond :=
  if Ascii.eqb a "A" then Some Always else if Ascii.eqb a "O" then Some IfOk
  else if Ascii.eqb a "E" then Some IfErr else if Ascii.eqb a "P" then Some IfTemp
  else if Ascii.eqb a "Q" then Some IfOkTemp else None.
Definition parse_sec (a : ascii) : option sec :=
  if Ascii.eqb a "M" then Some SMessage else if Ascii.eqb a "T" then Some STitle
  else if Ascii.eqb a "C" then Some SCells else if Ascii.eqb a "S" then Some SSurfaces
  else if Ascii.eqb a "D" then Some SData else None.
Fixpoint parse_osteps (s : string) : option (list ostep) :=
  match s with
  | EmptyString => Some []
  | String a r =>
      match (if Ascii.eqb a "F" then Some Format else if Ascii.eqb a "N" then Some Warn
             else if Ascii.eqb a "W" then Some (WriteLines false)
             else if Ascii.eqb a "R" then Some (WriteLines true) else None), parse_osteps r with
      | Some x, Some xs => Some (x :: xs)
      | _, _ => None
      end
  end.
Definition parse_step (s : string) : option step :=
  match s with
  | "GE" => Some GuardExists
  | "GD" => Some GuardIsDir
  | "CM" => Some CopyMode
  | "CH" => Some (Children false)
  | "CR" => Some (Children true)
  | "BL" => Some Blank
  | "CL" => Some Close
  | "HW" => Some HandleWarnings
  | String "O" (String a EmptyString) => option_map OpenW (parse_target a)
  | String "O" (String "E" (String a (String b EmptyString))) =>
      match parse_target a, parse_target b with
      | Some x, Some y => Some (OpenElse x y)
      | _, _ => None
      end
  | String "R" (String "P" (String c EmptyString)) => option_map Replace (parse_cond c)
  | String "F" (String "G" (String c EmptyString)) => option_map Forget (parse_cond c)
  | String "R" (String "M" (String c (String t EmptyString))) =>
      match parse_cond c, parse_target t with
      | Some c, Some t => Some (Remove c t)
      | _, _ => None
      end
  | String "L" (String a r) =>
      match parse_sec a, parse_osteps r with
      | Some sc, Some b => Some (Loop sc b)
      | _, _ => None
      end
  | _ => None
  end.
Definition parse_part (s : string) : option part :=
  match s with
  | "B" => Some Base
  | "P" => Some Pid
  | String "L" r => Some (Lit (hex_decode r))
  | _ => None
  end.
Definition parse_writer (s : string) : option writer :=
  match split_lin "/"%char s with
  | [tm; op; bd; ex; fi; po] =>
      match map_opt parse_part (list_of ","%char tm), map_opt parse_step (list_of ","%char op),
            map_opt parse_step (list_of ","%char bd), map_opt parse_step (list_of ","%char ex),
            map_opt parse_step (list_of ","%char fi), map_opt parse_step (list_of ","%char po) with
      | Some a, Some b, Some c, Some d, Some f, Some e => Some (mkwriter a b c d f e)
      | _, _, _, _, _, _ => None
      end
  | _ => None
  end.

(* node: A | D | F<hex> *)
Definition parse_node (s : string) : option node :=
  match s with
  | "A" => Some Absent
  | "D" => Some Dir
  | String "F" r => Some (File (hex_decode r))
  | _ => None
  end.
Definition show_node (n : node) : string :=
  match n with Absent => "A" | Dir => "D" | File c => "F" ++ hex_encode c end.
Definition parse_entry (s : string) : option (string * node) :=
  match split_lin ":"%char s with
  | [n; k] => option_map (fun x => (hex_decode n, x)) (parse_node k)
  | _ => None
  end.
Fixpoint fs_of (l : list (string * node)) : fsys :=
  match l with
  | [] => fun _ => Absent
  | (n, k) :: r => upd (fs_of r) n k
  end.

(* object: ! (raises) | _ (no lines) | x<hex>.x<hex>... *)
Definition parse_line (s : string) : option string :=
  match s with String "x" r => Some (hex_decode r) | _ => None end.
Definition parse_object (s : string) : option object :=
  match s with
  | "!" => Some None
  | "_" => Some (Some [])
  | _ => option_map Some (map_opt parse_line (split_lin "."%char s))
  end.
Definition parse_objs (s : string) : option (list object) := map_opt parse_object (list_of ","%char s).
Definition parse_problem (s : string) : option problem :=
  match split_lin "/"%char s with
  | [m; t; c; su; d; ch] =>
      match parse_objs m, parse_objs t, parse_objs c, parse_objs su, parse_objs d, parse_object ch with
      | Some m, Some t, Some c, Some su, Some d, Some ch =>
          Some (mkproblem (fun s => match s with SMessage => m | STitle => t | SCells => c
                                               | SSurfaces => su | SData => d end) ch)
      | _, _, _, _, _, _ => None
      end
  | _ => None
  end.

Record advl := mkadvl { l_fmt : list nat; l_fmtw : list nat; l_wr : list nat; l_flags : list string }.
Definition mem_nat (n : nat) (l : list nat) : bool := existsb (Nat.eqb n) l.
Definition mem_str (s : string) (l : list string) : bool := existsb (String.eqb s) l.
Fixpoint parse_adv_items (l : list string) (acc : advl) : option advl :=
  match l with
  | [] => Some acc
  | String "f" r :: rest =>
      match parse_nat r with
      | Some k => parse_adv_items rest (mkadvl (k :: l_fmt acc) (l_fmtw acc) (l_wr acc) (l_flags acc))
      | None => None
      end
  | String "g" r :: rest =>     (* the k-th format call raises a Warning subclass *)
      match parse_nat r with
      | Some k => parse_adv_items rest (mkadvl (k :: l_fmt acc) (k :: l_fmtw acc) (l_wr acc) (l_flags acc))
      | None => None
      end
  | String "w" r :: rest =>
      match parse_nat r with
      | Some k => parse_adv_items rest (mkadvl (l_fmt acc) (l_fmtw acc) (k :: l_wr acc) (l_flags acc))
      | None => None
      end
  | x :: rest =>
      if mem_str x ["c"; "o"; "x"; "r"; "m"; "p"]
      then parse_adv_items rest (mkadvl (l_fmt acc) (l_fmtw acc) (l_wr acc) (x :: l_flags acc))
      else None
  end.
Definition parse_adv (s : string) : option adversary :=
  match parse_adv_items (list_of ","%char s) (mkadvl [] [] [] []) with
  | Some a => Some (mkadv (fun k => mem_nat k (l_fmt a)) (fun k => mem_nat k (l_fmtw a)) (fun j => mem_nat j (l_wr a))
                          (mem_str "c" (l_flags a)) (mem_str "o" (l_flags a)) (mem_str "x" (l_flags a))
                          (mem_str "r" (l_flags a)) (mem_str "m" (l_flags a)) (mem_str "p" (l_flags a)))
  | None => None
  end.

Definition show_exn (e : exn) : string :=
  match e with
  | FileExistsError => "FileExistsError" | IsADirectoryError => "IsADirectoryError"
  | IllegalState => "IllegalState" | WarningClass => "WarningClass" | OSError => "OSError" | WarningRaised => "WarningRaised"
  | ModelStuck => "ModelStuck"
  end.
Definition show_result (r : result) : string := match r with Ok => "ok" | Err e => show_exn e end.

Definition node_eqb (a b : node) : bool :=
  match a, b with
  | Absent, Absent | Dir, Dir => true
  | File x, File y => String.eqb x y
  | _, _ => false
  end.

Definition show_bool (b : bool) : string := if b then "1" else "0".

(* diagnosis of a step list: every reflective condition with its value and, when false, a witness *)
Fixpoint first_bad {A} (f : A -> bool) (l : list A) (i : nat) : option (nat * A) :=
  match l with
  | [] => None
  | x :: r => if f x then first_bad f r (S i) else Some (i, x)
  end.
Definition show_target (t : target) := match t with Dest => "D" | Temp => "T" end.
Definition show_cond (c : cond) :=
  match c with Always => "A" | IfOk => "O" | IfErr => "E" | IfTemp => "P" | IfOkTemp => "Q" end.
Definition show_sec (s : sec) := match s with SMessage => "M" | STitle => "T" | SCells => "C" | SSurfaces => "S" | SData => "D" end.
Definition show_ostep (o : ostep) :=
  match o with Format => "F" | Warn => "N" | WriteLines false => "W" | WriteLines true => "R" end.
Definition show_step (s : step) : string :=
  match s with
  | GuardExists => "GE" | GuardIsDir => "GD" | OpenW t => "O" ++ show_target t | CopyMode => "CM"
  | OpenElse t u => "OE" ++ show_target t ++ show_target u
  | Loop sc b => "L" ++ show_sec sc ++ String.concat "" (map show_ostep b)
  | Children false => "CH" | Children true => "CR" | Blank => "BL" | Close => "CL"
  | Replace c => "RP" ++ show_cond c | Remove c t => "RM" ++ show_cond c ++ show_target t
  | Forget c => "FG" ++ show_cond c
  | HandleWarnings => "HW"
  end.
Definition show_piece (p : piece) : string :=
  match p with
  | PSec s r => "sec" ++ show_sec s ++ (if r then "r" else "")
  | PChildren r => "children" ++ (if r then "r" else "")
  | PNl => "blank" | PBad => "BAD"
  end.
Definition witness_steps (f : step -> bool) (l : list step) : string :=
  match first_bad f l 0 with
  | None => "-"
  | Some (i, s) => "step#" ++ show_nat i ++ "=" ++ show_step s
  end.
Definition diagnose (w : writer) : string :=
  join " " [
    "guards_first=" ++ show_bool (guards_first w) ++ ":leading=" ++ show_list show_step (leading_guards (w_open w));
    "dest_only_written_by_replace=" ++ show_bool (dest_only_written_by_replace w) ++ ":"
       ++ witness_steps no_dest_step (all_steps w);
    "replace_only_on_success=" ++ show_bool (replace_only_on_success w) ++ ":"
       ++ witness_steps (fun s => negb (is_replace s)) (w_open w ++ w_body w ++ w_final w ++ w_post w) ++ ";"
       ++ witness_steps replace_guarded (w_exit w);
    "post_only_warnings=" ++ show_bool (post_only_warnings w) ++ ":" ++ witness_steps is_post_step (w_post w);
    "writes_go_to_temp_then_replace=" ++ show_bool (writes_go_to_temp_then_replace w) ++ ":-";
    "opens_temp_after_guards=" ++ show_bool (opens_temp_after_guards w) ++ ":after-guards="
       ++ show_list show_step (drop_guards (w_open w));
    "temp_removed_on_failure=" ++ show_bool (temp_removed_on_failure w) ++ ":exit=" ++ show_list show_step (w_exit w)
       ++ ";finally=" ++ show_list show_step (w_final w);
    "body_blocks_in_order=" ++ show_bool (body_blocks_in_order w) ++ ":pieces=" ++ show_list show_piece (pieces (w_body w));
    "children_before_terminator=" ++ show_bool (children_before_terminator w) ++ ":after-data="
       ++ match after_data (pieces (w_body w)) with None => "none" | Some r => show_list show_piece r end;
    "temp_name_distinct=" ++ show_bool (temp_name_distinct w) ++ ":parts=" ++ show_nat (List.length (w_temp w));
    "writer_ok=" ++ show_bool (writer_ok w) ++ ":-";
    "cleanup_total=" ++ show_bool (cleanup_total w) ++ ":-";
    "w_strips=" ++ show_bool (w_strips w) ++ ":-";
    "all_formats_precede_open=" ++ show_bool (all_formats_precede_open w) ++ ":"
       ++ witness_steps (fun s => negb (is_loop s)) (w_body w)
  ].

(* requests
     run <writer> <ov:0|1> <pid-hex> <dest-hex> <fs> <problem> <adversary>
        -> <result> d=<node> t=<node> o=<others unchanged:0|1> nf=<format calls> nw=<write calls> tn=<temp name hex>
     check <writer>    -> diagnosis
     render <strip:0|1> <problem>  -> hex of spec_render_r *)
Definition run_Write (req : string) : string :=
  match split_lin " "%char req with
  | ["run"; ws; ov; pid; dn; fss; ps; advs] =>
      match parse_writer ws, map_opt parse_entry (list_of ","%char fss), parse_problem ps, parse_adv advs with
      | Some w, Some ents, Some p, Some adv =>
          let d := hex_decode dn in
          let t := temp_name (w_temp w) (hex_decode pid) d in
          let f := fs_of ents in
          let E := mkenv d t (String.eqb ov "1") p adv in
          let '(s, r) := run_state w E (init_state f) in
          let others := forallb (fun e => let n := fst e in
                                   if String.eqb n d || String.eqb n t then true
                                   else node_eqb (fs s n) (f n)) ents in
          join " " [show_result r; "d=" ++ show_node (fs s d); "t=" ++ show_node (fs s t);
                    "o=" ++ show_bool others; "nf=" ++ show_nat (nfmt s); "nw=" ++ show_nat (nwr s);
                    "tn=" ++ hex_encode t]
      | None, _, _, _ => "parse:writer"
      | _, None, _, _ => "parse:fs"
      | _, _, None, _ => "parse:problem"
      | _, _, _, None => "parse:adversary"
      end
  | ["check"; ws] =>
      match parse_writer ws with Some w => diagnose w | None => "parse:writer" end
  | ["render"; rs; ps] =>
      match parse_problem ps with
      | Some p => hex_encode (spec_render_r (String.eqb rs "1") p)
      | None => "parse:problem"
      end
  | _ => "parse:request"
  end.
