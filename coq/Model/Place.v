(* Place.v — executable model of where MontePy keeps, and where it writes, the per-cell data
   IMP(particle) VOL U LAT FILL ("cell modifiers").

   Source modelled (names as in /repo/montepy):
     _cell_data_control.py   CellDataPrintController            -> [flags] (default True resolved at read)
     data_inputs/cell_modifier.py  format_for_mcnp_input, _is_worth_printing, _collect_new_values,
                             in_cell_block, set_in_cell_block, link_to_problem, _check_redundant_definitions
                                                                -> [prints], [worth], [link_flags], [redundant]
     data_inputs/importance.py   cell level: __getitem__/__setitem__ (with _unshare_tree)/__delitem__, merge,
                             _generate_default_cell_tree, _format_tree (with its in-place classifier edits);
                             data level: push_to_cells, _collect_new_values (one vector per MODE particle)
     data_inputs/volume.py, universe_input.py, lattice_input.py, fill.py
                             has_information, _tree_value, push_to_cells, the value setters/deleters
     cells.py                update_pointers, __setup_blank_cell_modifiers, _run_children_format_for_mcnp
     cell.py                 _parse_keyword_modifiers, _load_blank_modifiers, link_to_problem,
                             the parameter loop of format_for_mcnp_input
     mcnp_problem.py         write_to_file (order of objects, children, terminators), cells setter
     numbered_object_collection.py   append / remove / clear+extend as far as linking and order go

   NOT modelled (said again in notes/C09.md):
     * the text of a card: shortcut re-compression (ListNode.update_with_new_values), padding, wrapping — a
       data-block vector is the list of its logical entries (None = jump); the correspondence expands
       shortcuts with the independent reader and pads omitted trailing jumps;
     * Importance._try_combine_values / data-level _format_tree: which particles share one IMP card.  The model
       emits one vector per MODE particle; the harness checks that the real cards give every MODE particle exactly
       one vector (a combined card gives the same vector to each of its particles);
     * U's minus sign (not_truncated), VOL's NO keyword, matrix fills (a cell with a transform on FILL is the
       only "complex" fill), Importance.all / Cells.set_equal_importance, values' numeric formatting (values are
       opaque integers);
     * comments and line structure of the cards (b3375c7, 3eacc4c, db7aff2: which comment goes where when a datum
       changes block) — the harness has a comment oracle for pure placement changes.
   [write] returns the output only: since 5239663 Importance._format_tree restores the classifiers it edits while
   formatting, so a write leaves nothing behind in MontePy either (the harness writes in the middle of histories).
   Values are never computed with, only moved and compared for equality (math.isclose becomes equality).
   Describes /repo at 5239663 (frozen): with _unshare_tree (11534b6), LAT's _update_cell_values (929de16), new importance
   trees labelled with their own particle (0e28d06), universe None -> jump (e7a2fbb), deleters that clear the value
   (277027d), no importance for particles outside MODE on cell cards (cba7f60).
   No proofs in this file. *)
From Coq Require Import List String Ascii ZArith Bool Lia.
From MPV Require Import Model.Wire.
Import ListNotations.
Open Scope string_scope.
Open Scope list_scope.

(* ------------------------------------------------------------------ basic types *)
Inductive cls := CImp | CVol | CU | CLat | CFill.
Definition all_cls : list cls := [CImp; CVol; CU; CLat; CFill].      (* Cell._INPUTS_TO_PROPERTY order *)
Definition cls_eqb (a b : cls) : bool :=
  match a, b with
  | CImp, CImp | CVol, CVol | CU, CU | CLat, CLat | CFill, CFill => true
  | _, _ => false
  end.

Definition particle := nat.
Definition neutron : particle := 0.
Definition mem (q : particle) (l : list particle) : bool := existsb (Nat.eqb q) l.

Inductive err :=
| EMalformed          (* MalformedInputError *)
| EIndex              (* IndexError: IMP vector shorter than the cell list *)
| EReadCrash          (* AttributeError: U / LAT vector longer than the cell list *)
| EPartNotInProblem   (* ParticleTypeNotInProblem *)
| EPartNotInCell      (* ParticleTypeNotInCell *)
| EListRemove         (* ValueError: list.remove(x): x not in list  (ParticleNode.remove) *)
| EFillComplex        (* ValueError: Fill can not be in the data block ... *)
| ENumberConflict     (* NumberConflictError *)
| EKey                (* KeyError *)
| ENoTarget.          (* KeyError: problem.cells[n] for a cell that is not in the problem *)

Inductive res (A : Type) := Ok (a : A) | Err (e : err).
Arguments Ok {A} a.
Arguments Err {A} e.

Fixpoint map_res {A B} (f : A -> res B) (l : list A) : res (list B) :=
  match l with
  | [] => Ok []
  | x :: r => match f x with
              | Err e => Err e
              | Ok y => match map_res f r with
                        | Err e => Err e
                        | Ok ys => Ok (y :: ys)
                        end
              end
  end.

(* ------------------------------------------------------------------ importance of one cell *)
(* one syntax tree "imp:<classifier>=<value>" *)
Record itree := mkT {
  t_val : Z;
  t_parts : list particle;      (* classifier.particles._particles : a set *)
  t_order : list particle       (* classifier.particles._order *)
}.
(* Importance._particle_importances: dict particle -> tree; keys that share ONE tree object form a group;
   groups in dict order (keys sharing a tree are always adjacent: they are inserted together) *)
Definition igroup := (list particle * itree)%type.
Definition ikeys (g : list igroup) : list particle := flat_map fst g.

Fixpoint ifind (q : particle) (g : list igroup) : option itree :=
  match g with
  | [] => None
  | (ks, t) :: r => if mem q ks then Some t else ifind q r
  end.
(* __getitem__: KeyError -> 0.0 *)
Definition ival (q : particle) (g : list igroup) : Z :=
  match ifind q g with Some t => t_val t | None => 0%Z end.

Fixpoint iupd (q : particle) (f : itree -> itree) (g : list igroup) : list igroup :=
  match g with
  | [] => []
  | (ks, t) :: r => if mem q ks then (ks, f t) :: r else (ks, t) :: iupd q f r
  end.

Definition remove_p (q : particle) (l : list particle) : list particle :=
  filter (fun o => negb (Nat.eqb o q)) l.

(* __setitem__ on a particle that has a tree: _unshare_tree splits the particle off a tree it shares with other
   particles (a deep copy labelled with this particle only, placed directly before the tree it came from, whose
   classifier loses the particle), then the value is set *)
Fixpoint iset_existing (q : particle) (v : Z) (g : list igroup) : list igroup :=
  match g with
  | [] => []
  | (ks, t) :: r =>
      if mem q ks then
        match remove_p q ks with
        | [] => (ks, mkT v (t_parts t) (t_order t)) :: r
        | ks' => ([q], mkT v [q] [q])
                 :: (ks', mkT (t_val t) (remove_p q (t_parts t)) (remove_p q (t_order t))) :: r
        end
      else (ks, t) :: iset_existing q v r
  end.

(* __setitem__ after its checks; [linked]: the cell-level Importance has _problem *)
Definition iset (linked : bool) (mode : list particle) (q : particle) (v : Z) (g : list igroup) : list igroup :=
  if mem q (ikeys g) then iset_existing q v g
  else g ++ [([q], mkT v [q] [q])].   (* _generate_default_cell_tree(particle): labelled with this particle *)

(* __delitem__ (q is a key) *)
Fixpoint idel (q : particle) (g : list igroup) : list igroup :=
  match g with
  | [] => []
  | (ks, t) :: r =>
      if mem q ks then
        match remove_p q ks with
        | [] => r
        | ks' => (ks', t) :: r
        end
      else (ks, t) :: idel q r
  end.

(* Importance(in_cell_block=True) of a cell without IMP parameter: default neutron tree, value 0 *)
Definition blank_imp : list igroup := [([neutron], mkT 0%Z [neutron] [neutron])].

(* cell level _format_tree: the parameters printed on the cell card, each (classifier particles, value).
   Faithful to: the [printed] set, self[p] raising ParticleTypeNotInProblem, ParticleNode.remove raising
   ValueError when the particle is not in _order, and the in-place removal from the (shared) classifier. *)
Definition minus (l far : list particle) : list particle := filter (fun o => negb (mem o far)) l.

Fixpoint fmt_loop (mode : list particle) (keys : list particle) (g : list igroup) (printed : list particle)
  : res (list (list particle * Z)) :=
  match keys with
  | [] => Ok []
  | q :: ks =>
      if mem q printed then fmt_loop mode ks g printed
      else if negb (mem q mode) then fmt_loop mode ks g printed     (* only the particles of the problem *)
      else
        match ifind q g with
        | None => fmt_loop mode ks g printed
        | Some t =>
            let others := remove_p q (t_parts t) in
            if andb (negb (match others with [] => true | _ => false end))
                    (orb (negb (mem q mode)) (existsb (fun o => negb (mem o mode)) others))
            then Err EPartNotInProblem
            else
              let close := filter (fun o => Z.eqb (ival o g) (t_val t)) others in
              let far := filter (fun o => negb (Z.eqb (ival o g) (t_val t))) others in
              if existsb (fun o => negb (mem o (t_order t))) far then Err EListRemove
              else
                let parts' := minus (t_parts t) far in
                let g' := iupd q (fun t0 => mkT (t_val t0) parts' (minus (t_order t0) far ++ minus parts' (t_order t0))) g in
                match fmt_loop mode ks g' (q :: close ++ printed) with
                | Err e => Err e
                | Ok r => Ok ((parts', t_val t) :: r)
                end
        end
  end.
Definition fmt_imp_cell (mode : list particle) (g : list igroup) : res (list (list particle * Z)) :=
  fmt_loop mode (ikeys g) g [].

(* ------------------------------------------------------------------ cells *)
Inductive vvol :=
| VSet (z : Z)     (* ValueNode with a value *)
| VNone.           (* ValueNode with value None (never set, deleted, or a jump pushed from the data block) *)

Record cell := mkC {
  c_num : Z;
  c_imp : list igroup;  c_imp_set : bool;           (* *_set = set_in_cell_block of the cell-level instance *)
  c_vol : vvol;         c_vol_set : bool;
  c_u : option Z;       c_u_set : bool;             (* None: no Universe object (a cell made by Cell()) *)
  c_lat : option Z;     c_lat_set : bool;
  c_fill : option Z;    c_fill_tr : bool;  c_fill_set : bool
}.

Definition blank_cell (n : Z) : cell :=
  mkC n blank_imp false VNone false None false None false None false false.

Definition set_of (c : cell) (k : cls) : bool :=
  match k with
  | CImp => c_imp_set c | CVol => c_vol_set c | CU => c_u_set c | CLat => c_lat_set c | CFill => c_fill_set c
  end.

(* has_information of the cell-level instance *)
Definition has_information (c : cell) (k : cls) : bool :=
  match k with
  | CImp => true
  | CVol => match c_vol c with VSet _ => true | _ => false end
  | CU => match c_u c with Some u => negb (Z.eqb u 0) | None => false end
  | CLat => match c_lat c with Some _ => true | None => false end
  | CFill => match c_fill c with Some _ => true | None => false end
  end.

(* ------------------------------------------------------------------ problem state *)
Record flags := mkF { f_imp : bool; f_vol : bool; f_u : bool; f_lat : bool; f_fill : bool }.
Definition flag (f : flags) (k : cls) : bool :=
  match k with CImp => f_imp f | CVol => f_vol f | CU => f_u f | CLat => f_lat f | CFill => f_fill f end.
Definition set_flag (f : flags) (k : cls) (b : bool) : flags :=
  match k with
  | CImp => mkF b (f_vol f) (f_u f) (f_lat f) (f_fill f)
  | CVol => mkF (f_imp f) b (f_u f) (f_lat f) (f_fill f)
  | CU => mkF (f_imp f) (f_vol f) b (f_lat f) (f_fill f)
  | CLat => mkF (f_imp f) (f_vol f) (f_u f) b (f_fill f)
  | CFill => mkF (f_imp f) (f_vol f) (f_u f) (f_lat f) b
  end.

(* a position of the original data block: some other input, or the data-level instance of a class *)
Inductive dslot := SOther | SMod (k : cls).

Record state := mkS {
  s_mode : list particle;          (* problem.mode.particles in iteration order *)
  s_cells : list cell;             (* problem.cells, in order *)
  s_scratch : option (cell * bool);(* a cell not (yet) in the problem; bool: it has a _problem (deepcopy) *)
  s_flags : flags;                 (* print_in_data_block[...] *)
  s_data : list dslot              (* problem.data_inputs *)
}.

(* CellModifierInput.link_to_problem for the five instances of a cell *)
Definition link_flags (c : cell) (f : flags) : flags :=
  fold_left (fun f k => if set_of c k then set_flag f k false else f) all_cls f.

(* ------------------------------------------------------------------ writing *)
Inductive wval := WV (z : Z).

Inductive entry :=
| EImp (ps : list particle) (v : Z)
| EOne (k : cls) (v : wval).

(* in_cell_block != print_in_data_block, for the cell-level instance (in_cell_block = True) *)
Definition prints_cell (f : flags) (k : cls) : bool := negb (Bool.eqb true (flag f k)).
(* ... and for the data-level instance (in_cell_block = False) *)
Definition prints_data (f : flags) (k : cls) : bool := negb (Bool.eqb false (flag f k)).

Definition one_entry (c : cell) (k : cls) : list entry :=
  match k with
  | CImp => []
  | CVol => match c_vol c with VSet z => [EOne CVol (WV z)] | _ => [] end
  | CU => match c_u c with Some u => if Z.eqb u 0 then [] else [EOne CU (WV u)] | None => [] end
  | CLat => match c_lat c with
            | Some z => [EOne CLat (WV z)]       (* LatticeInput._update_cell_values puts the value's node in the tree *)
            | None => []
            end
  | CFill => match c_fill c with Some z => [EOne CFill (WV z)] | None => [] end
  end.

(* Cell.format_for_mcnp_input: the per-cell-data parameters of one card *)
Definition card (mode : list particle) (f : flags) (c : cell) : res (Z * list entry) :=
  match (if prints_cell f CImp then fmt_imp_cell mode (c_imp c) else Ok []) with
  | Err e => Err e
  | Ok imps =>
      Ok (c_num c,
          map (fun e => EImp (fst e) (snd e)) imps
          ++ flat_map (fun k => if andb (prints_cell f k) (has_information c k) then one_entry c k else [])
                      [CVol; CU; CLat; CFill])
  end.

(* _is_worth_printing of the data-level instance *)
Definition worth (cells : list cell) (k : cls) : bool := existsb (fun c => has_information c k) cells.

(* one data card: the particle (IMP only) and one logical entry per cell *)
Definition dcard := (option particle * list (option Z))%type.

(* _tree_value of the cell-level instance, as used by _collect_new_values *)
Definition tree_value (k : cls) (c : cell) : res (option Z) :=
  match k with
  | CImp => Ok None
  | CVol => match c_vol c with VSet z => Ok (Some z) | VNone => Ok None end
  | CU => match c_u c with
          | None => Ok None                    (* a cell that was never given a universe is in universe 0 *)
          | Some u => Ok (if Z.eqb u 0 then None else Some u)
          end
  | CLat => Ok (c_lat c)
  | CFill => if c_fill_tr c then Err EFillComplex else Ok (c_fill c)
  end.

Definition imp_value (q : particle) (c : cell) : res (option Z) :=
  match ifind q (c_imp c) with Some t => Ok (Some (t_val t)) | None => Err EPartNotInCell end.

Definition collect (mode : list particle) (cells : list cell) (k : cls) : res (list dcard) :=
  match k with
  | CImp => map_res (fun q => match map_res (imp_value q) cells with
                              | Err e => Err e | Ok v => Ok (Some q, v) end) mode
  | _ => match map_res (tree_value k) cells with
         | Err e => Err e | Ok v => Ok [(None, v)] end
  end.

Inductive ditem := DOther | DMod (k : cls) (cards : list dcard).

(* CellModifierInput.format_for_mcnp_input of the data-level instance of class k *)
Definition mod_item (s : state) (k : cls) : res (list ditem) :=
  if andb (prints_data (s_flags s) k) (worth (s_cells s) k) then
    match collect (s_mode s) (s_cells s) k with
    | Err e => Err e
    | Ok cards => Ok [DMod k cards]
    end
  else Ok [].

Definition in_data (d : list dslot) (k : cls) : bool :=
  existsb (fun x => match x with SMod k' => cls_eqb k k' | SOther => false end) d.

Definition concat_res {A} (r : res (list (list A))) : res (list A) :=
  match r with Err e => Err e | Ok l => Ok (List.concat l) end.

(* the data inputs loop of write_to_file *)
Definition data_objects (s : state) : res (list ditem) :=
  concat_res (map_res (fun x => match x with SOther => Ok [DOther] | SMod k => mod_item s k end) (s_data s)).
(* Cells._run_children_format_for_mcnp *)
Definition data_children (s : state) : res (list ditem) :=
  concat_res (map_res (fun k => if in_data (s_data s) k then Ok [] else mod_item s k) all_cls).

(* write_to_file as a sequence of steps; this list is the order of the source (mcnp_problem.py); Properties/C09.v
   checks it against the list that harness/translate_writer.py extracts from the source on every run (Gen/Writer.v).
   The last StTerminate is the extra blank line that ends the file. *)
Inductive step := StCells | StSurfaces | StData | StChildren | StTerminate.
Definition write_steps : list step :=
  [StCells; StTerminate; StSurfaces; StTerminate; StData; StChildren; StTerminate; StTerminate].

Inductive event :=
| EvCell (n : Z) (es : list entry)
| EvSurfaces
| EvData (d : ditem)
| EvBlank.

Definition run_step (s : state) (st : step) : res (list event) :=
  match st with
  | StCells => match map_res (card (s_mode s) (s_flags s)) (s_cells s) with
               | Err e => Err e
               | Ok cs => Ok (map (fun c => EvCell (fst c) (snd c)) cs)
               end
  | StSurfaces => Ok [EvSurfaces]
  | StData => match data_objects s with Err e => Err e | Ok d => Ok (map EvData d) end
  | StChildren => match data_children s with Err e => Err e | Ok d => Ok (map EvData d) end
  | StTerminate => Ok [EvBlank]
  end.

Definition write_events_with (steps : list step) (s : state) : res (list event) :=
  concat_res (map_res (run_step s) steps).
Definition write_events (s : state) : res (list event) := write_events_with write_steps s.

(* the same output, structured: the cell cards and the content of the data block *)
Record wout := mkW { w_cards : list (Z * list entry); w_data : list ditem }.
Definition write (s : state) : res wout :=
  match map_res (card (s_mode s) (s_flags s)) (s_cells s) with
  | Err e => Err e
  | Ok cs =>
      match data_objects s with
      | Err e => Err e
      | Ok d1 => match data_children s with
                 | Err e => Err e
                 | Ok d2 => Ok (mkW cs (d1 ++ d2))
                 end
      end
  end.

(* ------------------------------------------------------------------ the API view *)
Record apicell := mkA {
  a_num : Z; a_imp : list (particle * Z); a_vol : option Z; a_u : option Z; a_lat : option Z; a_fill : option Z
}.
Definition api_cell (mode : list particle) (c : cell) : apicell :=
  mkA (c_num c) (map (fun q => (q, ival q (c_imp c))) mode)
      (match c_vol c with VSet z => Some z | _ => None end)
      (c_u c) (c_lat c) (c_fill c).
Definition per_cell (s : state) : list apicell := map (api_cell (s_mode s)) (s_cells s).

(* ------------------------------------------------------------------ operations *)
Inductive target := TScratch | TCell (n : Z).

Inductive op :=
| OFlip (k : cls) (b : bool)                (* problem.print_in_data_block[k] = b *)
| ONew (n : Z)                              (* c = montepy.Cell(); c.number = n; geometry ... *)
| OCopy (src n : Z)                         (* c = copy.deepcopy(problem.cells[src]); c.number = n *)
| OAppend                                   (* problem.cells.append(c) *)
| ORemove (n : Z)                           (* problem.cells.remove(problem.cells[n]) *)
| OReorder (ns : list Z)                    (* problem.cells = [problem.cells[n] for n in ns] *)
| OSetImp (t : target) (q : particle) (v : Z)
| ODelImp (t : target) (q : particle)
| OSetAll (t : target) (v : Z)              (* cell.importance.all = v *)
| OSetVol (t : target) (v : Z)
| ODelVol (t : target)
| OSetU (t : target) (u : Z)
| OSetLat (t : target) (v : option Z)
| OSetFill (t : target) (v : option Z).

Fixpoint find_cell (n : Z) (l : list cell) : option cell :=
  match l with
  | [] => None
  | c :: r => if Z.eqb (c_num c) n then Some c else find_cell n r
  end.

Fixpoint upd_cell (n : Z) (f : cell -> cell) (l : list cell) : list cell :=
  match l with
  | [] => []
  | c :: r => if Z.eqb (c_num c) n then f c :: r else c :: upd_cell n f r
  end.

Definition with_cells (s : state) (l : list cell) : state := mkS (s_mode s) l (s_scratch s) (s_flags s) (s_data s).
Definition with_scratch (s : state) (x : option (cell * bool)) : state := mkS (s_mode s) (s_cells s) x (s_flags s) (s_data s).
Definition with_flags (s : state) (f : flags) : state := mkS (s_mode s) (s_cells s) (s_scratch s) f (s_data s).

(* an edit of one cell: [linked] tells whether the cell has a _problem; returns the new cell or an error *)
Definition edit := bool -> list particle -> cell -> res cell.

Definition set_imp (c : cell) g := mkC (c_num c) g (c_imp_set c) (c_vol c) (c_vol_set c) (c_u c) (c_u_set c)
                                       (c_lat c) (c_lat_set c) (c_fill c) (c_fill_tr c) (c_fill_set c).
Definition set_vol (c : cell) v := mkC (c_num c) (c_imp c) (c_imp_set c) v (c_vol_set c) (c_u c) (c_u_set c)
                                       (c_lat c) (c_lat_set c) (c_fill c) (c_fill_tr c) (c_fill_set c).
Definition set_u (c : cell) u := mkC (c_num c) (c_imp c) (c_imp_set c) (c_vol c) (c_vol_set c) u (c_u_set c)
                                     (c_lat c) (c_lat_set c) (c_fill c) (c_fill_tr c) (c_fill_set c).
Definition set_lat (c : cell) v := mkC (c_num c) (c_imp c) (c_imp_set c) (c_vol c) (c_vol_set c) (c_u c) (c_u_set c)
                                       v (c_lat_set c) (c_fill c) (c_fill_tr c) (c_fill_set c).
Definition set_fill (c : cell) v := mkC (c_num c) (c_imp c) (c_imp_set c) (c_vol c) (c_vol_set c) (c_u c) (c_u_set c)
                                        (c_lat c) (c_lat_set c) v (c_fill_tr c) (c_fill_set c).
Definition set_num (c : cell) n := mkC n (c_imp c) (c_imp_set c) (c_vol c) (c_vol_set c) (c_u c) (c_u_set c)
                                       (c_lat c) (c_lat_set c) (c_fill c) (c_fill_tr c) (c_fill_set c).

Definition e_set_imp (q : particle) (v : Z) : edit := fun linked mode c =>
  if andb linked (negb (mem q mode)) then Err EPartNotInProblem       (* _check_particle_in_problem *)
  else Ok (set_imp c (iset linked mode q v (c_imp c))).
(* Importance.all / _set_all: every MODE particle, in MODE's order; a particle without a tree gets one, a particle
   with a tree has the tree's value set (no _unshare_tree here: the particles that share the tree follow);
   nothing happens on a cell that has no _problem *)
Definition iset_all (mode : list particle) (v : Z) (g : list igroup) : list igroup :=
  fold_left (fun g q => if mem q (ikeys g) then iupd q (fun t => mkT v (t_parts t) (t_order t)) g
                        else g ++ [([q], mkT v [q] [q])]) mode g.
Definition e_set_all (v : Z) : edit := fun linked mode c =>
  if linked then Ok (set_imp c (iset_all mode v (c_imp c))) else Ok c.
Definition e_del_imp (q : particle) : edit := fun _ _ c =>
  if mem q (ikeys (c_imp c)) then Ok (set_imp c (idel q (c_imp c))) else Err EKey.
Definition e_set_vol (v : Z) : edit := fun _ _ c => Ok (set_vol c (VSet v)).
Definition e_del_vol : edit := fun _ _ c => Ok (set_vol c VNone).     (* the deleter clears the node's value *)
Definition e_set_u (u : Z) : edit := fun _ _ c => Ok (set_u c (Some u)).
Definition e_set_lat (v : option Z) : edit := fun _ _ c => Ok (set_lat c v).
Definition e_set_fill (v : option Z) : edit := fun _ _ c => Ok (set_fill c v).

Definition apply_edit (s : state) (t : target) (e : edit) : res state :=
  match t with
  | TScratch =>
      match s_scratch s with
      | None => Err ENoTarget
      | Some (c, linked) =>
          match e linked (s_mode s) c with
          | Err x => Err x
          | Ok c' => Ok (with_scratch s (Some (c', linked)))
          end
      end
  | TCell n =>
      match find_cell n (s_cells s) with
      | None => Err ENoTarget
      | Some c =>
          match e true (s_mode s) c with
          | Err x => Err x
          | Ok c' => Ok (with_cells s (upd_cell n (fun _ => c') (s_cells s)))
          end
      end
  end.

Definition numbers (l : list cell) : list Z := map c_num l.
Definition zmem (n : Z) (l : list Z) : bool := existsb (Z.eqb n) l.

Fixpoint pick_cells (ns : list Z) (l : list cell) : option (list cell) :=
  match ns with
  | [] => Some []
  | n :: r => match find_cell n l, pick_cells r l with
              | Some c, Some cs => Some (c :: cs)
              | _, _ => None
              end
  end.

Fixpoint nodupb (l : list Z) : bool :=
  match l with [] => true | x :: r => andb (negb (zmem x r)) (nodupb r) end.

Definition step_op (s : state) (o : op) : res state :=
  match o with
  | OFlip k b => Ok (with_flags s (set_flag (s_flags s) k b))
  | ONew n => Ok (with_scratch s (Some (blank_cell n, false)))
  | OCopy src n =>
      match find_cell src (s_cells s) with
      | None => Err ENoTarget
      | Some c => if zmem n (numbers (s_cells s)) then Err ENumberConflict   (* number setter: check_number *)
                  else Ok (with_scratch s (Some (set_num c n, true)))
      end
  | OAppend =>
      match s_scratch s with
      | None => Err ENoTarget
      | Some (c, _) =>
          if zmem (c_num c) (numbers (s_cells s)) then Err ENumberConflict
          else Ok (mkS (s_mode s) (s_cells s ++ [c]) None (link_flags c (s_flags s)) (s_data s))
      end
  | ORemove n =>
      match find_cell n (s_cells s) with
      | None => Err ENoTarget
      | Some _ => Ok (with_cells s (filter (fun c => negb (Z.eqb (c_num c) n)) (s_cells s)))
      end
  | OReorder ns =>
      (* the cells setter: clear, then extend (which links every cell again) *)
      match pick_cells ns (s_cells s) with
      | None => Err ENoTarget
      | Some cs => if nodupb ns
                   then Ok (mkS (s_mode s) cs (s_scratch s) (fold_left (fun f c => link_flags c f) cs (s_flags s)) (s_data s))
                   else Err ENumberConflict
      end
  | OSetImp t q v => apply_edit s t (e_set_imp q v)
  | ODelImp t q => apply_edit s t (e_del_imp q)
  | OSetAll t v => apply_edit s t (e_set_all v)
  | OSetVol t v => apply_edit s t (e_set_vol v)
  | ODelVol t => apply_edit s t e_del_vol
  | OSetU t u => apply_edit s t (e_set_u u)
  | OSetLat t v => apply_edit s t (e_set_lat v)
  | OSetFill t v => apply_edit s t (e_set_fill v)
  end.

(* a Python statement that raises leaves the state as it was (every op above checks before it changes) *)
Definition do_op (s : state) (o : op) : state :=
  match step_op s o with Ok s' => s' | Err _ => s end.
Definition run_ops (s : state) (ops : list op) : state := fold_left do_op ops s.

Fixpoint run_log (s : state) (ops : list op) : state * list (option err) :=
  match ops with
  | [] => (s, [])
  | o :: r => match step_op s o with
              | Ok s' => let (sf, l) := run_log s' r in (sf, None :: l)
              | Err e => let (sf, l) := run_log s r in (sf, Some e :: l)
              end
  end.

(* ------------------------------------------------------------------ reading *)
Record fcell := mkFC {
  fc_num : Z;
  fc_imp : list (list particle * Z);      (* the IMP parameters of the card, in order *)
  fc_vol : option Z; fc_u : option Z; fc_lat : option Z; fc_fill : option Z; fc_fill_tr : bool
}.
Inductive fditem :=
| FOther
| FImp (ps : list particle) (vec : list Z)
| FVec (k : cls) (vec : list (option Z)).      (* k <> CImp *)
Record file := mkFile { f_mode : list particle; f_cells : list fcell; f_data : list fditem }.

Definition disjointb (a b : list particle) : bool := negb (existsb (fun q => mem q b) a).

(* Cell._parse_keyword_modifiers for IMP: the first parameter replaces the blank instance, later ones merge *)
Fixpoint parse_imp (ps : list (list particle * Z)) (acc : list igroup) : res (list igroup) :=
  match ps with
  | [] => Ok acc
  | (qs, v) :: r =>
      if disjointb qs (ikeys acc) then parse_imp r (acc ++ [(qs, mkT v qs qs)])
      else Err EMalformed                      (* Cannot have two importance inputs for the same particle type *)
  end.

Definition parse_cell (fc : fcell) : res cell :=
  match (match fc_imp fc with [] => Ok blank_imp | ps => parse_imp ps [] end) with
  | Err e => Err e
  | Ok g =>
      Ok (mkC (fc_num fc) g (match fc_imp fc with [] => false | _ => true end)
              (match fc_vol fc with Some z => VSet z | None => VNone end) (match fc_vol fc with Some _ => true | None => false end)
              (fc_u fc) (match fc_u fc with Some _ => true | None => false end)
              (fc_lat fc) (match fc_lat fc with Some _ => true | None => false end)
              (fc_fill fc) (fc_fill_tr fc) (match fc_fill fc with Some _ => true | None => false end))
  end.

Definition item_cls (d : fditem) : option cls :=
  match d with FOther => None | FImp _ _ => Some CImp | FVec k _ => Some k end.

(* Cells.update_pointers, first loop: which data inputs stay in data_inputs, repeated cards *)
Fixpoint load_slots (d : list fditem) (seen : list cls) (imp_parts : list particle) : res (list dslot) :=
  match d with
  | [] => Ok []
  | FOther :: r => match load_slots r seen imp_parts with Err e => Err e | Ok l => Ok (SOther :: l) end
  | FImp ps _ :: r =>
      if existsb (cls_eqb CImp) seen then
        (* merge into the first IMP input; the merged input leaves data_inputs *)
        if disjointb ps imp_parts then load_slots r seen (imp_parts ++ ps) else Err EMalformed
      else match load_slots r (CImp :: seen) (imp_parts ++ ps) with
           | Err e => Err e | Ok l => Ok (SMod CImp :: l) end
  | FVec k _ :: r =>
      if existsb (cls_eqb k) seen then Err EMalformed      (* only allowed once in a problem *)
      else match load_slots r (k :: seen) imp_parts with
           | Err e => Err e | Ok l => Ok (SMod k :: l) end
  end.

Definition has_card (d : list fditem) (k : cls) : bool :=
  existsb (fun x => match item_cls x with Some k' => cls_eqb k k' | None => false end) d.

(* _check_redundant_definitions *)
Definition redundant (cells : list cell) (k : cls) : bool := existsb (fun c => set_of c k) cells.

(* Importance.push_to_cells for one card: particle q, the card's classifier ps, vector vec *)
Fixpoint push_imp_vec (ps : list particle) (q : particle) (vec : list Z) (cells : list cell) : res (list cell) :=
  match cells with
  | [] => Ok []
  | c :: r =>
      match vec with
      | [] => Err EIndex
      | v :: vr =>
          match push_imp_vec ps q vr r with
          | Err e => Err e
          | Ok r' =>
              let g := iset true [] q v (c_imp c) in           (* a new tree's classifier is replaced next *)
              Ok (set_imp c (iupd q (fun t => mkT (t_val t) ps ps) g) :: r')
          end
      end
  end.

Fixpoint push_imp_card (mode ps qs : list particle) (vec : list Z) (cells : list cell) : res (list cell) :=
  match qs with
  | [] => Ok cells
  | q :: r =>
      match cells, vec with
      | [], _ => push_imp_card mode ps r vec cells
      | _, [] => Err EIndex
      | _, _ => if negb (mem q mode) then Err EPartNotInProblem
                else match push_imp_vec ps q vec cells with
                     | Err e => Err e
                     | Ok cells' => push_imp_card mode ps r vec cells'
                     end
      end
  end.

Fixpoint push_imp (mode : list particle) (d : list fditem) (cells : list cell) : res (list cell) :=
  match d with
  | [] => Ok cells
  | FImp ps vec :: r =>
      match push_imp_card mode ps ps vec cells with
      | Err e => Err e
      | Ok cells' => push_imp mode r cells'
      end
  | _ :: r => push_imp mode r cells
  end.

(* VOL / LAT / FILL / U push for one vector: entry i goes to cell i; a jump (None) is pushed as well *)
Fixpoint push_vec (setter : cell -> option Z -> cell) (vec : list (option Z)) (cells : list cell) : list cell :=
  match cells, vec with
  | c :: r, v :: vr => setter c v :: push_vec setter vr r
  | _, _ => cells
  end.

Fixpoint find_vec (d : list fditem) (k : cls) : option (list (option Z)) :=
  match d with
  | [] => None
  | FVec k' v :: r => if cls_eqb k k' then Some v else find_vec r k
  | _ :: r => find_vec r k
  end.

Definition push_cls (mode : list particle) (d : list fditem) (k : cls) (cells : list cell) : res (list cell) :=
  match k with
  | CImp =>
      if has_card d CImp then
        if redundant cells CImp then Err EMalformed else push_imp mode d cells
      else Ok cells
  | CVol =>
      match find_vec d CVol with
      | Some ((_ :: _) as vec) =>
          if redundant cells CVol then Err EMalformed
          else Ok (push_vec (fun c v => set_vol c (match v with Some z => VSet z | None => VNone end)) vec cells)
      | _ => Ok cells
      end
  | CU =>
      match (match find_vec d CU with
             | Some ((_ :: _) as vec) =>
                 if redundant cells CU then Err EMalformed
                 else if Nat.ltb (List.length cells) (List.length vec) then Err EReadCrash
                 else Ok (push_vec (fun c v => set_u c v) vec cells)
             | _ => Ok cells
             end) with
      | Err e => Err e
      | Ok cells' =>
          (* always: every cell gets a Universe object, number 0 when none was given *)
          Ok (map (fun c => set_u c (Some (match c_u c with Some u => u | None => 0%Z end))) cells')
      end
  | CLat =>
      match find_vec d CLat with
      | Some ((_ :: _) as vec) =>
          if redundant cells CLat then Err EMalformed
          else if Nat.ltb (List.length cells) (List.length vec) then Err EReadCrash
          else Ok (push_vec set_lat vec cells)
      | _ => Ok cells
      end
  | CFill =>
      (* Fill.push_to_cells: no redundancy check; the data block overrides the cell block *)
      match find_vec d CFill with
      | Some ((_ :: _) as vec) => Ok (push_vec set_fill vec cells)
      | _ => Ok cells
      end
  end.

Fixpoint push_all (mode : list particle) (d : list fditem) (ks : list cls) (cells : list cell) : res (list cell) :=
  match ks with
  | [] => Ok cells
  | k :: r => match push_cls mode d k cells with
              | Err e => Err e
              | Ok cells' => push_all mode d r cells'
              end
  end.

(* print_in_data_block after reading: a data card sets True (last), a cell parameter False, default True *)
Definition read_flag (d : list fditem) (cells : list cell) (k : cls) : bool :=
  if has_card d k then true else negb (redundant cells k).

Definition read (f : file) : res state :=
  match map_res parse_cell (f_cells f) with
  | Err e => Err e
  | Ok cells =>
      match load_slots (f_data f) [] [] with
      | Err e => Err e
      | Ok slots =>
          match push_all (f_mode f) (f_data f) all_cls cells with
          | Err e => Err e
          | Ok cells' =>
              Ok (mkS (f_mode f) cells' None
                      (mkF (read_flag (f_data f) cells CImp) (read_flag (f_data f) cells CVol)
                           (read_flag (f_data f) cells CU) (read_flag (f_data f) cells CLat)
                           (read_flag (f_data f) cells CFill))
                      slots)
          end
      end
  end.

(* ------------------------------------------------------------------ side conditions (decidable)
   Each is the exact condition under which one defect of the current code cannot show (Properties/C09.v:
   the _partial theorems assume them, the _refuted theorems violate them). *)
Definition subset (a b : list particle) : bool := forallb (fun q => mem q b) a.
Fixpoint nodup_p (l : list particle) : bool :=
  match l with [] => true | x :: r => andb (negb (mem x r)) (nodup_p r) end.
(* the classifiers of the trees partition the keys: a tree's classifier names the particles that share the tree,
   only particles that have an importance here, and every particle it names has a tree with the same classifier
   (true of trees parsed from a cell card, of trees pushed from a data-block card, and of any of them after a
   value was set or a particle was split off; it can only be lost by `del cell.importance.<particle>` on a
   particle that shares a tree) *)
Definition parts_of (q : particle) (g : list igroup) : list particle :=
  match ifind q g with Some t => t_parts t | None => [] end.
Definition seteq (a b : list particle) : bool := andb (subset a b) (subset b a).
Definition group_ok (g : list igroup) (gr : igroup) : bool :=
  andb (andb (subset (fst gr) (t_parts (snd gr))) (subset (t_parts (snd gr)) (t_order (snd gr))))
       (forallb (fun o => andb (mem o (ikeys g)) (seteq (parts_of o g) (t_parts (snd gr)))) (t_parts (snd gr))).
Definition imp_parts_ok (g : list igroup) : bool := andb (nodup_p (ikeys g)) (forallb (group_ok g) g).
(* a tree that holds the importance of a MODE particle names MODE particles only (else self[other] raises
   ParticleTypeNotInProblem while the card is formatted: 'imp:n,p=1' in a 'mode p' problem) *)
Definition imp_keys_ok (mode : list particle) (g : list igroup) : bool :=
  forallb (fun gr : igroup => orb (negb (existsb (fun q => mem q mode) (fst gr))) (subset (t_parts (snd gr)) mode)) g.
Definition imp_cell_ok (s : state) : bool :=
  orb (f_imp (s_flags s))
      (forallb (fun c => andb (imp_parts_ok (c_imp c)) (imp_keys_ok (s_mode s) (c_imp c))) (s_cells s)).
(* every MODE particle has an importance in every cell (else ParticleTypeNotInCell: a controlled refusal) *)
Definition imp_data_ok (s : state) : bool :=
  orb (negb (f_imp (s_flags s)))
      (forallb (fun c => subset (s_mode s) (ikeys (c_imp c))) (s_cells s)).
(* FILL with a transform cannot go to the data block (ValueError: a documented refusal) *)
Definition fill_ok (s : state) : bool :=
  orb (negb (andb (f_fill (s_flags s)) (worth (s_cells s) CFill)))
      (forallb (fun c => negb (c_fill_tr c)) (s_cells s)).
Definition clean (s : state) : bool := andb (imp_cell_ok s) (andb (imp_data_ok s) (fill_ok s)).

(* the structural invariant of histories (Proofs/PlaceProofs.v: run_ops_sstruct): the partition condition, trees
   that several particles share name exactly them, MODE trees name MODE particles — for the cells of the problem
   and for the cell that is being built.  [run_Place] reports it for the state right after [read] ("S"). *)
Definition group_kind_ok (gr : igroup) : bool :=
  match fst gr with
  | [] => false
  | [_] => true
  | _ => subset (t_parts (snd gr)) (fst gr)
  end.
Definition struct_ok (mode : list particle) (c : cell) : bool :=
  andb (imp_parts_ok (c_imp c)) (andb (forallb group_kind_ok (c_imp c)) (imp_keys_ok mode (c_imp c))).
Definition sstruct (s : state) : bool :=
  andb (forallb (struct_ok (s_mode s)) (s_cells s))
       (match s_scratch s with Some (c, _) => struct_ok (s_mode s) c | None => true end).

(* ------------------------------------------------------------------ wire *)
Open Scope string_scope.
Definition sep (c : string) (l : list string) : string := match l with [] => "-" | _ => join c l end.

Definition show_err (e : err) : string :=
  match e with
  | EMalformed => "MalformedInputError" | EIndex => "IndexError" | EReadCrash => "AttributeError"
  | EPartNotInProblem => "ParticleTypeNotInProblem" | EPartNotInCell => "ParticleTypeNotInCell"
  | EListRemove => "ValueError"
  | EFillComplex => "ValueError" | ENumberConflict => "NumberConflictError" | EKey => "KeyError"
  | ENoTarget => "KeyError"
  end.

Definition show_cls (k : cls) : string :=
  match k with CImp => "i" | CVol => "v" | CU => "u" | CLat => "l" | CFill => "f" end.
Definition parse_cls (s : string) : option cls :=
  if String.eqb s "i" then Some CImp else if String.eqb s "v" then Some CVol
  else if String.eqb s "u" then Some CU else if String.eqb s "l" then Some CLat
  else if String.eqb s "f" then Some CFill else None.

Definition show_oz (o : option Z) : string := match o with Some z => show_Z z | None => "-" end.
Definition parse_oz (s : string) : option (option Z) :=
  if String.eqb s "-" then Some None else option_map Some (parse_Z s).
Definition show_jz (o : option Z) : string := match o with Some z => show_Z z | None => "j" end.
Definition parse_jz (s : string) : option (option Z) :=
  if String.eqb s "j" then Some None else option_map Some (parse_Z s).
Definition show_parts (l : list particle) : string := sep "." (map show_nat l).
Definition parse_parts (s : string) : option (list particle) :=
  if String.eqb s "-" then Some [] else map_opt parse_nat (split_on "."%char s).

Definition parse_bool (s : string) : option bool :=
  if String.eqb s "1" then Some true else if String.eqb s "0" then Some false else None.

(* cell: num;imp;vol;u;lat;fill;tr    imp: ps:val|ps:val *)
Definition parse_imp_param (s : string) : option (list particle * Z) :=
  match split_on ":"%char s with
  | [ps; v] => match parse_parts ps, parse_Z v with Some a, Some b => Some (a, b) | _, _ => None end
  | _ => None
  end.
Definition parse_fcell (s : string) : option fcell :=
  match split_on ";"%char s with
  | [n; imp; vol; u; lat; fill; tr] =>
      match parse_Z n,
            (if String.eqb imp "-" then Some [] else map_opt parse_imp_param (split_on "|"%char imp)),
            parse_oz vol, parse_oz u, parse_oz lat, parse_oz fill, parse_bool tr with
      | Some n, Some imp, Some vol, Some u, Some lat, Some fill, Some tr => Some (mkFC n imp vol u lat fill tr)
      | _, _, _, _, _, _, _ => None
      end
  | _ => None
  end.

Definition parse_vec {A} (f : string -> option A) (s : string) : option (list A) :=
  if String.eqb s "-" then Some [] else map_opt f (split_on ","%char s).

Definition parse_fditem (s : string) : option fditem :=
  match split_on ":"%char s with
  | ["o"] => Some FOther
  | ["i"; ps; vec] =>
      match parse_parts ps, parse_vec parse_Z vec with Some a, Some b => Some (FImp a b) | _, _ => None end
  | [k; vec] =>
      match parse_cls k, parse_vec parse_jz vec with
      | Some CImp, _ => None
      | Some k, Some v => Some (FVec k v)
      | _, _ => None
      end
  | _ => None
  end.

Definition parse_slash {A} (f : string -> option A) (s : string) : option (list A) :=
  if String.eqb s "-" then Some [] else map_opt f (split_on "/"%char s).

Definition parse_target (s : string) : option target :=
  if String.eqb s "s" then Some TScratch else option_map TCell (parse_Z s).

Definition parse_op (s : string) : option op :=
  match s with
  | EmptyString => None
  | String c rest =>
      let args := split_on ","%char rest in
      match c, args with
      | "F"%char, [a] =>
          match a with
          | String k (String b EmptyString) =>
              match parse_cls (String k EmptyString), parse_bool (String b EmptyString) with
              | Some k, Some b => Some (OFlip k b) | _, _ => None end
          | _ => None
          end
      | "N"%char, [n] => option_map ONew (parse_Z n)
      | "C"%char, [a; b] => match parse_Z a, parse_Z b with Some a, Some b => Some (OCopy a b) | _, _ => None end
      | "A"%char, _ => Some OAppend
      | "R"%char, [n] => option_map ORemove (parse_Z n)
      | "O"%char, ns => option_map OReorder (map_opt parse_Z ns)
      | "I"%char, [t; q; v] =>
          match parse_target t, parse_nat q, parse_Z v with
          | Some t, Some q, Some v => Some (OSetImp t q v) | _, _, _ => None end
      | "X"%char, [t; q] =>
          match parse_target t, parse_nat q with Some t, Some q => Some (ODelImp t q) | _, _ => None end
      | "S"%char, [t; v] =>
          match parse_target t, parse_Z v with Some t, Some v => Some (OSetAll t v) | _, _ => None end
      | "V"%char, [t; v] =>
          match parse_target t, parse_Z v with Some t, Some v => Some (OSetVol t v) | _, _ => None end
      | "W"%char, [t] => option_map ODelVol (parse_target t)
      | "U"%char, [t; u] =>
          match parse_target t, parse_Z u with Some t, Some u => Some (OSetU t u) | _, _ => None end
      | "L"%char, [t; v] =>
          match parse_target t, parse_oz v with Some t, Some v => Some (OSetLat t v) | _, _ => None end
      | "G"%char, [t; v] =>
          match parse_target t, parse_oz v with Some t, Some v => Some (OSetFill t v) | _, _ => None end
      | _, _ => None
      end
  end.

Definition show_api (a : apicell) : string :=
  show_Z (a_num a) ++ ";" ++ sep "." (map (fun x => show_nat (fst x) ++ ":" ++ show_Z (snd x)) (a_imp a))
  ++ ";" ++ show_oz (a_vol a) ++ ";" ++ show_oz (a_u a) ++ ";" ++ show_oz (a_lat a) ++ ";" ++ show_oz (a_fill a).

Definition show_wval (v : wval) : string := match v with WV z => show_Z z end.
Definition show_entry (e : entry) : string :=
  match e with
  | EImp ps v => "i:" ++ show_parts ps ++ ":" ++ show_Z v
  | EOne k v => show_cls k ++ ":" ++ show_wval v
  end.
Definition show_card (c : Z * list entry) : string :=
  show_Z (fst c) ++ ";" ++ sep "|" (map show_entry (snd c)).
Definition show_dcard (c : dcard) : string :=
  (match fst c with Some q => show_nat q | None => "-" end) ++ ":" ++ sep "," (map show_jz (snd c)).
Definition show_ditem (d : ditem) : string :=
  match d with
  | DOther => "o"
  | DMod k cards => "M" ++ show_cls k ++ "=" ++ sep "|" (map show_dcard cards)
  end.
Definition show_wout (w : wout) : string :=
  sep "/" (map show_card (w_cards w)) ++ "#" ++ sep "/" (map show_ditem (w_data w)).

Definition show_event (e : event) : string :=
  match e with
  | EvCell n es => "c" | EvSurfaces => "s" | EvBlank => "b"
  | EvData DOther => "o" | EvData (DMod k _) => "M" ++ show_cls k
  end.

(* request:  <mode> <cells> <data> <ops>      response: <op results> <api view> <written> <events>
   a file that cannot be read answers "R<exception>" *)
Definition run_Place (req : string) : string :=
  match words req with
  | [m; cs; ds; os] =>
      match parse_vec parse_nat m, parse_slash parse_fcell cs, parse_slash parse_fditem ds, parse_slash parse_op os with
      | Some mode, Some cells, Some data, Some ops =>
          match read (mkFile mode cells data) with
          | Err e => "R" ++ show_err e
          | Ok s0 =>
              let (s, log) := run_log s0 ops in
              sep "," (map (fun x => match x with None => "k" | Some e => "e" ++ show_err e end) log)
              ++ " " ++ sep "/" (map show_api (per_cell s))
              ++ " " ++ show_cls CImp ++ (if f_imp (s_flags s) then "1" else "0")
                     ++ show_cls CVol ++ (if f_vol (s_flags s) then "1" else "0")
                     ++ show_cls CU ++ (if f_u (s_flags s) then "1" else "0")
                     ++ show_cls CLat ++ (if f_lat (s_flags s) then "1" else "0")
                     ++ show_cls CFill ++ (if f_fill (s_flags s) then "1" else "0")
              ++ " " ++ (match write s with Err e => "E" ++ show_err e | Ok w => show_wout w end)
              ++ " " ++ (match write_events s with Err e => "E" | Ok ev => String.concat "" (map show_event ev) end)
              ++ " " ++ (let d :=
                   (if f_imp (s_flags s) then "" else
                      (if forallb (fun c => imp_parts_ok (c_imp c)) (s_cells s) then "" else "P")
                      ++ (if forallb (fun c => imp_keys_ok (s_mode s) (c_imp c)) (s_cells s) then "" else "M"))
                   ++ (if imp_data_ok s then "" else "C") ++ (if fill_ok s then "" else "F")
                   ++ (if sstruct s0 then "" else "S") in
                 if String.eqb d "" then "-" else d)
          end
      | _, _, _, _ => "parse:err"
      end
  | _ => "parse:fields"
  end.
