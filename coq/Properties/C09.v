(* C09 — per-cell data (IMP per particle, VOL, U, LAT, FILL) mean the same in either block and are written
   exactly once.  Headline theorems only; the proofs are in Proofs/PlaceProofs.v, the model of MontePy's
   CellDataPrintController / CellModifierInput and subclasses / Cells / Cell / write_to_file in Model/Place.v.

   Quantifiers.  [s : state] is any problem state: any number of cells, any per-cell data, any of the 32 values of
   print_in_data_block (s_flags s : five booleans, universally quantified — no sampling), any data block.
   [ops : list op] is any history of flips, new / copied / appended / removed / reordered cells and per-cell edits.
   [wf] is the invariant of every state reached from a read file (C09_read_wf, C09_history_invariant).
   [clean] is the decidable side condition that excludes exactly the defects of the current code (each has a
   _refuted theorem with a computed witness, replayed on the real MontePy by the harness) and the two documented
   refusals (ParticleTypeNotInCell, "Fill can not be in the data block").  [sclean] is its flag-independent form. *)
From Coq Require Import List String ZArith Bool.
From MPV Require Import Model.Wire Model.Place Proofs.PlaceProofs.
From MPV Require Model.Write Gen.Writer.
Import ListNotations.
Open Scope Z_scope.

(* ---------------------------------------------------------------- obligation on the generated writer steps *)
(* harness/translate_writer.py regenerates Gen/Writer.v from MCNP_Problem.write_to_file on every run; the order
   of cell cards / terminators / data inputs / cards made from the cells that Model/Place.v assumes must be the
   order of the source.  Writing the data block's terminator before the child cards again (defect D9, repaired in
   fc62622) makes this fail to compile: the two lists differ at the computed position. *)
Theorem C09_gen_writer_steps : steps_of_writer Writer.write_steps = write_steps.
Proof. vm_compute. reflexivity. Qed.
Print Assumptions C09_gen_writer_steps.

(* ---------------------------------------------------------------- 1. exactly once, right block, API value *)
(* [exactly_once s]: the problem is written and, for every cell i and each of VOL U LAT FILL and each particle,
   the datum is on the cell card xor in the i-th place of the data-block vector, as the flag says, equal to the
   API value; a default is not written at all; nothing is written for a particle outside MODE. *)
Theorem C09_exactly_once_partial : forall s, wf s -> clean s = true -> exactly_once s.
Proof. exact exactly_once_clean. Qed.
Print Assumptions C09_exactly_once_partial.

(* all 32 placements of one problem, by quantification over [f] *)
Theorem C09_every_placement : forall s f, wf s -> sclean s = true -> exactly_once (with_flags s f).
Proof. exact every_placement. Qed.
Print Assumptions C09_every_placement.

Definition st (f : file) (ops : list op) : state :=
  match read f with Ok s => run_ops s ops | Err _ => mkS [] [] None (mkF true true true true true) [] end.
Definition n : particle := 0%nat.
Definition p : particle := 1%nat.

(* the full-strength statement is false of the current code; witnesses (each is a finding or a proposed repair):
   (a) LAT given in the data block, then print_in_data_block["lat"] = False: the cell card says LAT=None *)
Definition f_lat : file :=
  mkFile [n] [mkFC 1 [([n], 1)] None None None (Some 5) false; mkFC 2 [([n], 1)] None (Some 5) None None false]
         [FOther; FVec CLat [None; Some 1]].
Definition s_lat : state := Eval vm_compute in st f_lat [OFlip CLat false].
Theorem C09_exactly_once_refuted_lattice : exists s, wf s /\ ~ exactly_once s.
Proof.
  exists s_lat. split.
  - split; vm_compute; repeat constructor; simpl; intuition discriminate.
  - intros [w [Hw H]]. vm_compute in Hw. injection Hw as <-.
    destruct (H 1%nat _ eq_refl) as [es [He [Ho _]]]. vm_compute in He. injection He as <-.
    destruct (Ho CLat ltac:(discriminate)) as [A _]. vm_compute in A. discriminate.
Qed.
Print Assumptions C09_exactly_once_refuted_lattice.

(* (b) a new cell appended to a MODE n p problem, importances set afterwards: neutron is written twice *)
Definition f_np : file := mkFile [n; p] [mkFC 1 [([n; p], 1)] None None None None false] [FOther].
Definition s_newimp : state :=
  Eval vm_compute in st f_np [ONew 9; OAppend; OSetImp (TCell 9) n 1; OSetImp (TCell 9) p 1; OFlip CImp false].
Theorem C09_exactly_once_refuted_new_importance : exists s, wf s /\ ~ exactly_once s.
Proof.
  exists s_newimp. split.
  - split; vm_compute; repeat constructor; simpl; intuition discriminate.
  - intros [w [Hw H]]. vm_compute in Hw. injection Hw as <-.
    destruct (H 1%nat _ eq_refl) as [es [He [_ Hi]]]. vm_compute in He. injection He as <-.
    specialize (Hi n). vm_compute in Hi. destruct Hi as [_ [A|[A _]]]; discriminate.
Qed.
Print Assumptions C09_exactly_once_refuted_new_importance.

(* (b') the same with two different values: write_to_file raises ValueError (list.remove(x): x not in list) *)
Definition s_newimp2 : state :=
  Eval vm_compute in st f_np [ONew 9; OAppend; OSetImp (TCell 9) n 1; OSetImp (TCell 9) p 2; OFlip CImp false].
Theorem C09_exactly_once_refuted_new_importance_crash :
  exists s, wf s /\ write s = Err EListRemove /\ ~ exactly_once s.
Proof.
  exists s_newimp2. split; [|split].
  - split; vm_compute; repeat constructor; simpl; intuition discriminate.
  - vm_compute. reflexivity.
  - intros [w [Hw _]]. vm_compute in Hw. discriminate.
Qed.
Print Assumptions C09_exactly_once_refuted_new_importance_crash.

(* (c) MODE p, IMP:p in the data block, then print_in_data_block["imp"] = False: every cell card gets IMP:n=0.0,
       an importance for a particle the problem does not have *)
Definition f_modep : file :=
  mkFile [p] [mkFC 1 [] None None None None false; mkFC 2 [] None None None None false] [FImp [p] [1; 0]].
Definition s_modep : state := Eval vm_compute in st f_modep [OFlip CImp false].
Theorem C09_exactly_once_refuted_mode : exists s, wf s /\ ~ exactly_once s.
Proof.
  exists s_modep. split.
  - split; vm_compute; repeat constructor; simpl; intuition discriminate.
  - intros [w [Hw H]]. vm_compute in Hw. injection Hw as <-.
    destruct (H 0%nat _ eq_refl) as [es [He [_ Hi]]]. vm_compute in He. injection He as <-.
    specialize (Hi n). vm_compute in Hi. destruct Hi as [A _]. discriminate.
Qed.
Print Assumptions C09_exactly_once_refuted_mode.

(* (d) a cell made by Cell() appended while U is printed in the data block: AttributeError *)
Definition f_u : file :=
  mkFile [n] [mkFC 1 [([n], 1)] None None None (Some 5) false; mkFC 2 [([n], 1)] None (Some 5) None None false] [FOther].
Definition s_u : state := Eval vm_compute in st f_u [ONew 9; OSetImp TScratch n 1; OAppend; OFlip CU true].
Theorem C09_exactly_once_refuted_universe : exists s, wf s /\ write s = Err ENoneUniverse /\ ~ exactly_once s.
Proof.
  exists s_u. split; [|split].
  - split; vm_compute; repeat constructor; simpl; intuition discriminate.
  - vm_compute. reflexivity.
  - intros [w [Hw _]]. vm_compute in Hw. discriminate.
Qed.
Print Assumptions C09_exactly_once_refuted_universe.

(* (e) del cell.volume while VOL is printed in the data block: AttributeError *)
Definition f_vol : file :=
  mkFile [n] [mkFC 1 [([n], 1)] (Some 7) None None None false; mkFC 2 [([n], 1)] None None None None false] [FOther].
Definition s_vol : state := Eval vm_compute in st f_vol [ODelVol (TCell 2); OFlip CVol true].
Theorem C09_exactly_once_refuted_volume : exists s, wf s /\ write s = Err ENoneVolume /\ ~ exactly_once s.
Proof.
  exists s_vol. split; [|split].
  - split; vm_compute; repeat constructor; simpl; intuition discriminate.
  - vm_compute. reflexivity.
  - intros [w [Hw _]]. vm_compute in Hw. discriminate.
Qed.
Print Assumptions C09_exactly_once_refuted_volume.

(* each witness violates the side condition, and only in the named conjunct *)
Example C09_witnesses_are_outside_clean :
  (lat_ok s_lat, imp_cell_ok s_newimp, imp_cell_ok s_newimp2, imp_cell_ok s_modep, u_ok s_u, vol_ok s_vol)
  = (false, false, false, false, false, false).
Proof. vm_compute. reflexivity. Qed.

(* ---------------------------------------------------------------- 2. alignment (no side condition) *)
(* whenever the problem is written: the data block has one card of class k iff the flag is set and some cell has
   information; its vector has one entry per cell, in cell order, entry i = the API value of cell i (None = jump);
   IMP: one vector per MODE particle.  (Trailing jumps are not trimmed by the model; the text of the card —
   shortcut compression — is C08's; the harness compares modulo omitted trailing defaults.) *)
Theorem C09_aligned : forall s w k, wf s -> write s = Ok w ->
  mods_of k (w_data w) =
    if andb (flag (s_flags s) k) (worth (s_cells s) k)
    then [match k with
          | CImp => map (fun q => (Some q, imp_vector q (s_cells s))) (s_mode s)
          | _ => [(None, map (api_value k) (s_cells s))]
          end]
    else [].
Proof. exact aligned_strong. Qed.
Print Assumptions C09_aligned.

Theorem C09_written : forall s, clean s = true -> exists w, write s = Ok w.
Proof. exact write_ok. Qed.
Print Assumptions C09_written.

(* ---------------------------------------------------------------- 3. inside the data block (no side condition) *)
(* with the step order of the source: the written file is cell cards, blank, surfaces, blank, data inputs followed
   by the cards made from the cells, blank, blank — every data-block card of the five classes is in the third
   block and only blank lines follow it *)
Theorem C09_inside_data_block : forall s ev,
  write_events_with (steps_of_writer Writer.write_steps) s = Ok ev ->
  exists w, write s = Ok w /\
    blocks ev = [map (fun c => EvCell (fst c) (snd c)) (w_cards w); [EvSurfaces]; map EvData (w_data w); []; []].
Proof. rewrite C09_gen_writer_steps. exact inside_data_block. Qed.
Print Assumptions C09_inside_data_block.

(* ---------------------------------------------------------------- 4. histories *)
Theorem C09_read_wf : forall f s, NoDup (f_mode f) -> read f = Ok s -> wf s.
Proof. exact read_wf. Qed.
Print Assumptions C09_read_wf.

Theorem C09_history_invariant : forall ops s, wf s -> wf (run_ops s ops).
Proof. exact run_ops_wf. Qed.
Print Assumptions C09_history_invariant.

(* after ANY history (induction over the operation list): if the final state is clean, everything above holds *)
Theorem C09_histories_partial : forall s ops, wf s -> clean (run_ops s ops) = true -> exactly_once (run_ops s ops).
Proof. exact any_history. Qed.
Print Assumptions C09_histories_partial.

(* histories of flag flips, cell removals and reorderings (through the cells setter) never leave [sclean] *)
Theorem C09_placement_histories : forall s ops, wf s -> sclean s = true -> forallb placement_op ops = true ->
  exactly_once (run_ops s ops).
Proof. exact placement_history. Qed.
Print Assumptions C09_placement_histories.

(* ---------------------------------------------------------------- non-vacuity *)
(* a problem with all five classes, three cells, MODE n p, some data in each block *)
Definition f_ex : file :=
  mkFile [n; p]
         [mkFC 1 [] None None None (Some 7) false;
          mkFC 2 [] None (Some 7) (Some 1) (Some 8) false;
          mkFC 5 [] None (Some 8) None None false]
         [FOther; FImp [n; p] [1; 1; 0]; FVec CVol [Some 3; None; Some 4]; FOther].
Definition s_ex : state := Eval vm_compute in st f_ex [].

Example C09_ex_wf_clean : wf s_ex /\ sclean s_ex = true /\ clean s_ex = true.
Proof. split; [split; vm_compute; repeat constructor; simpl; intuition discriminate|split; vm_compute; reflexivity]. Qed.

(* what is written with IMP in the cell block and VOL U in the data block, FILL LAT in the cell block *)
Example C09_ex_written :
  write (with_flags s_ex (mkF false true true false false)) =
  Ok (mkW [(1, [EImp [n; p] 1; EOne CFill (WV 7)]);
           (2, [EImp [n; p] 1; EOne CLat (WV 1); EOne CFill (WV 8)]);
           (5, [EImp [n; p] 0])]
          [DOther; DMod CVol [(None, [Some 3; None; Some 4])]; DOther; DMod CU [(None, [None; Some 7; Some 8])]]).
Proof. vm_compute. reflexivity. Qed.

(* a history that the placement theorem covers: flips, a removal, a reordering *)
Example C09_ex_history :
  forallb placement_op [OFlip CImp false; OFlip CU true; ORemove 2; OReorder [5; 1]; OFlip CVol false] = true /\
  map c_num (s_cells (run_ops s_ex [OFlip CImp false; OFlip CU true; ORemove 2; OReorder [5; 1]; OFlip CVol false])) = [5; 1].
Proof. split; vm_compute; reflexivity. Qed.

(* a history with a new cell that ends clean: the importances are set before the cell is appended, and U too *)
Example C09_ex_new_cell :
  clean (run_ops s_ex [ONew 9; OSetImp TScratch n 2; OSetImp TScratch p 2; OSetU TScratch 0; OAppend]) = true.
Proof. vm_compute. reflexivity. Qed.

(* the two documented refusals (no file is produced; side conditions imp_data_ok / fill_ok) *)
Example C09_refusal_particle_not_in_cell :
  write (run_ops s_ex [ONew 9; OSetU TScratch 0; OAppend]) = Err EPartNotInCell.
Proof. vm_compute. reflexivity. Qed.
