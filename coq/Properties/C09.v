(* C09 — per-cell data (IMP per particle, VOL, U, LAT, FILL) mean the same in either block and are written
   exactly once.  Headline theorems only; the proofs are in Proofs/PlaceProofs.v, the model of MontePy's
   CellDataPrintController / CellModifierInput and subclasses / Cells / Cell / write_to_file in Model/Place.v.

   Quantifiers.  [s : state] is any problem state: any number of cells, any per-cell data, any of the 32 values of
   print_in_data_block (s_flags s : five booleans, universally quantified — no sampling), any data block.
   [ops : list op] is any history of flips, new / copied / appended / removed / reordered cells and per-cell edits.
   [wf] is the invariant of every state reached from a read file (C09_read_wf, C09_history_invariant).
   [clean] is a decidable side condition: the partition condition on the importance trees of the cells (needed
   only when IMP is printed in the cell block) and the two documented refusals (ParticleTypeNotInCell, "Fill can
   not be in the data block").  [sclean] is its flag-independent form. *)
From Coq Require Import List String ZArith Bool.
From MPV Require Import Model.Wire Model.Place Proofs.PlaceProofs.
From MPV Require Model.Write Gen.Writer.
Import ListNotations.
Open Scope Z_scope.

(* ---------------------------------------------------------------- obligation on the generated writer steps *)
(* harness/translate_writer.py regenerates Gen/Writer.v from MCNP_Problem.write_to_file on every run; the order
   of cell cards / terminators / data inputs / cards made from the cells that Model/Place.v assumes must be the
   order of the source.  Writing the data block's terminator before the child cards again (defect D9, repaired in
   fc62622) makes this fail to compile: the two lists differ at the computed position. *)
Theorem C09_gen_writer_steps : steps_of_writer Writer.write_steps = write_steps.
Proof. vm_compute. reflexivity. Qed.
Print Assumptions C09_gen_writer_steps.

(* ---------------------------------------------------------------- 1. exactly once, right block, API value *)
(* [exactly_once s]: the problem is written and, for every cell i and each of VOL U LAT FILL and each particle,
   the datum is on the cell card xor in the i-th place of the data-block vector, as the flag says, equal to the
   API value; a default is not written at all; nothing is written for a particle outside MODE. *)
Theorem C09_exactly_once_partial : forall s, wf s -> clean s = true -> exactly_once s.
Proof. exact exactly_once_clean. Qed.
Print Assumptions C09_exactly_once_partial.

(* all 32 placements of one problem, by quantification over [f] *)
Theorem C09_every_placement : forall s f, wf s -> sclean s = true -> exactly_once (with_flags s f).
Proof. exact every_placement. Qed.
Print Assumptions C09_every_placement.

Definition st (f : file) (ops : list op) : state :=
  match read f with Ok s => run_ops s ops | Err _ => mkS [] [] None (mkF true true true true true) [] end.
Definition n : particle := 0%nat.
Definition p : particle := 1%nat.

(* Five defects that made the statement false without further side conditions were repaired in /repo after this
   check found them (their witnesses are now Examples of the repaired behaviour, and corpus/C09/fixed-*.json
   replays them on the real code):
     929de16 LAT=None on the cell card      0e28d06 a new importance tree labelled with all of MODE
     cba7f60 IMP:n=0.0 in a 'mode p' problem   e7a2fbb Cell() without universe, U in the data block
     277027d del cell.volume, VOL in the data block
   What is left in [clean]: the partition condition on importance trees (true of every tree MontePy builds by
   parsing, pushing, setting and splitting; `del cell.importance.<particle>` on a particle that shares a tree can
   leave a stale classifier entry, which the real code and the model still write correctly, but which the proof
   does not cover), trees of MODE particles naming MODE particles only (an input with 'imp:n,p=1' and 'mode p'
   makes MontePy raise ParticleTypeNotInProblem), and the two documented refusals. *)

(* (a) LAT given in the data block, then print_in_data_block["lat"] = False: the cell card says LAT=1 *)
Definition f_lat : file :=
  mkFile [n] [mkFC 1 [([n], 1)] None None None (Some 5) false; mkFC 2 [([n], 1)] None (Some 5) None None false]
         [FOther; FVec CLat [None; Some 1]].
Definition s_lat : state := Eval vm_compute in st f_lat [OFlip CLat false].
Example C09_repaired_lattice :
  clean s_lat = true /\
  write s_lat = Ok (mkW [(1, [EImp [n] 1; EOne CFill (WV 5)]); (2, [EImp [n] 1; EOne CU (WV 5); EOne CLat (WV 1)])] [DOther]).
Proof. split; vm_compute; reflexivity. Qed.

(* (b) a new cell appended to a MODE n p problem, importances set afterwards: one entry per particle *)
Definition f_np : file := mkFile [n; p] [mkFC 1 [([n; p], 1)] None None None None false] [FOther].
Definition s_newimp : state :=
  Eval vm_compute in st f_np [ONew 9; OAppend; OSetImp (TCell 9) n 1; OSetImp (TCell 9) p 2; OFlip CImp false].
Example C09_repaired_new_importance :
  clean s_newimp = true /\
  write s_newimp = Ok (mkW [(1, [EImp [n; p] 1]); (9, [EImp [n] 1; EImp [p] 2])] [DOther]).
Proof. split; vm_compute; reflexivity. Qed.

(* (b') cell.importance.neutron = 2 on 'imp:n,p=1' splits the neutron off (11534b6) *)
Example C09_unshare :
  write (st f_np [OSetImp (TCell 1) n 2; OFlip CImp false]) = Ok (mkW [(1, [EImp [n] 2; EImp [p] 1])] [DOther]) /\
  clean (st f_np [OSetImp (TCell 1) n 2; OFlip CImp false]) = true.
Proof. split; vm_compute; reflexivity. Qed.

(* (c) MODE p, IMP:p in the data block, then print_in_data_block["imp"] = False: no IMP:n on the cell cards *)
Definition f_modep : file :=
  mkFile [p] [mkFC 1 [] None None None None false; mkFC 2 [] None None None None false] [FImp [p] [1; 0]].
Definition s_modep : state := Eval vm_compute in st f_modep [OFlip CImp false].
Example C09_repaired_mode :
  clean s_modep = true /\ write s_modep = Ok (mkW [(1, [EImp [p] 1]); (2, [EImp [p] 0])] []).
Proof. split; vm_compute; reflexivity. Qed.

(* (d) a cell made by Cell() appended while U is printed in the data block: its entry is a jump *)
Definition f_u : file :=
  mkFile [n] [mkFC 1 [([n], 1)] None None None (Some 5) false; mkFC 2 [([n], 1)] None (Some 5) None None false] [FOther].
Definition s_u : state := Eval vm_compute in st f_u [ONew 9; OSetImp TScratch n 1; OAppend; OFlip CU true].
Example C09_repaired_universe :
  clean s_u = true /\
  write s_u = Ok (mkW [(1, [EImp [n] 1; EOne CFill (WV 5)]); (2, [EImp [n] 1]); (9, [EImp [n] 1])]
                      [DOther; DMod CU [(None, [None; Some 5; None])]]).
Proof. split; vm_compute; reflexivity. Qed.

(* (e) del cell.volume while VOL is printed in the data block *)
Definition f_vol : file :=
  mkFile [n] [mkFC 1 [([n], 1)] (Some 7) None None None false; mkFC 2 [([n], 1)] None None None None false] [FOther].
Definition s_vol : state := Eval vm_compute in st f_vol [ODelVol (TCell 2); OFlip CVol true].
Example C09_repaired_volume :
  clean s_vol = true /\
  write s_vol = Ok (mkW [(1, [EImp [n] 1]); (2, [EImp [n] 1])] [DOther; DMod CVol [(None, [Some 7; None])]]).
Proof. split; vm_compute; reflexivity. Qed.

(* the side condition is not vacuous the other way either: a state outside [clean] (a classifier that names a
   particle the cell holds nothing for, which no sequence of reads, sets and appends produces) *)
Example C09_outside_clean :
  clean (mkS [n; p] [mkC 1 [([n], mkT 1 [n] [n]); ([p], mkT 1 [n; p] [p])] true VNone false (Some 0) false None false None false false]
             None (mkF false true true true true) []) = false.
Proof. vm_compute. reflexivity. Qed.

(* ---------------------------------------------------------------- 2. alignment (no side condition) *)
(* whenever the problem is written: the data block has one card of class k iff the flag is set and some cell has
   information; its vector has one entry per cell, in cell order, entry i = the API value of cell i (None = jump);
   IMP: one vector per MODE particle.  (Trailing jumps are not trimmed by the model; the text of the card —
   shortcut compression — is C08's; the harness compares modulo omitted trailing defaults.) *)
Theorem C09_aligned : forall s w k, wf s -> write s = Ok w ->
  mods_of k (w_data w) =
    if andb (flag (s_flags s) k) (worth (s_cells s) k)
    then [match k with
          | CImp => map (fun q => (Some q, imp_vector q (s_cells s))) (s_mode s)
          | _ => [(None, map (api_value k) (s_cells s))]
          end]
    else [].
Proof. exact aligned_strong. Qed.
Print Assumptions C09_aligned.

Theorem C09_written : forall s, clean s = true -> exists w, write s = Ok w.
Proof. exact write_ok. Qed.
Print Assumptions C09_written.

(* ---------------------------------------------------------------- 3. inside the data block (no side condition) *)
(* with the step order of the source: the written file is cell cards, blank, surfaces, blank, data inputs followed
   by the cards made from the cells, blank, blank — every data-block card of the five classes is in the third
   block and only blank lines follow it *)
Theorem C09_inside_data_block : forall s ev,
  write_events_with (steps_of_writer Writer.write_steps) s = Ok ev ->
  exists w, write s = Ok w /\
    blocks ev = [map (fun c => EvCell (fst c) (snd c)) (w_cards w); [EvSurfaces]; map EvData (w_data w); []; []].
Proof. rewrite C09_gen_writer_steps. exact inside_data_block. Qed.
Print Assumptions C09_inside_data_block.

(* ---------------------------------------------------------------- 4. histories *)
Theorem C09_read_wf : forall f s, NoDup (f_mode f) -> read f = Ok s -> wf s.
Proof. exact read_wf. Qed.
Print Assumptions C09_read_wf.

Theorem C09_history_invariant : forall ops s, wf s -> wf (run_ops s ops).
Proof. exact run_ops_wf. Qed.
Print Assumptions C09_history_invariant.

(* after ANY history (induction over the operation list): if the final state is clean, everything above holds *)
Theorem C09_histories_partial : forall s ops, wf s -> clean (run_ops s ops) = true -> exactly_once (run_ops s ops).
Proof. exact any_history. Qed.
Print Assumptions C09_histories_partial.

(* histories of flag flips, cell removals and reorderings (through the cells setter) never leave [sclean] *)
Theorem C09_placement_histories : forall s ops, wf s -> sclean s = true -> forallb placement_op ops = true ->
  exactly_once (run_ops s ops).
Proof. exact placement_history. Qed.
Print Assumptions C09_placement_histories.

(* histories with EVERY kind of statement (new / copied / appended / removed / reordered cells, flips, edits of
   VOL U LAT FILL, importance.<particle> = v with its _unshare_tree, importance.all): the structural part of
   [clean] ([sstruct]: partition condition, shared trees name exactly their particles, MODE trees name MODE
   particles) is an invariant — induction over the operation list; the case of _unshare_tree is the section
   Unshare of Proofs/PlaceProofs.v — so the final state is written exactly once unless MontePy refuses it
   (ParticleTypeNotInCell / Fill with a transform in the data block).  The one restriction ([safe_op], decided
   along the history by [all_safe]): `del cell.importance.<particle>` only on cells whose trees are plain.
   [sstruct] of the state right after reading is reported by the model for every generated input ("S" in the
   model's diagnosis; never seen) — that [read] establishes it is not proved. *)
Theorem C09_safe_histories : forall s ops, wf s -> sstruct s = true -> all_safe s ops = true ->
  imp_data_ok (run_ops s ops) = true -> fill_ok (run_ops s ops) = true -> exactly_once (run_ops s ops).
Proof. exact safe_history. Qed.
Print Assumptions C09_safe_histories.

(* ---------------------------------------------------------------- 5. either block means the same *)
(* [denote f]: the meaning of a file by MCNP's rule, written without reference to MontePy — for cell i and class k
   the value on the cell card, else the i-th entry of the data-block vector if it is not a jump, else the default
   (importance 0, no volume, universe 0, no lattice, no fill).  Whenever MontePy reads a file, the per-cell values
   its API reports are that meaning (push_to_cells, _clear_data, the blank cell-level instances, the redundancy
   checks: all inside [read]).  [fill_one_block]: FILL is not given in both blocks (the four other classes are
   refused by read itself in that case; FILL is not: the data block silently wins, even with a jump). *)
Theorem C09_read_means_file : forall f s, read f = Ok s -> fill_one_block f = true -> per_cell s = denote f.
Proof. exact read_denote. Qed.
Print Assumptions C09_read_means_file.

(* hence two files that differ only in where they state the per-cell data are read to the same per-cell values *)
Theorem C09_either_block : forall f f' s s',
  read f = Ok s -> read f' = Ok s' -> fill_one_block f = true -> fill_one_block f' = true ->
  denote f = denote f' -> per_cell s = per_cell s'.
Proof. exact either_block. Qed.
Print Assumptions C09_either_block.

(* non-vacuity: the same problem with everything on the cell cards / everything in the data block (with a combined
   imp:n,p card, trailing jumps omitted) / mixed; all three are read, and mean the same *)
Definition f_allcell : file :=
  mkFile [n; p]
         [mkFC 1 [([n; p], 1)] (Some 3) None None (Some 7) false;
          mkFC 2 [([n], 1); ([p], 2)] None (Some 7) (Some 1) (Some 8) false;
          mkFC 5 [([p], 0); ([n], 0)] (Some 4) (Some 8) None None false]
         [FOther].
Definition f_alldata : file :=
  mkFile [n; p]
         [mkFC 1 [] None None None None false; mkFC 2 [] None None None None false; mkFC 5 [] None None None None false]
         [FImp [n] [1; 1; 0]; FOther; FVec CVol [Some 3; None; Some 4]; FVec CU [None; Some 7; Some 8];
          FVec CLat [None; Some 1]; FImp [p] [1; 2; 0]; FVec CFill [Some 7; Some 8]].
Definition f_mixed : file :=
  mkFile [n; p]
         [mkFC 1 [] (Some 3) None None None false; mkFC 2 [] None None (Some 1) None false; mkFC 5 [] (Some 4) None None None false]
         [FVec CFill [Some 7; Some 8; None]; FImp [n] [1; 1; 0]; FImp [p] [1; 2; 0]; FVec CU [None; Some 7; Some 8]].
Example C09_either_block_nonvacuous :
  (exists s, read f_allcell = Ok s) /\ (exists s, read f_alldata = Ok s) /\ (exists s, read f_mixed = Ok s) /\
  fill_one_block f_allcell = true /\ fill_one_block f_alldata = true /\ fill_one_block f_mixed = true /\
  denote f_allcell = denote f_alldata /\ denote f_alldata = denote f_mixed /\
  denote f_allcell = [mkA 1 [(n, 1); (p, 1)] (Some 3) (Some 0) None (Some 7);
                      mkA 2 [(n, 1); (p, 2)] None (Some 7) (Some 1) (Some 8);
                      mkA 5 [(n, 0); (p, 0)] (Some 4) (Some 8) None None].
Proof. repeat split; try (eexists; vm_compute; reflexivity); vm_compute; reflexivity. Qed.

(* ---------------------------------------------------------------- non-vacuity *)
(* a problem with all five classes, three cells, MODE n p, some data in each block *)
Definition f_ex : file :=
  mkFile [n; p]
         [mkFC 1 [] None None None (Some 7) false;
          mkFC 2 [] None (Some 7) (Some 1) (Some 8) false;
          mkFC 5 [] None (Some 8) None None false]
         [FOther; FImp [n; p] [1; 1; 0]; FVec CVol [Some 3; None; Some 4]; FOther].
Definition s_ex : state := Eval vm_compute in st f_ex [].

Example C09_ex_wf_clean : wf s_ex /\ sclean s_ex = true /\ clean s_ex = true.
Proof. split; [split; vm_compute; repeat constructor; simpl; intuition discriminate|split; vm_compute; reflexivity]. Qed.

(* what is written with IMP in the cell block and VOL U in the data block, FILL LAT in the cell block *)
Example C09_ex_written :
  write (with_flags s_ex (mkF false true true false false)) =
  Ok (mkW [(1, [EImp [n; p] 1; EOne CFill (WV 7)]);
           (2, [EImp [n; p] 1; EOne CLat (WV 1); EOne CFill (WV 8)]);
           (5, [EImp [n; p] 0])]
          [DOther; DMod CVol [(None, [Some 3; None; Some 4])]; DOther; DMod CU [(None, [None; Some 7; Some 8])]]).
Proof. vm_compute. reflexivity. Qed.

(* a history that the placement theorem covers: flips, a removal, a reordering *)
Example C09_ex_history :
  forallb placement_op [OFlip CImp false; OFlip CU true; ORemove 2; OReorder [5; 1]; OFlip CVol false] = true /\
  map c_num (s_cells (run_ops s_ex [OFlip CImp false; OFlip CU true; ORemove 2; OReorder [5; 1]; OFlip CVol false])) = [5; 1].
Proof. split; vm_compute; reflexivity. Qed.

(* histories with a new cell that end clean: importances set before or after the cell is appended *)
Example C09_ex_new_cell :
  clean (run_ops s_ex [ONew 9; OSetImp TScratch n 2; OSetImp TScratch p 2; OAppend]) = true /\
  clean (run_ops s_ex [ONew 9; OAppend; OSetImp (TCell 9) p 2; OSetImp (TCell 9) n 3; OSetVol (TCell 9) 4; ODelVol (TCell 1)]) = true.
Proof. split; vm_compute; reflexivity. Qed.

(* a history the safe-history theorem covers: importances are set on a new cell after it was appended AND on cells
   that were read with a combined imp:n,p card; a volume is set and another deleted; cells are reordered,
   placements flipped *)
Definition ops_safe : list op :=
  [ONew 9; OAppend; OSetImp (TCell 9) p 2; OSetImp (TCell 9) n 3; OSetAll (TCell 9) 4; OSetImp (TCell 1) n 5;
   OSetAll (TCell 2) 6; OSetVol (TCell 2) 6; ODelVol (TCell 1); OSetU (TCell 9) 7; OReorder [9; 5; 2; 1];
   OFlip CImp false; OFlip CVol false; OFlip CU true].
Example C09_ex_safe_history :
  sstruct s_ex = true /\ all_safe s_ex ops_safe = true /\
  imp_data_ok (run_ops s_ex ops_safe) = true /\ fill_ok (run_ops s_ex ops_safe) = true /\
  map c_num (s_cells (run_ops s_ex ops_safe)) = [9; 5; 2; 1].
Proof. repeat split; vm_compute; reflexivity. Qed.

(* the same with a tree that two particles share on a cell card (imp:n,p=1): neutron is split off *)
Example C09_ex_safe_history_unshare :
  sstruct (st f_np []) = true /\ all_safe (st f_np []) [OSetImp (TCell 1) n 2; OFlip CImp false] = true /\
  write (run_ops (st f_np []) [OSetImp (TCell 1) n 2; OFlip CImp false]) = Ok (mkW [(1, [EImp [n] 2; EImp [p] 1])] [DOther]).
Proof. repeat split; vm_compute; reflexivity. Qed.

(* the two documented refusals (no file is produced; side conditions imp_data_ok / fill_ok) *)
Example C09_refusal_particle_not_in_cell :
  write (run_ops s_ex [ONew 9; OAppend]) = Err EPartNotInCell.
Proof. vm_compute. reflexivity. Qed.
