(* C01 — unedited read -> write denotes the same problem.  Headline theorems only (proofs: Proofs/TreeProofs.v; line wrapping is property C10's model, Model/Wrap.v).  The parsers are not modelled: [as_parsed] / [unedited] are hypotheses about the tree they
   build, checked on every generated input by the correspondence (harness/props/_rtcommon.py). *)
From Coq Require Import List String Ascii.
From MPV Require Import Model.Tree Proofs.TreeProofs.
Import ListNotations.
Open Scope string_scope.

(* an unedited tree, as the parsers build it, is written exactly as the text it was read from *)
Theorem C01_format_unchanged : forall n,
  unedited n = true -> as_parsed n = true -> fst (format n) = flatten n.
Proof. exact format_unchanged. Qed.
Print Assumptions C01_format_unchanged.

(* ... and formatting it leaves the tree as it was *)
Theorem C01_format_unchanged_tree : forall n,
  unedited n = true -> as_parsed n = true -> snd (format n) = n.
Proof. exact format_unchanged_tree. Qed.
Print Assumptions C01_format_unchanged_tree.

(* every input of the problem, in the same order: nothing is dropped, duplicated or moved *)
Theorem C01_all_cards_as_read : forall cards,
  forallb (fun c => andb (unedited c) (as_parsed c)) cards = true -> format_all cards = map flatten cards.
Proof. exact all_cards_as_read. Qed.
Print Assumptions C01_all_cards_as_read.

(* Cell.format_for_mcnp_input re-assembles the cell from its parameters: whatever was written so far, the next
   parameter is appended after white space: it is never fused with the token before it ... *)
Theorem C01_parameter_never_fused : forall ret, ends_ws (cleanup_last_line ret) = true.
Proof. exact cleanup_separates. Qed.
Print Assumptions C01_parameter_never_fused.

(* ... and after a comment or a '&' it starts a continuation line of its own (it cannot become a part of the
   comment, and the '&' stays the last thing on its line) *)
Theorem C01_parameter_after_comment_on_new_line : forall ret,
  orb (orb (is_comment_line (last_line ret)) (has_char "$"%char (last_line ret))) (ends_amp (last_line ret)) = true ->
  exists x, cleanup_last_line ret = x ++ nl ++ cont5.
Proof. exact cleanup_new_line. Qed.
Print Assumptions C01_parameter_after_comment_on_new_line.

(* block structure of the written file under MCNP's blank-line rule: the title and the cell cards,
   the surface cards, the data cards together with the cell-modifier child cards, then nothing:
   no card lands after the blank line that ends its block *)
Theorem C01_writer_blocks : forall title cells surfaces data children,
  nonblank_all (List.concat cells) -> nonblank_all (List.concat surfaces) ->
  nonblank_all (List.concat data) -> nonblank_all (List.concat children) ->
  blank_line title = false ->
  split_blocks (write_lines [] title cells surfaces data children) []
  = [title :: List.concat cells; List.concat surfaces;
     (List.concat data ++ List.concat children)%list; []; []].
Proof. exact writer_blocks. Qed.
Print Assumptions C01_writer_blocks.

(* the order write_to_file used before fc62622 (terminator, then child cards) loses the child cards *)
Theorem C01_children_after_terminator_refuted :
  exists title cells surfaces data children,
    nonblank_all (List.concat cells) /\ nonblank_all (List.concat surfaces) /\
    nonblank_all (List.concat data) /\ nonblank_all (List.concat children) /\
    blank_line title = false /\ children <> [] /\
    let old := ([title] ++ List.concat cells ++ [""] ++ List.concat surfaces ++ [""]
                ++ List.concat data ++ [""] ++ List.concat children ++ [""])%list in
    nth 2 (split_blocks old []) [] <> (List.concat data ++ List.concat children)%list.
Proof. exact writer_children_after_terminator_refuted. Qed.
Print Assumptions C01_children_after_terminator_refuted.

(* hypotheses are satisfiable: a concrete parsed-shape tree (skipped value, classifier with particles, list with
   padding node and shortcut, '$' comment) and a problem of three cards *)
Example C01_nonvacuous :
  unedited ex_tree = true /\ as_parsed ex_tree = true /\
  forallb (fun c => andb (unedited c) (as_parsed c)) ex_cards = true.
Proof. destruct ex_tree_hyps. split; [assumption|]. split; [assumption|exact ex_all_cards]. Qed.
Print Assumptions C01_nonvacuous.

Example C01_cleanup_examples :
  cleanup_last_line ("1 0 -1 $ c" ++ nl) = "1 0 -1 $ c" ++ nl ++ cont5 /\
  cleanup_last_line "1 0 -1 imp:n=1 &" = "1 0 -1 imp:n=1 &" ++ nl ++ cont5 /\
  cleanup_last_line "1 0 -1" = "1 0 -1 " /\
  cell_text [CNode (NO "1 0 -1 "); CMod "imp:n=1 &"; CParam (NO "tmp=1 &")] = "1 0 -1 imp:n=1 &" ++ nl ++ cont5 ++ "tmp=1 ".
Proof. exact ex_cleanup. Qed.
Print Assumptions C01_cleanup_examples.
