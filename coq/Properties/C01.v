(* C01 — unedited read -> write denotes the same problem.  Headline theorems only. *)
From Coq Require Import List String.
From MPV Require Import Model.Tree Model.Wrap Proofs.TreeProofs Proofs.WrapProofs.
Import ListNotations.
Open Scope string_scope.

(* an unedited tree, as the parsers build it, is written exactly as the text it was read from *)
Theorem C01_format_unchanged : forall n,
  unedited n = true -> as_parsed n = true -> fst (format n) = flatten n.
Proof. exact format_unchanged. Qed.
Print Assumptions C01_format_unchanged.

(* ... and formatting it leaves the tree as it was *)
Theorem C01_format_unchanged_tree : forall n,
  unedited n = true -> as_parsed n = true -> snd (format n) = n.
Proof. exact format_unchanged_tree. Qed.
Print Assumptions C01_format_unchanged_tree.

(* a line that already fits the limit passes the wrapper unchanged *)
Theorem C01_wrap_identity : forall W ii si chunks,
  chunks <> [] -> Forall (fun c => c <> "") chunks ->
  slen ii + slen (String.concat "" chunks) <= W ->
  wrap_chunks W ii si chunks = Some [ii ++ String.concat "" chunks].
Proof. exact wrap_identity. Qed.
Print Assumptions C01_wrap_identity.

(* block structure of the written file under MCNP's blank-line rule: the title and the cell cards,
   the surface cards, the data cards together with the cell-modifier child cards, then nothing:
   no card lands after the blank line that ends its block *)
Theorem C01_writer_blocks : forall title cells surfaces data children,
  nonblank_all (List.concat cells) -> nonblank_all (List.concat surfaces) ->
  nonblank_all (List.concat data) -> nonblank_all (List.concat children) ->
  blank_line title = false ->
  split_blocks (write_lines [] title cells surfaces data children) []
  = [title :: List.concat cells; List.concat surfaces;
     (List.concat data ++ List.concat children)%list; []; []].
Proof. exact writer_blocks. Qed.
Print Assumptions C01_writer_blocks.

(* the order write_to_file used before the fix: commit (terminator, then child cards) loses the child cards *)
Theorem C01_children_after_terminator_refuted :
  exists title cells surfaces data children,
    nonblank_all (List.concat cells) /\ nonblank_all (List.concat surfaces) /\
    nonblank_all (List.concat data) /\ nonblank_all (List.concat children) /\
    blank_line title = false /\ children <> [] /\
    let old := ([title] ++ List.concat cells ++ [""] ++ List.concat surfaces ++ [""]
                ++ List.concat data ++ [""] ++ List.concat children ++ [""])%list in
    nth 2 (split_blocks old []) [] <> (List.concat data ++ List.concat children)%list.
Proof. exact writer_children_after_terminator_refuted. Qed.
Print Assumptions C01_children_after_terminator_refuted.

(* hypotheses are satisfiable: a concrete parsed-shape tree *)
Example C01_nonvacuous : unedited ex_tree = true /\ as_parsed ex_tree = true.
Proof. exact ex_tree_hyps. Qed.
Print Assumptions C01_nonvacuous.
