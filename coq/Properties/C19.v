(* C19 — writing is repeatable: observation is pure and output is a fixed point.  Headline theorems only. *)
From Coq Require Import List String.
From MPV Require Import Model.Tree Model.Wrap Proofs.TreeProofs Proofs.WrapProofs.
Import ListNotations.
Open Scope string_scope.

(* formatting mutates the tree (ListNode padding repair); for EVERY tree, edited or not, formatting a second
   time gives the same text ... *)
Theorem C19_format_idempotent : forall n, fst (format (snd (format n))) = fst (format n).
Proof. exact format_idempotent. Qed.
Print Assumptions C19_format_idempotent.

(* ... and leaves the same tree: observing twice is the same as observing once *)
Theorem C19_format_idempotent_tree : forall n, snd (format (snd (format n))) = snd (format n).
Proof. exact format_idempotent_tree. Qed.
Print Assumptions C19_format_idempotent_tree.

(* an observation between two edits does not matter: the edit is local in the observed tree as well *)
Theorem C19_unedited_fixed_point : forall n,
  unedited n = true -> as_parsed n = true -> format n = (flatten n, n).
Proof. exact format_unchanged_pair. Qed.
Print Assumptions C19_unedited_fixed_point.

(* a line MontePy wrote fits the limit, so writing it again does not re-wrap it *)
Theorem C19_wrap_fixed_point : forall W ii si chunks,
  chunks <> [] -> Forall (fun c => c <> "") chunks ->
  slen ii + slen (String.concat "" chunks) <= W ->
  wrap_chunks W ii si chunks = Some [ii ++ String.concat "" chunks].
Proof. exact wrap_identity. Qed.
Print Assumptions C19_wrap_fixed_point.

(* the padding repair really changes a tree the first time (so idempotence is not vacuous) *)
Example C19_nonvacuous : as_parsed ex_list = false.
Proof. exact ex_list_not_as_parsed. Qed.
Print Assumptions C19_nonvacuous.
