(* C19 — writing is repeatable: observation is pure and output is a fixed point.  Headline theorems only (proofs:
   Proofs/TreeProofs.v; line wrapping is property C10's model, Model/Wrap.v).  In the source, formatting MUTATES the syntax tree (ListNode.format
   repairs missing padding, ValueNode.format fixes the field width it reverse engineers the first time a changed
   value is written, ParticleNode.format normalises its order): [format] returns the tree it leaves. *)
From Coq Require Import List String.
From MPV Require Import Model.Tree Proofs.TreeProofs.
Import ListNotations.
Open Scope string_scope.

(* for EVERY tree, edited or not, formatting a second time gives the same text ... *)
Theorem C19_format_idempotent : forall n, fst (format (snd (format n))) = fst (format n).
Proof. exact format_idempotent. Qed.
Print Assumptions C19_format_idempotent.

(* ... and leaves the same tree: observing twice is the same as observing once *)
Theorem C19_format_idempotent_tree : forall n, snd (format (snd (format n))) = snd (format n).
Proof. exact format_idempotent_tree. Qed.
Print Assumptions C19_format_idempotent_tree.

(* an unedited tree as the parsers build it is not changed at all by an observation *)
Theorem C19_unedited_fixed_point : forall n,
  unedited n = true -> as_parsed n = true -> format n = (flatten n, n).
Proof. exact format_unchanged_pair. Qed.
Print Assumptions C19_unedited_fixed_point.

(* an observation between two edits does not matter: editing the observed tree and editing the tree itself are
   written the same (text and tree) *)
Theorem C19_observe_commutes : forall n p r,
  fst (format (set_leaf p r (snd (format n)))) = fst (format (set_leaf p r n)).
Proof. exact observe_commutes. Qed.
Print Assumptions C19_observe_commutes.

(* a whole program of edits with an observation before it and after every edit is written like the program
   without any observation (induction on the program) *)
Theorem C19_observed_program : forall es n,
  fst (format (apply_edits_observed es (snd (format n)))) = fst (format (apply_edits es n)).
Proof. exact observed_program_text. Qed.
Print Assumptions C19_observed_program.

(* generations: the parser is not modelled; for ANY function P that reads the written text g1 of ANY tree t
   (edited or not) losslessly, the next generation reproduces g1, and so does the one after it *)
Theorem C19_generation_fixed_point : forall P t,
  let g1 := fst (format t) in
  Lossless_on P g1 ->
  let g2 := fst (format (P g1)) in
  g2 = g1 /\ fst (format (P g2)) = g2.
Proof. exact generation_fixed_point. Qed.
Print Assumptions C19_generation_fixed_point.

(* non-vacuity: a tree that format really changes the first time (padding repair, field width, particle order),
   an observation between two edits, a lossless parser *)
Example C19_nonvacuous :
  as_parsed ex_list = false /\
  fst (format ex_list) = "1 2 34.5 5 2r 6 :N,E" /\ flatten ex_list = "12345 2r6:P,N" /\
  snd (format ex_list) <> ex_list /\
  fst (format (snd (format ex_list))) = "1 2 34.5 5 2r 6 :N,E" /\
  snd (format (snd (format ex_list))) = snd (format ex_list).
Proof. split; [exact ex_list_not_as_parsed|exact ex_list_format]. Qed.
Print Assumptions C19_nonvacuous.

Example C19_observe_nonvacuous :
  fst (format (set_leaf [3; 0] "1.5" (snd (format (set_leaf [3; 2] "9" ex_tree)))))
  = fst (format (set_leaf [3; 0] "1.5" (set_leaf [3; 2] "9" ex_tree))).
Proof. exact ex_observe. Qed.
Print Assumptions C19_observe_nonvacuous.

Example C19_lossless_nonvacuous : Lossless_on (fun _ => ex_tree) (flatten ex_tree).
Proof. exact ex_lossless. Qed.
Print Assumptions C19_lossless_nonvacuous.
