(* C18 — duplicate-surface removal never changes any cell's region
   (MCNP_Problem.remove_duplicate_surfaces and what it calls; model: Model/Dedup.v).
   Headline theorems only; the proofs are in Proofs/DedupProofs.v.

   Reading guide.  [scan tol surfs = Ok (del, m)]: the first loop of the method ended with the set [to_delete] = del
   and the dict [matching_map] = m (a later match of the same dead surface overwrites the earlier entry, as in the
   code); [dedup tol P = Ok P']: the whole call returned and left the problem P'.  A statement that is false of the
   current code has a [_refuted] theorem (a concrete problem, replayed on the real code by the harness as a finding)
   and a [_partial] theorem under the side condition that excludes the defect. *)
From Coq Require Import List String Ascii ZArith QArith Qabs Bool.
From MPV Require Import Model.Wire Model.Dedup Proofs.DedupProofs.
Import ListNotations.
Local Open Scope Z_scope.

(* ------------------------------------------------------------------ 1. the matching map *)
(* keys of the map = the removed set; every entry d -> s comes from a positive answer of
   s.find_duplicate_surfaces for d: two different members of the problem with the same mnemonic *)
Theorem C18_map_justified : forall tol P del m,
  scan tol (p_surfs P) = Ok (del, m) ->
  (forall n, In n del <-> lookup n m <> None) /\
  (forall d s, lookup d m = Some s ->
     exists sd ss, In sd (p_surfs P) /\ In ss (p_surfs P) /\ s_num sd = d /\ s_num ss = s /\
                   s_num sd <> s_num ss /\ s_type sd = s_type ss /\ candidate tol ss sd = Ok true).
Proof. exact map_justified. Qed.
Print Assumptions C18_map_justified.

(* ------------------------------------------------------------------ 2. only true duplicates are merged *)
(* [true_dup tol a b]: same mnemonic, same reflecting / white flags, transforms both absent or with equal flags and
   all entries within tol (an absent rotation being the identity), neither surface periodic *now*, same number of
   constants, all within tol.
   False of the current code in three independent ways: *)
Theorem C18_only_true_duplicates_refuted_bc : exists tol P sd ss,
  wf P /\ Forall class_ok (p_surfs P) /\ Forall periodic_visible (p_surfs P) /\ tr_uniform (p_surfs P) /\
  merged_pair tol P sd ss /\ s_refl ss <> s_refl sd /\ ~ true_dup tol ss sd.
Proof. exact only_true_duplicates_refuted_bc. Qed.
Print Assumptions C18_only_true_duplicates_refuted_bc.

Theorem C18_only_true_duplicates_refuted_periodic : exists tol P sd ss,
  wf P /\ Forall class_ok (p_surfs P) /\ bc_uniform (p_surfs P) /\ tr_uniform (p_surfs P) /\
  (forall s, In s (p_surfs P) -> in_sync (p_surfs P) (p_trs P) s) /\
  merged_pair tol P sd ss /\ s_perptr sd <> 0 /\ ~ true_dup tol ss sd.
Proof. exact only_true_duplicates_refuted_periodic. Qed.
Print Assumptions C18_only_true_duplicates_refuted_periodic.

Theorem C18_only_true_duplicates_refuted_rotation : exists tol P sd ss,
  wf P /\ Forall class_ok (p_surfs P) /\ bc_uniform (p_surfs P) /\ Forall periodic_visible (p_surfs P) /\
  merged_pair tol P sd ss /\ ~ trdata_same tol (s_tr ss) (s_tr sd) /\ ~ true_dup tol ss sd.
Proof. exact only_true_duplicates_refuted_rotation. Qed.
Print Assumptions C18_only_true_duplicates_refuted_rotation.

(* ... and true under exactly the three side conditions the witnesses violate one at a time:
   bc_uniform (same-mnemonic surfaces have the same boundary condition), periodic_visible (a periodic surface is of
   a class whose test looks at it), tr_uniform (transforms have rotation matrices of the same length) *)
Theorem C18_only_true_duplicates_partial : forall tol P del m,
  wf P -> Forall class_ok (p_surfs P) ->
  bc_uniform (p_surfs P) -> Forall periodic_visible (p_surfs P) -> tr_uniform (p_surfs P) ->
  scan tol (p_surfs P) = Ok (del, m) ->
  forall d s sd ss, lookup d m = Some s ->
    In sd (p_surfs P) -> In ss (p_surfs P) -> s_num sd = d -> s_num ss = s -> true_dup tol ss sd.
Proof. exact only_true_duplicates_partial. Qed.
Print Assumptions C18_only_true_duplicates_partial.

Example C18_only_true_duplicates_nonvacuous :
  wf ex_prob /\ Forall class_ok (p_surfs ex_prob) /\ bc_uniform (p_surfs ex_prob) /\
  Forall periodic_visible (p_surfs ex_prob) /\ tr_uniform (p_surfs ex_prob) /\
  scan tol4 (p_surfs ex_prob) = Ok ([2; 5; 9; 11], [(2, 3); (5, 4); (9, 8); (11, 10)]).
Proof.
  exact (conj ex_wf (conj ex_class_ok (conj ex_bc (conj ex_periodic_visible (conj ex_tr_uniform ex_scan))))).
Qed.
Print Assumptions C18_only_true_duplicates_nonvacuous.

(* ------------------------------------------------------------------ 3. every cell, structurally *)
(* each cell keeps its number; its geometry is the old tree with leaves renamed by a function that fixes every
   number that is not a key of the map, sends a key to itself or to its map entry, and sends every key that is in
   cell.surfaces to its map entry: operators, parentheses-free shape and senses are those of the old tree *)
Theorem C18_cells_structure : forall tol P P' del m,
  scan tol (p_surfs P) = Ok (del, m) -> dedup tol P = Ok P' ->
  Forall2 (fun c c' =>
             c_num c' = c_num c /\
             exists f, (forall n, lookup n m = None -> f n = n) /\
                       (forall n, f n = n \/ lookup n m = Some (f n)) /\
                       (forall n, In n (c_surfs c) -> f n = ren m n) /\
                       c_geom c' = map_leaves f (c_geom c))
          (p_cells P) (p_cells P').
Proof. exact cells_structure. Qed.
Print Assumptions C18_cells_structure.

(* ------------------------------------------------------------------ 4. the region of every cell is unchanged *)
(* for every assignment of a side to every surface that gives a removed surface and its survivor the same side
   (and every assignment to complemented cells), the Boolean function of each cell is the same before and after *)
Theorem C18_region : forall tol P P' del m,
  scan tol (p_surfs P) = Ok (del, m) -> dedup tol P = Ok P' ->
  Forall2 (fun c c' =>
             c_num c' = c_num c /\
             forall es ec, identifies m es -> region es ec (c_geom c') = region es ec (c_geom c))
          (p_cells P) (p_cells P').
Proof. exact region_preserved. Qed.
Print Assumptions C18_region.

(* senses and operators never change; a cell none of whose leaves is removed is not changed at all *)
Theorem C18_senses : forall tol P P' del m,
  scan tol (p_surfs P) = Ok (del, m) -> dedup tol P = Ok P' ->
  Forall2 (fun c c' =>
             shape (c_geom c') = shape (c_geom c) /\
             ((forall n, In n (leaf_surfs (c_geom c)) -> ~ In n del) -> c_geom c' = c_geom c))
          (p_cells P) (p_cells P').
Proof. exact senses_preserved. Qed.
Print Assumptions C18_senses.

Example C18_region_nonvacuous :
  scan tol4 (p_surfs ex_prob) = Ok (ex_del, ex_map) /\
  (dedup tol4 ex_prob = Ok ex_after /\
   map s_num (p_surfs ex_after) = [1; 3; 4; 6; 7; 8; 10; 12] /\ p_cells ex_after = ex_after_cells) /\
  identifies ex_map ex_es /\
  map (fun c => region ex_es (fun _ => false) (c_geom c)) ex_cells = [true; false; true; false] /\
  map (fun c => region ex_es (fun _ => false) (c_geom c)) ex_after_cells = [true; false; true; false].
Proof. exact (conj ex_scan (conj ex_dedup (conj ex_identifies ex_regions))). Qed.
Print Assumptions C18_region_nonvacuous.

(* ------------------------------------------------------------------ 5. the collection *)
(* no member of the collection after the call has a removed number; the surviving numbers are the old numbers minus
   the removed ones, in the old order *)
Theorem C18_removed_are_gone : forall tol P P' del m,
  wf P -> scan tol (p_surfs P) = Ok (del, m) -> dedup tol P = Ok P' ->
  (forall s', In s' (p_surfs P') -> ~ In (s_num s') del) /\
  map s_num (p_surfs P') = filter (fun n => negb (memZ n del)) (map s_num (p_surfs P)).
Proof. exact removed_are_gone. Qed.
Print Assumptions C18_removed_are_gone.

(* surfaces that are not duplicates are untouched: false (the call re-runs the pointer resolution of the read:
   a transform or periodic surface assigned or deleted since then is reverted, even when nothing is merged) *)
Theorem C18_survivors_untouched_refuted : exists tol P P' m,
  wf P /\ Forall class_ok (p_surfs P) /\ scan tol (p_surfs P) = Ok ([], m) /\ dedup tol P = Ok P' /\
  p_surfs P' <> p_surfs P.
Proof. exact survivors_untouched_refuted. Qed.
Print Assumptions C18_survivors_untouched_refuted.

(* ... true when the numbers remembered from the read still describe the pointers *)
Theorem C18_survivors_untouched_partial : forall tol P P' del m,
  wf P -> (forall s, In s (p_surfs P) -> in_sync (p_surfs P) (p_trs P) s) ->
  scan tol (p_surfs P) = Ok (del, m) -> dedup tol P = Ok P' ->
  p_surfs P' = filter (fun s => negb (memZ (s_num s) del)) (p_surfs P).
Proof. exact survivors_untouched. Qed.
Print Assumptions C18_survivors_untouched_partial.

Example C18_survivors_untouched_nonvacuous :
  wf ex_prob /\ (forall s, In s (p_surfs ex_prob) -> in_sync (p_surfs ex_prob) (p_trs ex_prob) s).
Proof. exact (conj ex_wf ex_in_sync). Qed.
Print Assumptions C18_survivors_untouched_nonvacuous.

(* ------------------------------------------------------------------ 6. no reference to a removed surface *)
(* false: the test of the code is not symmetric, so a survivor can be removed later and the one-step re-pointing
   leaves a leaf on a surface that is no longer in the problem *)
Theorem C18_no_dangling_leaf_refuted : exists tol P P' del m c' n,
  wf P /\ links P /\ Forall class_ok (p_surfs P) /\ planes_old_nonperiodic (p_surfs P) /\
  scan tol (p_surfs P) = Ok (del, m) /\ dedup tol P = Ok P' /\
  In c' (p_cells P') /\ In n (leaf_surfs (c_geom c')) /\ In n del /\ ~ In n (map s_num (p_surfs P')).
Proof. exact no_dangling_leaf_refuted. Qed.
Print Assumptions C18_no_dangling_leaf_refuted.

(* ... true whenever the test is symmetric on the members of the problem (chains a~b~c without a~c included) *)
Theorem C18_no_dangling_leaf_partial : forall tol P P' del m,
  wf P -> links P -> cand_sym tol (p_surfs P) ->
  scan tol (p_surfs P) = Ok (del, m) -> dedup tol P = Ok P' ->
  forall c', In c' (p_cells P') -> forall n, In n (leaf_surfs (c_geom c')) -> ~ In n del.
Proof. exact no_dangling_leaf. Qed.
Print Assumptions C18_no_dangling_leaf_partial.

(* with a symmetric test no survivor is itself removed *)
Theorem C18_survivors_survive_partial : forall tol P del m,
  wf P -> cand_sym tol (p_surfs P) -> scan tol (p_surfs P) = Ok (del, m) ->
  forall d s, lookup d m = Some s -> ~ In s del.
Proof. exact survivors_survive. Qed.
Print Assumptions C18_survivors_survive_partial.

(* the test is symmetric when no plane / off-axis cylinder was read as periodic and all rotation matrices have
   the same length *)
Theorem C18_symmetric_test_partial : forall tol all,
  Forall class_ok all -> planes_old_nonperiodic all -> tr_uniform all -> cand_sym tol all.
Proof. exact cand_sym_struct. Qed.
Print Assumptions C18_symmetric_test_partial.

Example C18_no_dangling_leaf_nonvacuous :
  wf ex_prob /\ links ex_prob /\ Forall class_ok (p_surfs ex_prob) /\
  planes_old_nonperiodic (p_surfs ex_prob) /\ tr_uniform (p_surfs ex_prob).
Proof. exact (conj ex_wf (conj ex_links (conj ex_class_ok (conj ex_planes ex_tr_uniform)))). Qed.
Print Assumptions C18_no_dangling_leaf_nonvacuous.

(* ... and false for a second call: the first call leaves every cell.surfaces empty (links no longer holds), so
   the second call re-points nothing and still removes the duplicates *)
Theorem C18_second_call_refuted : exists P P1 P2 c' n,
  wf P /\ links P /\ Forall class_ok (p_surfs P) /\ planes_old_nonperiodic (p_surfs P) /\ tr_uniform (p_surfs P) /\
  (forall s, In s (p_surfs P) -> in_sync (p_surfs P) (p_trs P) s) /\
  dedup tol9 P = Ok P1 /\ p_surfs P1 = p_surfs P /\ ~ links P1 /\
  dedup tol4 P1 = Ok P2 /\
  In c' (p_cells P2) /\ In n (leaf_surfs (c_geom c')) /\ ~ In n (map s_num (p_surfs P2)).
Proof. exact second_call_refuted. Qed.
Print Assumptions C18_second_call_refuted.

(* the surface a periodic surface points to can be removed *)
Theorem C18_no_dangling_periodic_refuted : exists tol P P' s',
  wf P /\ Forall class_ok (p_surfs P) /\ (forall s, In s (p_surfs P) -> in_sync (p_surfs P) (p_trs P) s) /\
  dedup tol P = Ok P' /\ In s' (p_surfs P') /\ s_perptr s' <> 0 /\ ~ In (s_perptr s') (map s_num (p_surfs P')).
Proof. exact no_dangling_periodic_refuted. Qed.
Print Assumptions C18_no_dangling_periodic_refuted.

Theorem C18_no_dangling_periodic_partial : forall tol P P',
  (forall s, In s (p_surfs P) -> s_oldper s = 0 /\ s_perptr s = 0) ->
  dedup tol P = Ok P' -> forall s', In s' (p_surfs P') -> s_perptr s' = 0.
Proof. exact no_dangling_periodic_partial. Qed.
Print Assumptions C18_no_dangling_periodic_partial.

(* ------------------------------------------------------------------ 7. the call returns *)
(* false: Transform.equivalent indexes the other rotation matrix with the indices of its own *)
Theorem C18_completes_refuted : exists tol P,
  wf P /\ Forall class_ok (p_surfs P) /\ (forall s, In s (p_surfs P) -> in_sync (p_surfs P) (p_trs P) s) /\
  dedup tol P = Err IndexError.
Proof. exact dedup_completes_refuted. Qed.
Print Assumptions C18_completes_refuted.

Theorem C18_completes_partial : forall tol P,
  tr_uniform (p_surfs P) -> (forall s, In s (p_surfs P) -> in_sync (p_surfs P) (p_trs P) s) ->
  exists P', dedup tol P = Ok P'.
Proof. exact dedup_completes. Qed.
Print Assumptions C18_completes_partial.

(* a VOL, U, LAT or FILL card in the data block: the call always raises (after the cells were re-pointed, before any
   surface is removed), whatever the surfaces are *)
Theorem C18_completes_refuted_cellmod : forall tol P r,
  scan tol (p_surfs P) = Ok r -> dedup_call true tol P = Err MalformedInputError.
Proof. exact cellmod_always_fails. Qed.
Print Assumptions C18_completes_refuted_cellmod.

(* without such a card the call is [dedup], the function all other theorems are about *)
Theorem C18_call_without_cellmod : forall tol P, dedup_call false tol P = dedup tol P.
Proof. exact no_cellmod_same. Qed.
Print Assumptions C18_call_without_cellmod.

(* ------------------------------------------------------------------ 8. the code with proposed_fixes/C18-1..3 *)
(* Model/Dedup.v, suffix _fx: find_duplicate_surfaces compare the boundary condition and both surfaces' live
   periodicity (C18-1), Transform.equivalent treats rotation matrices of different length as different (C18-2),
   the call does not re-run the pointer resolution and re-points periodic partners through the map (C18-3).
   Every statement of the property then holds at full strength: the side conditions left are unique numbers, the
   class / arity fixed by the mnemonic, displacement vectors of equal length (always three) and, for leaves,
   cell.surfaces covering the leaves - which the call now preserves, so it can be repeated. *)
Theorem C18_fx_only_true_duplicates : forall tol P del m,
  wf P -> Forall class_ok (p_surfs P) -> disp_uniform (p_surfs P) ->
  scan_fx tol (p_surfs P) = Ok (del, m) ->
  forall d s sd ss, lookup d m = Some s ->
    In sd (p_surfs P) -> In ss (p_surfs P) -> s_num sd = d -> s_num ss = s -> true_dup tol ss sd.
Proof. exact fx_only_true_duplicates. Qed.
Print Assumptions C18_fx_only_true_duplicates.

Theorem C18_fx_region : forall tol P P' del m,
  scan_fx tol (p_surfs P) = Ok (del, m) -> dedup_fx tol P = Ok P' ->
  Forall2 (fun c c' =>
             c_num c' = c_num c /\ shape (c_geom c') = shape (c_geom c) /\
             forall es ec, identifies m es -> region es ec (c_geom c') = region es ec (c_geom c))
          (p_cells P) (p_cells P').
Proof. exact fx_region. Qed.
Print Assumptions C18_fx_region.

Theorem C18_fx_surfaces : forall tol P P' del m,
  wf P -> scan_fx tol (p_surfs P) = Ok (del, m) -> dedup_fx tol P = Ok P' ->
  p_surfs P' = filter (fun s => negb (memZ (s_num s) del)) (map (repoint_periodic m) (p_surfs P)) /\
  (forall s, s_perptr s = 0 \/ lookup (s_perptr s) m = None -> repoint_periodic m s = s) /\
  map s_num (p_surfs P') = filter (fun n => negb (memZ n del)) (map s_num (p_surfs P)).
Proof. exact fx_surfaces. Qed.
Print Assumptions C18_fx_surfaces.

Theorem C18_fx_no_dangling_leaf : forall tol P P' del m,
  wf P -> links P -> Forall class_ok (p_surfs P) -> disp_uniform (p_surfs P) ->
  scan_fx tol (p_surfs P) = Ok (del, m) -> dedup_fx tol P = Ok P' ->
  links P' /\
  forall c', In c' (p_cells P') -> forall n, In n (leaf_surfs (c_geom c')) -> ~ In n del.
Proof. exact fx_no_dangling_leaf. Qed.
Print Assumptions C18_fx_no_dangling_leaf.

Theorem C18_fx_no_dangling_periodic : forall tol P P' del m,
  wf P -> Forall class_ok (p_surfs P) -> disp_uniform (p_surfs P) ->
  (forall s, In s (p_surfs P) -> s_perptr s = 0 \/ In (s_perptr s) (map s_num (p_surfs P))) ->
  scan_fx tol (p_surfs P) = Ok (del, m) -> dedup_fx tol P = Ok P' ->
  forall s', In s' (p_surfs P') -> s_perptr s' = 0 \/ In (s_perptr s') (map s_num (p_surfs P')).
Proof. exact fx_no_dangling_periodic. Qed.
Print Assumptions C18_fx_no_dangling_periodic.

Theorem C18_fx_completes : forall tol P, disp_uniform (p_surfs P) -> exists P', dedup_fx tol P = Ok P'.
Proof. exact fx_completes. Qed.
Print Assumptions C18_fx_completes.

(* the witnesses of the refuted theorems under the repaired code: nothing is merged, nothing dangles, the edited
   pointer stays, the call returns; the true duplicates of the example are merged as before *)
Example C18_fx_witnesses :
  scan_fx tol4 (p_surfs w_bc) = Ok ([], []) /\ scan_fx tol4 (p_surfs w_per) = Ok ([], []) /\
  scan_fx tol4 (p_surfs w_rot) = Ok ([], []) /\ scan_fx tol4 (p_surfs w_dangle) = Ok ([2], [(2, 1)]) /\
  dedup_fx tol4 w_revert = Ok w_revert /\ scan_fx tol4 (p_surfs w_index) = Ok ([], []) /\
  scan_fx tol4 (p_surfs ex_prob) = Ok (ex_del, ex_map) /\
  disp_uniform (p_surfs ex_prob) /\ disp_uniform (p_surfs w_index).
Proof. exact fx_witnesses. Qed.
Print Assumptions C18_fx_witnesses.
