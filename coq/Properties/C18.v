(* C18 — duplicate-surface removal never changes any cell's region
   (MCNP_Problem.remove_duplicate_surfaces and what it calls, at /repo HEAD; model: Model/Dedup.v, Part 1).
   Headline theorems only; the proofs are in Proofs/DedupProofs.v.

   Reading guide.  [scan tol surfs = Ok (del, m)]: the first loop of the method ended with the set [to_delete] = del
   and the dict [matching_map] = m (a later match of the same dead surface overwrites the earlier entry, as in the
   code); [dedup tol P = Ok P']: the whole call returned and left the problem P'.
   Hypotheses that appear below, all checked by the harness on every real case before the call:
     wf P           surface numbers are unique                                   (property C06)
     class_ok s     the Python class and the number of constants are the ones the mnemonic fixes (constructors)
     disp_uniform   displacement vectors have the same length                    (always three)
     links P        cell.surfaces covers the leaves of the cell's geometry       (kept by every call: C18_repeatable)
   Until commits d09ab94, f2650a0 and 983bf94 the code failed sentences 2, 5, 6 and 7 below; the witnesses are kept as
   regression lemmas in Proofs/DedupProofs.v (old_*_refuted) and as replays in corpus/C18/. *)
From Coq Require Import List String Ascii ZArith QArith Qabs Bool.
From MPV Require Import Model.Wire Model.Dedup Proofs.DedupProofs.
Import ListNotations.
Local Open Scope Z_scope.

(* ------------------------------------------------------------------ 1. the matching map *)
(* keys of the map = the removed set; every entry d -> s comes from a positive answer of
   s.find_duplicate_surfaces for d: two different members of the problem with the same mnemonic *)
Theorem C18_map_justified : forall tol P del m,
  scan tol (p_surfs P) = Ok (del, m) ->
  (forall n, In n del <-> lookup n m <> None) /\
  (forall d s, lookup d m = Some s ->
     exists sd ss, In sd (p_surfs P) /\ In ss (p_surfs P) /\ s_num sd = d /\ s_num ss = s /\
                   s_num sd <> s_num ss /\ s_type sd = s_type ss /\ candidate tol ss sd = Ok true).
Proof. exact map_justified. Qed.
Print Assumptions C18_map_justified.

(* ------------------------------------------------------------------ 2. only true duplicates are merged *)
(* [true_dup tol a b]: same mnemonic, same reflecting / white flags, transforms both absent or with equal degree and
   direction flags and all entries within tol (an absent rotation being the identity), neither surface periodic *now*
   (the live periodic_surface), same number of constants, all within tol *)
Theorem C18_only_true_duplicates : forall tol P del m,
  wf P -> Forall class_ok (p_surfs P) -> disp_uniform (p_surfs P) ->
  scan tol (p_surfs P) = Ok (del, m) ->
  forall d s sd ss, lookup d m = Some s ->
    In sd (p_surfs P) -> In ss (p_surfs P) -> s_num sd = d -> s_num ss = s -> true_dup tol ss sd.
Proof. exact only_true_duplicates. Qed.
Print Assumptions C18_only_true_duplicates.

(* the test is symmetric on the members of a problem, so no survivor is ever removed itself and none is a key of the
   map: chains a~b~c without a~c need no second pass *)
Theorem C18_survivors_survive : forall tol P del m,
  wf P -> Forall class_ok (p_surfs P) -> disp_uniform (p_surfs P) ->
  scan tol (p_surfs P) = Ok (del, m) ->
  forall d s, lookup d m = Some s -> ~ In s del /\ lookup s m = None.
Proof. exact survivors_survive. Qed.
Print Assumptions C18_survivors_survive.

(* ------------------------------------------------------------------ 3. every cell, structurally *)
(* each cell keeps its number; its geometry is the old tree with leaves renamed by a function that fixes every
   number that is not a key of the map, sends a key to itself or to its map entry, and sends every key that is in
   cell.surfaces to its map entry *)
Theorem C18_cells_structure : forall tol P P' del m,
  scan tol (p_surfs P) = Ok (del, m) -> dedup tol P = Ok P' ->
  Forall2 (fun c c' =>
             c_num c' = c_num c /\
             exists f, (forall n, lookup n m = None -> f n = n) /\
                       (forall n, f n = n \/ lookup n m = Some (f n)) /\
                       (forall n, In n (c_surfs c) -> f n = ren m n) /\
                       c_geom c' = map_leaves f (c_geom c))
          (p_cells P) (p_cells P').
Proof. exact cells_structure. Qed.
Print Assumptions C18_cells_structure.

(* ------------------------------------------------------------------ 4. the region of every cell is unchanged *)
(* operators and senses are those of the old tree, and for every assignment of a side to every surface that gives a
   removed surface and its survivor the same side (and every assignment to complemented cells) the Boolean function
   of each cell is the same before and after; no side condition at all *)
Theorem C18_region : forall tol P P' del m,
  scan tol (p_surfs P) = Ok (del, m) -> dedup tol P = Ok P' ->
  Forall2 (fun c c' =>
             c_num c' = c_num c /\ shape (c_geom c') = shape (c_geom c) /\
             forall es ec, identifies m es -> region es ec (c_geom c') = region es ec (c_geom c))
          (p_cells P) (p_cells P').
Proof. exact region_preserved. Qed.
Print Assumptions C18_region.

(* a cell none of whose leaves is removed is not changed at all *)
Theorem C18_senses : forall tol P P' del m,
  scan tol (p_surfs P) = Ok (del, m) -> dedup tol P = Ok P' ->
  Forall2 (fun c c' =>
             shape (c_geom c') = shape (c_geom c) /\
             ((forall n, In n (leaf_surfs (c_geom c)) -> ~ In n del) -> c_geom c' = c_geom c))
          (p_cells P) (p_cells P').
Proof. exact senses_preserved. Qed.
Print Assumptions C18_senses.

(* ------------------------------------------------------------------ 5. surfaces that are not duplicates are untouched *)
(* the collection after the call is the old one without the removed members, in the old order; a surviving surface
   is the very same record unless its periodic partner was merged away, in which case only its periodic pointer
   moved, to the partner's survivor *)
Theorem C18_surfaces : forall tol P P' del m,
  wf P -> scan tol (p_surfs P) = Ok (del, m) -> dedup tol P = Ok P' ->
  p_surfs P' = filter (fun s => negb (memZ (s_num s) del)) (map (repoint_periodic m) (p_surfs P)) /\
  (forall s, s_perptr s = 0 \/ lookup (s_perptr s) m = None -> repoint_periodic m s = s) /\
  map s_num (p_surfs P') = filter (fun n => negb (memZ n del)) (map s_num (p_surfs P)).
Proof. exact surfaces_after_call. Qed.
Print Assumptions C18_surfaces.

Theorem C18_removed_are_gone : forall tol P P' del m,
  wf P -> scan tol (p_surfs P) = Ok (del, m) -> dedup tol P = Ok P' ->
  forall s', In s' (p_surfs P') -> ~ In (s_num s') del.
Proof. exact removed_are_gone. Qed.
Print Assumptions C18_removed_are_gone.

(* ------------------------------------------------------------------ 6. no reference to a removed surface remains *)
Theorem C18_no_dangling_leaf : forall tol P P' del m,
  wf P -> links P -> Forall class_ok (p_surfs P) -> disp_uniform (p_surfs P) ->
  scan tol (p_surfs P) = Ok (del, m) -> dedup tol P = Ok P' ->
  links P' /\
  forall c', In c' (p_cells P') -> forall n, In n (leaf_surfs (c_geom c')) -> ~ In n del.
Proof. exact no_dangling_leaf. Qed.
Print Assumptions C18_no_dangling_leaf.

Theorem C18_no_dangling_periodic : forall tol P P' del m,
  wf P -> Forall class_ok (p_surfs P) -> disp_uniform (p_surfs P) ->
  (forall s, In s (p_surfs P) -> s_perptr s = 0 \/ In (s_perptr s) (map s_num (p_surfs P))) ->
  scan tol (p_surfs P) = Ok (del, m) -> dedup tol P = Ok P' ->
  forall s', In s' (p_surfs P') -> s_perptr s' = 0 \/ In (s_perptr s') (map s_num (p_surfs P')).
Proof. exact no_dangling_periodic. Qed.
Print Assumptions C18_no_dangling_periodic.

(* every hypothesis used above holds again for the problem the call leaves: it can be repeated (with another
   tolerance) and all of the above applies to the second call *)
Theorem C18_repeatable : forall tol P P' del m,
  wf P -> links P -> Forall class_ok (p_surfs P) -> disp_uniform (p_surfs P) ->
  scan tol (p_surfs P) = Ok (del, m) -> dedup tol P = Ok P' ->
  wf P' /\ links P' /\ Forall class_ok (p_surfs P') /\ disp_uniform (p_surfs P').
Proof. exact invariants_kept. Qed.
Print Assumptions C18_repeatable.

(* ------------------------------------------------------------------ 7. the call returns *)
Theorem C18_completes : forall tol P, disp_uniform (p_surfs P) -> exists P', dedup tol P = Ok P'.
Proof. exact dedup_completes. Qed.
Print Assumptions C18_completes.

(* ------------------------------------------------------------------ non-vacuity *)
(* the example problem (12 surfaces: the chain 1~2~3 without 1~3, exact duplicates, look-alike transforms, c/z family,
   never-merged SO pair; 4 cells sharing them) satisfies every hypothesis, and the call does something on it:
   the entry 2 -> 1 is overwritten by 2 -> 3 *)
Example C18_hypotheses_nonvacuous :
  wf ex_prob /\ links ex_prob /\ Forall class_ok (p_surfs ex_prob) /\ disp_uniform (p_surfs ex_prob) /\
  (forall s, In s (p_surfs ex_prob) -> s_perptr s = 0 \/ In (s_perptr s) (map s_num (p_surfs ex_prob))) /\
  scan tol4 (p_surfs ex_prob) = Ok ([2; 5; 9; 11], [(2, 3); (5, 4); (9, 8); (11, 10)]).
Proof.
  exact (conj ex_wf (conj ex_links (conj ex_class_ok (conj ex_disp_uniform (conj ex_perptr ex_scan_head))))).
Qed.
Print Assumptions C18_hypotheses_nonvacuous.

Example C18_region_nonvacuous :
  (dedup tol4 ex_prob = Ok ex_after_head /\
   map s_num (p_surfs ex_after_head) = [1; 3; 4; 6; 7; 8; 10; 12] /\ p_cells ex_after_head = ex_after_cells_head /\
   map (fun c => region ex_es (fun _ => false) (c_geom c)) ex_after_cells_head = [true; false; true; false]) /\
  identifies ex_map ex_es /\
  map (fun c => region ex_es (fun _ => false) (c_geom c)) ex_cells = [true; false; true; false].
Proof. exact (conj ex_dedup_head (conj ex_identifies (proj1 ex_regions))). Qed.
Print Assumptions C18_region_nonvacuous.

(* the inputs on which the code failed before the three commits, now: nothing wrong is merged (boundary condition,
   periodic, rotated transform), the asymmetric chain merges only the true duplicate, an edited pointer stays, rotation
   matrices of different length raise nothing *)
Example C18_repaired_witnesses :
  scan tol4 (p_surfs w_bc) = Ok ([], []) /\ scan tol4 (p_surfs w_per) = Ok ([], []) /\
  scan tol4 (p_surfs w_rot) = Ok ([], []) /\ scan tol4 (p_surfs w_dangle) = Ok ([2], [(2, 1)]) /\
  dedup tol4 w_revert = Ok w_revert /\ scan tol4 (p_surfs w_index) = Ok ([], []) /\
  scan tol4 (p_surfs ex_prob) = Ok (ex_del, ex_map) /\
  disp_uniform (p_surfs ex_prob) /\ disp_uniform (p_surfs w_index).
Proof. exact repaired_witnesses. Qed.
Print Assumptions C18_repaired_witnesses.
