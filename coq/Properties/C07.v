(* C07 — untouched inputs and tokens are written verbatim; edits stay local.  Headline theorems only. *)
From Coq Require Import List String.
From MPV Require Import Model.Tree Proofs.TreeProofs.
Import ListNotations.
Open Scope string_scope.

(* an input none of whose leaves was edited is written verbatim *)
Theorem C07_untouched_verbatim : forall n,
  unedited n = true -> as_parsed n = true -> fst (format n) = flatten n.
Proof. exact format_unchanged. Qed.
Print Assumptions C07_untouched_verbatim.

(* editing one leaf changes only that leaf's text: everything written before it (pre) and after it
   (post) is byte-identical; [old] is what the leaf contributed before *)
Theorem C07_edit_local : forall path n r tok pad np hv ed,
  leaf_at path n = Some (NV tok pad np hv ed) ->
  exists pre post old,
    fst (format n) = pre ++ old ++ post
    /\ fst (format (set_leaf path r n)) = pre ++ r ++ post
    /\ old_text old tok pad np hv ed.
Proof. exact edit_local. Qed.
Print Assumptions C07_edit_local.

Theorem C07_edit_local_padded : forall path n r tok pad np ed,
  leaf_at path n = Some (NV tok pad np true ed) ->
  (pad <> None \/ np = true) ->
  exists pre post,
    fst (format n) = pre ++ fmt_leaf tok pad ed ++ post
    /\ fst (format (set_leaf path r n)) = pre ++ r ++ post.
Proof. exact edit_local_padded. Qed.
Print Assumptions C07_edit_local_padded.

(* every other leaf of the tree is untouched by the edit *)
Theorem C07_other_leaves_untouched : forall p q n r l,
  p <> q -> leaf_at q n = Some l -> leaf_at p n <> None ->
  leaf_at q (set_leaf p r n) = Some l.
Proof. exact edit_other_leaves. Qed.
Print Assumptions C07_other_leaves_untouched.

Example C07_nonvacuous :
  fst (format (set_leaf [1] "7 " ex_tree)) = "10 7 1 2 3 $ c1 2r" /\
  fst (format (set_leaf [2; 0] "1.5" ex_tree)) = "10 1.5 2 3 $ c1 2r".
Proof. exact ex_edit. Qed.
Print Assumptions C07_nonvacuous.
