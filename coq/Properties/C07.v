(* C07 — untouched inputs and tokens are written verbatim; edits stay local.  Headline theorems only (proofs:
   Proofs/TreeProofs.v). *)
From Coq Require Import List String.
From MPV Require Import Model.Tree Proofs.TreeProofs.
Import ListNotations.
Open Scope string_scope.

(* an input none of whose leaves was edited is written verbatim *)
Theorem C07_untouched_verbatim : forall n,
  unedited n = true -> as_parsed n = true -> fst (format n) = flatten n.
Proof. exact format_unchanged. Qed.
Print Assumptions C07_untouched_verbatim.

(* editing one leaf changes only that leaf's text: everything written before it (pre) and after it
   (post) is byte-identical *)
Theorem C07_edit_local : forall path n r tok pad np hv ed vl,
  leaf_at path n = Some (NV tok pad np hv ed vl) ->
  exists pre post old new,
    fst (format n) = pre ++ old ++ post
    /\ fst (format (set_leaf path r n)) = pre ++ new ++ post
    /\ old_text old tok pad np hv ed vl
    /\ new_text new r tok pad np vl.
Proof. exact edit_local. Qed.
Print Assumptions C07_edit_local.

(* a printed leaf with padding of its own: exactly its own text is replaced by the new rendering in its field *)
Theorem C07_edit_local_padded : forall path n r tok pd np ed vl,
  leaf_at path n = Some (NV tok (Some pd) np true ed vl) ->
  exists pre post,
    fst (format n) = pre ++ fmt_leaf tok (Some pd) true ed vl ++ post
    /\ fst (format (set_leaf path r n)) = pre ++ fmt_changed r (eff_vlen tok (Some pd) vl) (Some pd) ++ post.
Proof. exact edit_local_padded. Qed.
Print Assumptions C07_edit_local_padded.

(* every other leaf of the tree is untouched by the edit, and by a whole program of edits *)
Theorem C07_other_leaves_untouched : forall p q n r l,
  p <> q -> leaf_at q n = Some l -> leaf_at q (set_leaf p r n) = Some l.
Proof. exact edit_other_leaves. Qed.
Print Assumptions C07_other_leaves_untouched.

Theorem C07_program_other_leaves_untouched : forall es q n,
  (forall e, In e es -> fst e <> q) -> leaf_at q (apply_edits es n) = leaf_at q n.
Proof. exact edits_other_paths. Qed.
Print Assumptions C07_program_other_leaves_untouched.

(* lifted to the problem (a list of inputs): an input that no edit of the program names is written with the text
   of the unedited write, at the same position, and no input appears or disappears *)
Theorem C07_untouched_cards_verbatim : forall es cards j,
  (forall e, In e es -> fst (fst e) <> j) ->
  nth_error (format_all (apply_card_edits es cards)) j = nth_error (format_all cards) j.
Proof. exact untouched_cards_verbatim. Qed.
Print Assumptions C07_untouched_cards_verbatim.

Theorem C07_untouched_cards_as_read : forall es cards j c,
  (forall e, In e es -> fst (fst e) <> j) ->
  nth_error cards j = Some c -> unedited c = true -> as_parsed c = true ->
  nth_error (format_all (apply_card_edits es cards)) j = Some (flatten c).
Proof. exact untouched_cards_as_read. Qed.
Print Assumptions C07_untouched_cards_as_read.

Theorem C07_cards_count_kept : forall es cards, List.length (apply_card_edits es cards) = List.length cards.
Proof. exact cards_count_kept. Qed.
Print Assumptions C07_cards_count_kept.

Example C07_nonvacuous :
  fst (format (set_leaf [1] "7" ex_tree)) = "10 7 imp:n,p=1 2.50  3 2r 3 $ c" ++ nl /\
  fst (format (set_leaf [3; 2] "9" ex_tree)) = "10 imp:n,p=1 9     3 2r 3 $ c" ++ nl /\
  fst (format (set_leaf [3; 2] "2.123456" ex_tree)) = "10 imp:n,p=1 2.123456 3 2r 3 $ c" ++ nl.
Proof. exact ex_edit. Qed.
Print Assumptions C07_nonvacuous.

(* three cards, the second edited twice: the first and third are written as read *)
Example C07_cards_nonvacuous :
  nth_error (format_all (apply_card_edits [(1, [3; 2], "9"); (1, [3; 2], "8")] ex_cards)) 0 = Some (flatten ex_tree) /\
  nth_error (format_all (apply_card_edits [(1, [3; 2], "9"); (1, [3; 2], "8")] ex_cards)) 2 = Some "nps 10" /\
  nth_error (format_all (apply_card_edits [(1, [3; 2], "9"); (1, [3; 2], "8")] ex_cards)) 1
    = Some ("10 imp:n,p=1 8     3 2r 3 $ c" ++ nl).
Proof. exact ex_cards_edit. Qed.
Print Assumptions C07_cards_nonvacuous.
