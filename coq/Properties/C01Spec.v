(* C01Spec — MontePy's line reader against MCNP's own card rules (DESIGN.md 6, C01: C01_split_agrees; also C11).
   Headline theorems only; proofs in Proofs/SpecProofs.v.

   Spec/Cards.v      MCNP's rules S1-S9, executable, written without any MontePy concept:
                     Cards.read w bytes = message lines, title, per block the ordered cards (data words, comment texts).
   Model/Lines.v     the model of MontePy's reader (MCNP_InputFile iteration and _clean_line, read_front_matters,
                     read_data as of /repo bd4067d, is_comment, str.expandtabs), tied to the real code by the C11 check:
                     read_lines w (split_lines bytes) = (title, [(block type, words of the input)], error).
   Model/SpecWire.v  wf_file: the executable well-formedness predicate (clauses F0-F2, D1-D4, B1, listed there).
   montepy_view p    = (title of p without trailing blanks, the cards of p in file order as (block number, words), no error)
                     the projection of a problem read by the rules onto what read_lines observes.          *)
From Coq Require Import List String Ascii Arith Bool QArith.
From MPV Require Import Model.Wire Model.Lines Proofs.LinesProofs Proofs.SpecProofs.
From MPV Require Spec.Cards Model.SpecWire.
Import ListNotations.
Close Scope Q_scope.
Open Scope string_scope.

(* 1. On every well-formed file, of any length, MontePy's reader yields exactly the title and the cards (block, data
      words, in order) that MCNP's rules S1-S7 prescribe, and no error.  Induction over the lines of the file. *)
Theorem C01_split_agrees : forall w bytes, SpecWire.wf_file w bytes = true ->
  read_lines w (split_lines bytes) = montepy_view (Cards.read w bytes).
Proof. exact split_agrees. Qed.
Print Assumptions C01_split_agrees.

(* non-vacuity: a file with a message block, CR LF, tabs, a byte >= 127, comment lines, '$' comments, both kinds of
   continuation, three blocks and text after the data block is well-formed for both widths; what is read from it *)
Example C01_split_agrees_nonvacuous :
  SpecWire.wf_file 80 ex_file_lf = true /\ SpecWire.wf_file 128 ex_file_lf = true /\
  read_lines 80 (split_lines ex_file_lf) = ex_view /\ montepy_view (Cards.read 80 ex_file_lf) = ex_view /\
  ex_view = (Some "a title",
             [(0, ["1"; "0"; "-1"; "imp:n=1"; "vol=2"]); (0, ["2"; "0"; "1"; "c"; "5"]); (1, ["1"; "so"; "1"]);
              (2, ["mode"; "n"])], None).
Proof.
  destruct ex_wf as [H1 H2]. destruct ex_reads as (H3 & H4 & _). repeat split; assumption || reflexivity.
Qed.
Print Assumptions C01_split_agrees_nonvacuous.

(* text beyond the column limit is covered (w = 10 here): a '$' comment running on, a word cut by the limit, a
   blank-only line longer than the limit, a continuation mark hidden by the limit *)
Example C01_split_agrees_beyond_limit :
  SpecWire.wf_file 10 ex_long = true /\
  read_lines 10 (split_lines ex_long)
  = (Some "t", [(0, ["1"; "0"; "-1"; "2"; "345"]); (0, ["3"; "0"; "1"; "4"; "0"; "3"]);
                (1, ["1"; "so"; "1"; "ab"]); (1, ["2"; "so"; "2"])], None).
Proof.
  destruct ex_long_reads as [H1 H2]. split; [exact H1|]. rewrite (C01_split_agrees 10 ex_long H1). exact H2.
Qed.
Print Assumptions C01_split_agrees_beyond_limit.

(* the cards of that file with their comment texts, and its message block, as the rules give them *)
Example C01_spec_cards_example :
  Cards.cards (Cards.read 80 ex_file_lf)
  = [[Cards.mkCard ["1"; "0"; "-1"; "imp:n=1"; "vol=2"] ["cells"; "inner"; "in between"];
      Cards.mkCard ["2"; "0"; "1"; "c"; "5"] []];
     [Cards.mkCard ["1"; "so"; "1"] ["sphere &"; ""]];
     [Cards.mkCard ["mode"; "n"] []]] /\
  Cards.message (Cards.read 80 ex_file_lf) = Some ["message: outp=x"].
Proof. destruct ex_reads as (_ & _ & H). exact H. Qed.
Print Assumptions C01_spec_cards_example.

(* 1b. Comment texts.  Every line the reader stores lands in exactly one input (H_lines_conserved); read by rules
       S5 / S6, the comment texts of the stored lines of the inputs of a block are, in file order, exactly the comment
       texts of the cards of that block (C comment lines and '$' comments, stripped).  Which card of the block a
       comment line between two cards is listed with differs by convention (MontePy keeps the line with the input
       before it, Spec/Cards.v lists it with the card after it; lines before the first card of a block go with that
       card on both sides, lines after the last one with the last), so the statement is per block, not per card.
         mp_comments ins     = [(block type of the input, comment text) ...] over the stored lines of the inputs
         spec_comments p     = [(block number, comment text) ...] over the cards of p *)
Theorem C01_comments_agree : forall w bytes, SpecWire.wf_file w bytes = true ->
  mp_comments (read_inputs w (split_lines bytes)) = spec_comments (Cards.read w bytes).
Proof. exact comments_agree. Qed.
Print Assumptions C01_comments_agree.

Example C01_comments_agree_nonvacuous :
  SpecWire.wf_file 80 ex_file_lf = true /\
  mp_comments (read_inputs 80 (split_lines ex_file_lf))
  = [(0, "cells"); (0, "inner"); (0, "in between"); (1, "sphere &"); (1, "")] /\
  map (fun i => (i_bt i, i_lines i)) (read_inputs 80 (split_lines ex_file_lf))
  = [(0, ["c cells"; "1 0     -1 $ inner"; "     imp:n=1 &"; "  C in between"; "vol=2"]);
     (0, ["  2 0 1"; "      c 5"]);
     (1, ["1 so 1 $ sphere &"; "c"]);
     (2, ["mode n"])].
Proof. destruct ex_wf as [H _]. destruct ex_comments as [A B]. repeat split; assumption. Qed.
Print Assumptions C01_comments_agree_nonvacuous.

(* 2. Without the predicate the statement is false, already on files of printable lines within the limit that end
      in LF: "1 0 -1 & $ x" / "imp:n=1" is one card by S6 + S7 and two inputs for MontePy. *)
Theorem C01_split_agrees_refuted : exists w bytes, plain_file w bytes = true /\
  read_lines w (split_lines bytes) <> montepy_view (Cards.read w bytes).
Proof. exact split_agrees_refuted. Qed.
Print Assumptions C01_split_agrees_refuted.

(* 3. the four deviations of the reader from the rules on files MCNP's format allows, each with what is read:
      (a) "& $ text" is not a continuation for MontePy (clause D2);
      (b) a block of comment lines only becomes an input without data (B1);
      (c) a line that is blank within the column limit but has text beyond it does not end the block (F1; w = 10);
      (d) an unterminated last line "  c" (empty comment, c in columns 2-5) starts an input (F0). *)
Theorem C01_split_deviations :
  (plain_file 80 wit_amp_dollar = true /\
   read_lines 80 (split_lines wit_amp_dollar) = (Some "t", [(0, ["1"; "0"; "-1"]); (0, ["imp:n=1"])], None) /\
   montepy_view (Cards.read 80 wit_amp_dollar) = (Some "t", [(0, ["1"; "0"; "-1"; "imp:n=1"])], None)) /\
  (plain_file 80 wit_comment_block = true /\
   read_lines 80 (split_lines wit_comment_block)
     = (Some "t", [(0, ["1"; "0"; "-1"]); (1, ["1"; "so"; "1"]); (2, [])], None) /\
   montepy_view (Cards.read 80 wit_comment_block) = (Some "t", [(0, ["1"; "0"; "-1"]); (1, ["1"; "so"; "1"])], None)) /\
  (read_lines 10 (split_lines wit_beyond_limit) = (Some "t", [(0, ["1"; "0"; "-1"]); (0, ["1"; "so"; "1"])], None) /\
   montepy_view (Cards.read 10 wit_beyond_limit) = (Some "t", [(0, ["1"; "0"; "-1"]); (1, ["1"; "so"; "1"])], None)) /\
  (read_lines 80 (split_lines wit_unterminated) = (Some "t", [(0, ["1"; "0"; "-1"]); (0, [])], None) /\
   montepy_view (Cards.read 80 wit_unterminated) = (Some "t", [(0, ["1"; "0"; "-1"])], None)).
Proof.
  destruct wit_amp_dollar_refutes as (A1 & _ & A2 & A3).
  destruct wit_comment_block_refutes as (B1 & _ & B2 & B3).
  destruct wit_beyond_limit_refutes as (_ & C2 & C3).
  destruct wit_unterminated_refutes as (_ & D2 & D3).
  repeat split; assumption.
Qed.
Print Assumptions C01_split_deviations.

(* 4. every clause of the predicate is needed: one file per clause on which the two sides differ (the four above,
      and: first data line of a block beyond column 5, a lone '&' inside the data, a tab in the title, vertical
      format), none of them well-formed *)
Theorem C01_split_clauses_needed :
  disagrees 80 wit_late_c /\ disagrees 80 wit_lone_amp /\ disagrees 80 wit_title_tab /\ disagrees 80 wit_vertical /\
  SpecWire.wf_file 80 wit_late_c = false /\ SpecWire.wf_file 80 wit_lone_amp = false /\
  SpecWire.wf_file 80 wit_title_tab = false /\ SpecWire.wf_file 80 wit_vertical = false /\
  SpecWire.wf_file 80 wit_amp_dollar = false /\ SpecWire.wf_file 80 wit_comment_block = false /\
  SpecWire.wf_file 10 wit_beyond_limit = false /\ SpecWire.wf_file 80 wit_unterminated = false.
Proof. exact wit_clauses. Qed.
Print Assumptions C01_split_clauses_needed.

(* 5. the pieces of the rules against the functions of the model, for every string (used by 1.):
      S1 tabs, S5 comment lines, S6 '$', words, the continuation mark *)
Theorem C01_spec_pieces : forall x,
  Cards.expand_tabs 0 x = spec_expand_from 0 x /\
  Cards.is_comment_line x = spec_comment x /\
  fst (Cards.split_dollar x) = spec_data x /\
  Cards.words x = words x /\
  (ends_with amp2 x = true <-> exists d, Cards.continuation_mark x = Some d /\ x = d ++ amp2).
Proof.
  intros x. repeat split.
  - apply A_expand_tabs.
  - apply A_comment.
  - apply A_split_dollar_fst.
  - apply A_words.
  - intros H. rewrite A_mark_ends in H. destruct (Cards.continuation_mark x) as [d|] eqn:E; [|discriminate].
    exists d. split; [reflexivity|]. apply A_mark_shape. exact E.
  - intros (d & E & _). rewrite A_mark_ends, E. reflexivity.
Qed.
Print Assumptions C01_spec_pieces.

(* 6. S9 / S8: examples of the number and token rules *)
Example C01_spec_numbers :
  Qeqb_opt (Cards.read_number "1.5+3") (Some (Qmake 1500 1)) = true /\
  Qeqb_opt (Cards.read_number "-1.5E-3") (Some (Qmake (-3) 2000)) = true /\
  Qeqb_opt (Cards.read_number ".5") (Some (Qmake 1 2)) = true /\
  Cards.read_number "1.5e" = None /\ Cards.read_number "2r" = None /\
  Cards.tokens (Cards.mkCard ["imp:n=1"; "Fill=3"] []) = ["IMP:N"; "1"; "FILL"; "3"].
Proof. repeat split; vm_compute; reflexivity. Qed.
Print Assumptions C01_spec_numbers.
