(* C03 — valid edits are written exactly and nothing else changes.  Headline theorems only (proofs:
   Proofs/TreeProofs.v).  How a new NUMBER is spelled is C05's theorem (Model/Num.v); which leaf a setter writes is
   tied by correspondence and search (harness/props/_rtcommon.py, harness/rt.py). *)
From Coq Require Import List String.
From MPV Require Import Model.Tree Proofs.TreeProofs.
Import ListNotations.
Open Scope string_scope.

(* one edit: the text before and after the leaf is byte-identical; [old] is what the leaf contributed before,
   [new] is the new rendering r in the leaf's field (ValueNode.format's width / blank logic) *)
Theorem C03_edit_written : forall path n r tok pad np hv ed vl,
  leaf_at path n = Some (NV tok pad np hv ed vl) ->
  exists pre post old new,
    fst (format n) = pre ++ old ++ post
    /\ fst (format (set_leaf path r n)) = pre ++ new ++ post
    /\ old_text old tok pad np hv ed vl
    /\ new_text new r tok pad np vl.
Proof. exact edit_local. Qed.
Print Assumptions C03_edit_written.

(* "each edited quantity carries its new value": that new text starts with the new rendering *)
Theorem C03_new_value_visible : forall new r tok pad np vl,
  new_text new r tok pad np vl -> exists tail, new = r ++ tail.
Proof. exact new_text_prefix. Qed.
Print Assumptions C03_new_value_visible.

(* one edit does not change what is found at any other path *)
Theorem C03_other_quantities_keep_value : forall p q n r l,
  p <> q -> leaf_at q n = Some l -> leaf_at q (set_leaf p r n) = Some l.
Proof. exact edit_other_leaves. Qed.
Print Assumptions C03_other_quantities_keep_value.

(* a SEQUENCE of edits (any length, any order, repeated edits of the same quantity): every leaf that no edit
   names is as it was (induction on the program) ... *)
Theorem C03_edit_sequence_others : forall es q n,
  (forall e, In e es -> fst e <> q) -> leaf_at q (apply_edits es n) = leaf_at q n.
Proof. exact edits_other_paths. Qed.
Print Assumptions C03_edit_sequence_others.

(* ... and a named leaf carries the rendering of the LAST edit that names it *)
Theorem C03_edit_sequence_last_wins : forall es1 es2 p r n l,
  leaf_at p n = Some l -> (forall e, In e es2 -> fst e <> p) ->
  exists l', leaf_at p (apply_edits (es1 ++ (p, r) :: es2) n) = Some l' /\ leaf_edit l' = Some r.
Proof. exact edits_last_wins. Qed.
Print Assumptions C03_edit_sequence_last_wins.

(* per-particle importance: the particles of one entry 'imp:n,p=1' share ONE tree in the source; setting one
   (Importance.__setitem__ with _unshare_tree, 11534b6) leaves every other particle's importance as it was ... *)
Theorem C03_importance_independent : forall st p q v,
  owner_in_range st -> q <> p -> imp_get (imp_set st p v) q = imp_get st q.
Proof. exact imp_independent. Qed.
Print Assumptions C03_importance_independent.

(* ... and gives p the new value *)
Theorem C03_importance_set : forall st p v i t,
  lookup p (owner st) = Some i -> nth_error (trees st) i = Some t ->
  imp_get (imp_set st p v) p = Some v.
Proof. exact imp_set_get. Qed.
Print Assumptions C03_importance_set.

(* at the level of what is WRITTEN ('imp:<particles>=<value>' per tree, in the order of the object's dict): the
   written parameters say for every particle exactly what the object holds ... *)
Theorem C03_importance_written_is_held : forall st p, imp_wf st -> imp_denote (imp_written st) p = imp_get st p.
Proof. exact imp_written_denotes. Qed.
Print Assumptions C03_importance_written_is_held.

(* ... the setter keeps the object well formed (every particle in exactly one tree, which lists it) ... *)
Theorem C03_importance_wf_kept : forall st p v, imp_wf st -> imp_wf (imp_set st p v).
Proof. exact imp_set_wf. Qed.
Print Assumptions C03_importance_wf_kept.

(* ... so after setting p the written file says v for p and, for every other particle (also those of p's former
   shared entry), what it said before *)
Theorem C03_importance_written_after_set : forall st p v q i,
  imp_wf st -> lookup p (owner st) = Some i ->
  imp_denote (imp_written (imp_set st p v)) q =
    if String.eqb q p then Some v else imp_denote (imp_written st) q.
Proof. exact imp_written_after_set. Qed.
Print Assumptions C03_importance_written_after_set.

(* the setter before 11534b6 wrote into the shared tree: independence was false (witness: imp:n,p=1, n := 2) *)
Theorem C03_importance_shared_old_refuted :
  exists st p q v, q <> p /\ imp_wf st /\ imp_get (imp_set_old st p v) q <> imp_get st q.
Proof. exact imp_old_shared_refuted. Qed.
Print Assumptions C03_importance_shared_old_refuted.

(* non-vacuity: leaves exist, edits change the text as stated, the shared importance entry is split *)
Example C03_nonvacuous :
  fst (format (set_leaf [1] "7" ex_tree)) = "10 7 imp:n,p=1 2.50  3 2r 3 $ c" ++ nl /\
  fst (format (set_leaf [3; 2] "9" ex_tree)) = "10 imp:n,p=1 9     3 2r 3 $ c" ++ nl /\
  fst (format (set_leaf [3; 2] "2.123456" ex_tree)) = "10 imp:n,p=1 2.123456 3 2r 3 $ c" ++ nl.
Proof. exact ex_edit. Qed.
Print Assumptions C03_nonvacuous.

Example C03_importance_nonvacuous :
  imp_wf ex_imp /\ owner_in_range ex_imp /\
  imp_get (imp_set ex_imp "n" "2") "p" = Some "1" /\ imp_get (imp_set ex_imp "n" "2") "n" = Some "2"
  /\ map it_parts (imp_written (imp_set ex_imp "n" "2")) = [["n"]; ["p"]; ["e"]]
  /\ map it_value (imp_written (imp_set ex_imp "n" "2")) = ["2"; "1"; "0"].
Proof.
  split; [exact ex_imp_wf|]. split; [apply imp_wf_in_range; exact ex_imp_wf|]. exact ex_imp_set.
Qed.
Print Assumptions C03_importance_nonvacuous.
