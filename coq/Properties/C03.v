(* C03 — valid edits are written exactly and nothing else changes (tree layer).  Headline theorems only.
   The exactness of the rendering of a new value is C05's theorem; which leaf a setter writes is tied by
   correspondence (harness/props/C03.py). *)
From Coq Require Import List String.
From MPV Require Import Model.Tree Proofs.TreeProofs.
Import ListNotations.
Open Scope string_scope.

(* the edited leaf carries its new rendering r, and the rest of the input's text is unchanged *)
Theorem C03_edit_written : forall path n r tok pad np hv ed,
  leaf_at path n = Some (NV tok pad np hv ed) ->
  exists pre post old,
    fst (format n) = pre ++ old ++ post
    /\ fst (format (set_leaf path r n)) = pre ++ r ++ post
    /\ old_text old tok pad np hv ed.
Proof. exact edit_local. Qed.
Print Assumptions C03_edit_written.

(* a sequence of edits: a leaf that is not named by an edit keeps its content *)
Theorem C03_other_quantities_keep_value : forall p q n r l,
  p <> q -> leaf_at q n = Some l -> leaf_at p n <> None ->
  leaf_at q (set_leaf p r n) = Some l.
Proof. exact edit_other_leaves. Qed.
Print Assumptions C03_other_quantities_keep_value.

Example C03_nonvacuous :
  fst (format (set_leaf [1] "7 " ex_tree)) = "10 7 1 2 3 $ c1 2r" /\
  fst (format (set_leaf [2; 0] "1.5" ex_tree)) = "10 1.5 2 3 $ c1 2r".
Proof. exact ex_edit. Qed.
Print Assumptions C03_nonvacuous.
