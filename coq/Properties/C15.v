(* C15 — write_to_file never destroys or half-writes the destination.
   Headline theorems only.  The general statements (for ANY step list passing the reflective
   conditions of Model/Write.v) are proved in Proofs/WriteProofs.v; here they are instantiated on
   [write_steps], the step list that harness/translate_writer.py regenerates from the source of
   MCNP_Problem.write_to_file and MCNP_InputFile.open/__exit__ on every run (Gen/Writer.v).
   The C15_gen_* obligations are decided by vm_compute on that generated list: a change of the
   source that e.g. opens the destination directly again, replaces it unconditionally, forgets to
   remove the temporary, or writes the terminating blank line before the child cards makes the
   corresponding obligation fail to compile.

   Status on the current source (with the try/finally clean-up in MCNP_InputFile.__exit__, /repo 2103e4e,
   and the right-stripping of every written line, /repo 7b99f67):
     C15_guards, C15_atomic, C15_atomic_any_adversary, C15_success, C15_no_leftover, C15_frame   all full
     ("leaves no truncated or partial file" read as "no stray temporary either"; the only crash point
     that can leave one is a failing os.remove of the temporary itself, which nothing can clean up after). *)
From Coq Require Import List String Ascii Bool.
From MPV Require Import Model.Wire Model.Write Proofs.WriteProofs Gen.Writer.
Import ListNotations.
Open Scope string_scope.

(* ---------------------------------------------------------------- obligations on the generated step list *)
(* the text sent to the extracted model denotes the same step list *)
Theorem C15_gen_wire : parse_writer write_steps_wire = Some write_steps.
Proof. vm_compute. reflexivity. Qed.
Print Assumptions C15_gen_wire.

Theorem C15_gen_guards_first : guards_first write_steps = true.
Proof. vm_compute. reflexivity. Qed.
Print Assumptions C15_gen_guards_first.

(* no step opens or removes the destination; os.replace only in __exit__ and only when nothing is
   propagating; after the with block only the warning hand-over *)
Theorem C15_gen_writes_go_to_temp_then_replace :
  dest_only_written_by_replace write_steps = true /\ replace_only_on_success write_steps = true /\
  post_only_warnings write_steps = true.
Proof. vm_compute. auto. Qed.
Print Assumptions C15_gen_writes_go_to_temp_then_replace.

Theorem C15_gen_opens_temp_after_guards : opens_temp_after_guards write_steps = true.
Proof. vm_compute. reflexivity. Qed.
Print Assumptions C15_gen_opens_temp_after_guards.

Theorem C15_gen_temp_removed_on_failure : temp_removed_on_failure write_steps = true.
Proof. vm_compute. reflexivity. Qed.
Print Assumptions C15_gen_temp_removed_on_failure.

Theorem C15_gen_body_blocks_in_order : body_blocks_in_order write_steps = true.
Proof. vm_compute. reflexivity. Qed.
Print Assumptions C15_gen_body_blocks_in_order.

(* every line is right-stripped when it is written: the complete file is [spec_render] = spec_render_r true *)
Theorem C15_gen_lines_rstripped : w_strips write_steps = true.
Proof. vm_compute. reflexivity. Qed.
Print Assumptions C15_gen_lines_rstripped.

(* also serves C09: the cards made from the cells are inside the data block *)
Theorem C15_gen_children_before_terminator : children_before_terminator write_steps = true.
Proof. vm_compute. reflexivity. Qed.
Print Assumptions C15_gen_children_before_terminator.

Theorem C15_gen_temp_name_distinct : temp_name_distinct write_steps = true.
Proof. vm_compute. reflexivity. Qed.
Print Assumptions C15_gen_temp_name_distinct.

Theorem C15_gen_writer_ok : writer_ok write_steps = true.
Proof. vm_compute. reflexivity. Qed.
Print Assumptions C15_gen_writer_ok.

(* __exit__ is the try/finally one: the temporary is also removed when the close or the move raises *)
Theorem C15_gen_cleanup_total : cleanup_total write_steps = true.
Proof. vm_compute. reflexivity. Qed.
Print Assumptions C15_gen_cleanup_total.

(* ---------------------------------------------------------------- headline theorems *)
Definition tmp (pid d : string) : path := tmp_of write_steps pid d.

(* the temporary is never the destination *)
Theorem C15_temp_is_not_dest : forall pid d, tmp pid d <> d.
Proof. exact (tmp_of_ne write_steps C15_gen_writer_ok). Qed.
Print Assumptions C15_temp_is_not_dest.

(* 1. a directory is never written to; an existing file is replaced only with overwrite=True;
      in both cases the file system is returned untouched — whatever the adversary *)
Theorem C15_guards : forall f pid d ov p adv,
  (f d = Dir ->
     run_writer write_steps (mkenv d (tmp pid d) ov p adv) f = (f, Err IsADirectoryError)) /\
  (forall c, f d = File c -> ov = false ->
     run_writer write_steps (mkenv d (tmp pid d) ov p adv) f = (f, Err FileExistsError)).
Proof. exact (headline_guards write_steps C15_gen_writer_ok). Qed.
Print Assumptions C15_guards.

(* 2. every crash point k (format call i — raising an ordinary exception or a Warning subclass —, write call j, child-card formatting, open, close,
      replace, remove, the warning hand-over), every problem (also with objects that raise by
      themselves), every prior state: when write_to_file raises, the destination is exactly as
      before (only a failing warning hand-over, which comes after the move, leaves the complete
      file); no path other than the temporary is touched; the temporary is gone unless it was
      os.remove of the temporary itself that failed *)
Theorem C15_atomic : forall f pid d ov p k f' e,
  f (tmp pid d) = Absent ->
  write_with_failure_at k write_steps d (tmp pid d) ov p f = (f', Err e) ->
  (f' d = f d \/ (k = FPost /\ f' d = File (spec_render p))) /\
  (k <> FRemove -> f' (tmp pid d) = Absent) /\
  (forall q, q <> d -> q <> tmp pid d -> f' q = f q).
Proof. exact (headline_atomic_total write_steps C15_gen_writer_ok C15_gen_cleanup_total). Qed.
Print Assumptions C15_atomic.

(* 2'. the same against an adversary that may fail any set of crash points at once *)
Theorem C15_atomic_any_adversary : forall f pid d ov p adv f' e,
  run_writer write_steps (mkenv d (tmp pid d) ov p adv) f = (f', Err e) ->
  (f' d = f d \/ f' d = File (spec_render p)) /\
  (a_post adv = false -> f' d = f d).
Proof. exact (headline_atomic_any write_steps C15_gen_writer_ok). Qed.
Print Assumptions C15_atomic_any_adversary.

(* 3. when it returns, the destination is the complete file in MCNP's block structure
      (message, title, cells, blank, surfaces, blank, data + cards made from the cells, blank),
      the temporary is gone and nothing else changed *)
Theorem C15_success : forall f pid d ov p adv f',
  run_writer write_steps (mkenv d (tmp pid d) ov p adv) f = (f', Ok) ->
  f' d = File (spec_render p) /\ f' (tmp pid d) = Absent /\
  forall q, q <> d -> q <> tmp pid d -> f' q = f q.
Proof. exact (headline_success write_steps C15_gen_writer_ok). Qed.
Print Assumptions C15_success.

(* 4. "leaves no truncated or partial file" also forbids a stray partial temporary next to the
      destination: whatever the outcome and whatever fails — format calls, writes, the close, the
      move — the temporary is gone afterwards, as long as os.remove of the temporary itself works *)
Theorem C15_no_leftover : forall f pid d ov p adv f' r,
  f (tmp pid d) = Absent ->
  a_remove adv = false ->
  run_writer write_steps (mkenv d (tmp pid d) ov p adv) f = (f', r) -> f' (tmp pid d) = Absent.
Proof. exact (headline_no_leftover_total write_steps C15_gen_writer_ok C15_gen_cleanup_total). Qed.
Print Assumptions C15_no_leftover.

(* 5. nothing but the destination and the temporary is ever touched (no condition at all) *)
Theorem C15_frame : forall f pid d ov p adv f' r q,
  run_writer write_steps (mkenv d (tmp pid d) ov p adv) f = (f', r) ->
  q <> d -> q <> tmp pid d -> f' q = f q.
Proof. exact (headline_frame write_steps). Qed.
Print Assumptions C15_frame.

(* ---------------------------------------------------------------- non-vacuity and the stated limit *)
Definition ex_problem : problem :=
  mkproblem (fun s => match s with
                      | SMessage => []
                      | STitle => [Some ["title"]]
                      | SCells => [Some ["1 0 -1 "]; Some ["2 0 1"; "     imp:n=1"]]
                      | SSurfaces => [Some ["1 so 5"]]
                      | SData => [Some ["mode n"]]
                      end) (Some ["imp:n 1 0"]).
Definition ex_bad_problem : problem :=   (* the second cell is incomplete: formatting it raises *)
  mkproblem (fun s => match s with
                      | SCells => [Some ["1 0 -1"]; None]
                      | x => p_objs ex_problem x
                      end) (Some ["imp:n 1 0"]).
Definition ex_fs : fsys := upd (upd (fun _ => Absent) "other.txt" (File "keep")) "out.i" (File "OLD").
Definition obs (x : fsys * result) := (snd x, fst x "out.i", fst x (tmp "42" "out.i"), fst x "other.txt").

(* the hypotheses of C15_atomic are met by runs that really fail part-way: an incomplete cell
   (natural IllegalState), the third write call failing, formatting of object 1 failing *)
Example C15_atomic_nonvacuous :
  obs (write_with_failure_at FNone write_steps "out.i" (tmp "42" "out.i") true ex_bad_problem ex_fs)
    = (Err IllegalState, File "OLD", Absent, File "keep") /\
  obs (write_with_failure_at (FWrite 2) write_steps "out.i" (tmp "42" "out.i") true ex_problem ex_fs)
    = (Err OSError, File "OLD", Absent, File "keep") /\
  obs (write_with_failure_at (FFormat 1) write_steps "out.i" (tmp "42" "out.i") true ex_problem ex_fs)
    = (Err IllegalState, File "OLD", Absent, File "keep") /\
  (* a warning turned into an error (python -W error) while the second cell is formatted *)
  obs (write_with_failure_at (FFormatW 2) write_steps "out.i" (tmp "42" "out.i") true ex_problem ex_fs)
    = (Err WarningClass, File "OLD", Absent, File "keep") /\
  ex_fs (tmp "42" "out.i") = Absent.
Proof. vm_compute. repeat split; reflexivity. Qed.
Print Assumptions C15_atomic_nonvacuous.

(* the complete file of the example, spelled out: block structure, trailing blank of "1 0 -1 " gone *)
Example C15_spec_render_example :
  spec_render ex_problem =
  String.concat nl ["title"; "1 0 -1"; "2 0 1"; "     imp:n=1"; ""; "1 so 5"; ""; "mode n"; "imp:n 1 0"; ""; ""; ""].
Proof. vm_compute. reflexivity. Qed.
Print Assumptions C15_spec_render_example.

Example C15_success_nonvacuous :
  obs (write_with_failure_at FNone write_steps "out.i" (tmp "42" "out.i") true ex_problem ex_fs)
    = (Ok, File (spec_render ex_problem), Absent, File "keep") /\
  tmp "42" "out.i" = ".out.i.42.tmp".
Proof. vm_compute. repeat split; reflexivity. Qed.
Print Assumptions C15_success_nonvacuous.

Example C15_guards_nonvacuous :
  obs (write_with_failure_at FNone write_steps "out.i" (tmp "42" "out.i") false ex_problem ex_fs)
    = (Err FileExistsError, File "OLD", Absent, File "keep") /\
  obs (write_with_failure_at FNone write_steps "out.i" (tmp "42" "out.i") true ex_problem
         (upd ex_fs "out.i" Dir))
    = (Err IsADirectoryError, Dir, Absent, File "keep").
Proof. vm_compute. repeat split; reflexivity. Qed.
Print Assumptions C15_guards_nonvacuous.

(* C15_no_leftover on runs where __exit__ itself fails: the close, the move *)
Example C15_no_leftover_nonvacuous :
  obs (write_with_failure_at FClose write_steps "out.i" (tmp "42" "out.i") true ex_problem ex_fs)
    = (Err OSError, File "OLD", Absent, File "keep") /\
  obs (write_with_failure_at FReplace write_steps "out.i" (tmp "42" "out.i") true ex_problem ex_fs)
    = (Err OSError, File "OLD", Absent, File "keep").
Proof. vm_compute. repeat split; reflexivity. Qed.
Print Assumptions C15_no_leftover_nonvacuous.
