(* C05 — numbers set through the API are written without loss (ValueNode.format and what it calls).
   Headline theorems only; the proofs are in Proofs/NumProofs.v; the model is Model/Num.v. *)
From Coq Require Import List String Ascii ZArith QArith Qabs Bool.
From MPV Require Import Model.Wire Model.Num Proofs.NumProofs.
Import ListNotations.
Open Scope string_scope.
Open Scope Z_scope.

(* 1. A value that was not changed keeps its original spelling: every token the model's float()
      accepts, every padding. *)
Theorem C05_unchanged_verbatim : forall s pad np x,
  fortran_float s = Ok x ->
  render KFloat (TText s) pad np (VFlt x)
  = Ok (s ++ pad_text (match pad with Some l => l | None => [] end)).
Proof. exact unchanged_float. Qed.
Print Assumptions C05_unchanged_verbatim.

(* ... and so does every value math.isclose(rel_tol=1e-9) cannot tell from the token's value *)
Theorem C05_unchanged_tolerance : forall s pad np x y,
  fortran_float s = Ok x -> isclose y x = true ->
  render KFloat (TText s) pad np (VFlt y)
  = Ok (s ++ pad_text (match pad with Some l => l | None => [] end)).
Proof. exact unchanged_float_tolerance. Qed.
Print Assumptions C05_unchanged_tolerance.

Theorem C05_unchanged_verbatim_int : forall s pad np n,
  py_int_of_string s = Ok n -> to_dbl (VInt n) <> None ->
  render KInt (TText s) pad np (VInt n)
  = Ok (s ++ pad_text (match pad with Some l => l | None => [] end)).
Proof. exact unchanged_int. Qed.
Print Assumptions C05_unchanged_verbatim_int.

(* 2. No fusion: when the node is followed by a blank, the number that format() writes is followed by
      white space, however long the new number is. *)
Theorem C05_no_fusion : forall nd f temp p rest,
  pad_nodes nd = p :: rest -> pnode_is_space p = true ->
  Forall (fun q => pnode_text q <> "") rest ->
  exists tail, finish nd f temp = temp ++ tail /\ starts_ws tail = true.
Proof. exact finish_no_fusion. Qed.
Print Assumptions C05_no_fusion.

(* 3. The full closeness statement is false of the current code: four witnesses *)
Theorem C05_float_close_refuted_precision_cap :
  exists tok pad x s r,
    render KFloat (TText tok) pad false (VFlt x) = Ok s /\
    written_number s = Some r /\ ~ Qclose (decval r) (dval x).
Proof. exact refuted_precision_cap. Qed.
Print Assumptions C05_float_close_refuted_precision_cap.

Theorem C05_float_close_refuted_intlike_six_digits :
  exists tok pad x s r,
    render KFloat (TText tok) pad false (VFlt x) = Ok s /\
    written_number s = Some r /\ ~ Qclose (decval r) (dval x).
Proof. exact refuted_intlike_six_digits. Qed.
Print Assumptions C05_float_close_refuted_intlike_six_digits.

Theorem C05_float_close_refuted_int_truncation :
  exists tok pad x s r,
    render KFloat (TText tok) pad false (VFlt x) = Ok s /\
    written_number s = Some r /\ ~ Qclose (decval r) (dval x).
Proof. exact refuted_int_truncation. Qed.
Print Assumptions C05_float_close_refuted_int_truncation.

Theorem C05_float_close_refuted_scratch :
  exists x s r,
    render KFloat TNone None false (VFlt x) = Ok s /\
    written_number s = Some r /\ ~ Qclose (decval r) (dval x).
Proof. exact refuted_scratch_five_digits. Qed.
Print Assumptions C05_float_close_refuted_scratch.

Theorem C05_format_total_refuted :
  exists tok pad x, render KFloat (TText tok) pad false (VFlt x) = Err EAttribute.
Proof. exact refuted_total. Qed.
Print Assumptions C05_format_total_refuted.

Theorem C05_int_exact_refuted :
  exists tok pad n s r,
    render KInt (TText tok) pad false (VInt n) = Ok s /\
    written_number s = Some r /\ ~ (decval r == inject_Z n)%Q.
Proof. exact refuted_int_exact. Qed.
Print Assumptions C05_int_exact_refuted.
