(* C05 — numbers set through the API are written without loss (ValueNode.format and what it calls).
   Headline theorems only; the proofs are in Proofs/NumProofs.v; the model is Model/Num.v.

   Vocabulary:  render k tok pad np v  =  ValueNode(tok, type k, padding pad, never_pad np) [+ _convert_to_int
   for KConv]; node.value = v; node.format().   written_number s = the first blank-delimited word of the
   written text, read by the Fortran reader read_number as an exact decimal (sign, M, k) = +-M * 10^k.
   dec_to_dbl = float() of that decimal (nearest double, None beyond the largest double).
   isclose = math.isclose(., ., rel_tol=1e-9, abs_tol=0.0) as CPython evaluates it in IEEE doubles.
   is_double x = x is a finite IEEE double (53 bit significand, exponent >= -1074, |x| < 2^1024).
   followed_ok l = the padding after the node is empty; or starts with a blank string (and holds no empty
   string); or starts with something that is not a blank string and begins with white space, '$' or '&'
   (a newline, a '$' comment).  A word ends at white space, '$' or '&'. *)
From Coq Require Import List String Ascii ZArith QArith Qabs Bool.
From MPV Require Import Model.Wire Model.Num Proofs.NumProofs.
Import ListNotations.
Open Scope string_scope.
Open Scope Z_scope.

(* ------------------------------------------------------------------------------------------------
   1. A value that was not changed keeps its original spelling: every token the model's float()
      accepts, every padding. *)
Theorem C05_unchanged_verbatim : forall s pad np x,
  fortran_float s = Ok x ->
  render KFloat (TText s) pad np (VFlt x)
  = Ok (s ++ pad_text (match pad with Some l => l | None => [] end)).
Proof. exact unchanged_float. Qed.
Print Assumptions C05_unchanged_verbatim.

Example C05_unchanged_verbatim_ex :
  fortran_float "+01.50-03" = Ok (mkD false 6917529027641082 (-62)) /\
  render KFloat (TText "+01.50-03") (Some [PStr "  "; PCom "$ c"]) false (VFlt (mkD false 6917529027641082 (-62)))
  = Ok "+01.50-03  $ c".
Proof. vm_compute. split; reflexivity. Qed.
Print Assumptions C05_unchanged_verbatim_ex.

(* ... and so does every value math.isclose(rel_tol=1e-9) cannot tell from the token's value *)
Theorem C05_unchanged_tolerance : forall s pad np x y,
  fortran_float s = Ok x -> isclose y x = true ->
  render KFloat (TText s) pad np (VFlt y)
  = Ok (s ++ pad_text (match pad with Some l => l | None => [] end)).
Proof. exact unchanged_float_tolerance. Qed.
Print Assumptions C05_unchanged_tolerance.

(* an integer node: the same integer *)
Theorem C05_unchanged_verbatim_int : forall s pad np n,
  py_int_of_string s = Ok n ->
  render KInt (TText s) pad np (VInt n)
  = Ok (s ++ pad_text (match pad with Some l => l | None => [] end)).
Proof. exact unchanged_int. Qed.
Print Assumptions C05_unchanged_verbatim_int.

Example C05_unchanged_verbatim_int_ex :
  py_int_of_string "-007" = Ok (-7) /\ render KInt (TText "-007") (Some [PStr " "]) false (VInt (-7)) = Ok "-007 ".
Proof. vm_compute. split; reflexivity. Qed.
Print Assumptions C05_unchanged_verbatim_int_ex.

(* ------------------------------------------------------------------------------------------------
   2. No fusion: when the node is followed by a blank, the number that format() writes is followed by
      white space, however long the new number is. *)
Theorem C05_no_fusion : forall nd f temp p rest,
  pad_nodes nd = p :: rest -> pnode_is_space p = true ->
  Forall (fun q => pnode_text q <> "") rest ->
  exists tail, finish nd f temp = temp ++ tail /\ starts_ws tail = true.
Proof. exact finish_no_fusion. Qed.
Print Assumptions C05_no_fusion.

Example C05_no_fusion_ex :      (* the column "1.5 " is full: a blank is added *)
  render KFloat (TText "1.5") (Some [PStr " "]) false (VFlt (mkD false 694995494495815 (-49))) = Ok "1.23456 ".
Proof. vm_compute. reflexivity. Qed.
Print Assumptions C05_no_fusion_ex.

(* ------------------------------------------------------------------------------------------------
   3. THE FLOAT THEOREM (full strength).  For every old token (text, jump, or none: an object made from
      scratch), every padding, and every finite double x: what format() writes after node.value = x has
      as its first word a number that is read back as a double y with math.isclose(y, x, rel_tol=1e-9). *)
Theorem C05_float_close : forall tok pad np nd x s,
  make_node KFloat tok pad np = Ok nd ->
  is_double x ->
  followed_ok (pad_nodes (set_value nd (VFlt x))) ->
  format (set_value nd (VFlt x)) = Ok s ->
  exists y, reads_as s y /\ isclose y x = true.
Proof. exact float_node_close. Qed.
Print Assumptions C05_float_close.

Lemma is_double_1_23456 : is_double (mkD false 694995494495815 (-49)).
Proof. unfold is_double. split; [split; vm_compute; congruence|]. split; vm_compute; congruence. Qed.

(* hypotheses satisfiable: precision raised ('1.5' <- 1.23456), scratch, jump, blank sign + scientific,
   and a case that ends in the ".17g" fall-back ('1.5' <- 1.23456789e-13) *)
Example C05_float_close_ex_precision :
  exists nd, make_node KFloat (TText "1.5") (Some [PStr " "]) false = Ok nd /\
    is_double (mkD false 694995494495815 (-49)) /\
    followed_ok (pad_nodes (set_value nd (VFlt (mkD false 694995494495815 (-49))))) /\
    format (set_value nd (VFlt (mkD false 694995494495815 (-49)))) = Ok "1.23456 ".
Proof.
  eexists. split; [vm_compute; reflexivity|]. split; [exact is_double_1_23456|]. split.
  - right. left. exists (PStr " "), []. split; [reflexivity|]. split; [reflexivity|].
    constructor; [discriminate | constructor].
  - vm_compute. reflexivity.
Qed.
Print Assumptions C05_float_close_ex_precision.

Example C05_float_close_ex_newline :       (* the last value of a line: the padding is the newline itself *)
  exists nd, make_node KFloat (TText "1.5") (Some [PStr newline]) false = Ok nd /\
    followed_ok (pad_nodes (set_value nd (VFlt (mkD false 694995494495815 (-49))))) /\
    format (set_value nd (VFlt (mkD false 694995494495815 (-49)))) = Ok ("1.23456" ++ newline).
Proof.
  eexists. split; [vm_compute; reflexivity|]. split.
  - right. right. exists (PStr newline), []. split; [reflexivity|]. split; reflexivity.
  - vm_compute. reflexivity.
Qed.
Print Assumptions C05_float_close_ex_newline.

Example C05_float_close_ex_comment :       (* a '$' comment directly after the value *)
  exists nd, make_node KFloat (TText "1.5") (Some [PCom "$ c"; PStr newline]) false = Ok nd /\
    followed_ok (pad_nodes (set_value nd (VFlt (mkD false 694995494495815 (-49))))) /\
    written_number ("1.23456$ c" ++ newline) = Some (false, 123456, -5) /\
    format (set_value nd (VFlt (mkD false 694995494495815 (-49)))) = Ok ("1.23456$ c" ++ newline).
Proof.
  eexists. split; [vm_compute; reflexivity|]. split; [|split].
  - right. right. exists (PCom "$ c"), [PStr newline]. split; [reflexivity|]. split; reflexivity.
  - vm_compute. reflexivity.
  - vm_compute. reflexivity.
Qed.
Print Assumptions C05_float_close_ex_comment.

Example C05_float_close_ex_scratch :       (* ValueNode(None, float).value = 1.23456789 *)
  exists nd, make_node KFloat TNone None false = Ok nd /\
    format (set_value nd (VFlt (mkD false 5559999489367579 (-52)))) = Ok "1.23456789 ".
Proof. eexists. split; [vm_compute; reflexivity|]. vm_compute. reflexivity. Qed.
Print Assumptions C05_float_close_ex_scratch.

Example C05_float_close_ex_blank_sign :    (* '-1.5e0' <- 2.5: sign option ' ' *)
  render KFloat (TText "-1.5e0") (Some [PStr " "]) false (VFlt (mkD false 5 (-1))) = Ok " 2.5e+0 ".
Proof. vm_compute. reflexivity. Qed.
Print Assumptions C05_float_close_ex_blank_sign.

Example C05_float_close_ex_fallback :      (* '1.5' <- 1.23456789e-13: no "%.pf" with p <= 17 reads back *)
  render KFloat (TText "1.5") (Some [PStr " "]) false (VFlt (mkD false 4890627271190621 (-95)))
  = Ok "1.23456789e-13 ".
Proof. vm_compute. reflexivity. Qed.
Print Assumptions C05_float_close_ex_fallback.

(* THE FLOAT THEOREM, total form: format() does return a text for every float node and every double (the
   decimal exponent search never runs out of fuel, float() accepts every text of _format_float, float(round(x))
   does not overflow), and that text reads back within the tolerance *)
Theorem C05_float_close_total : forall tok pad np nd x,
  make_node KFloat tok pad np = Ok nd ->
  is_double x ->
  followed_ok (pad_nodes (set_value nd (VFlt x))) ->
  exists s y, format (set_value nd (VFlt x)) = Ok s /\ reads_as s y /\ isclose y x = true.
Proof. exact float_node_close_total. Qed.
Print Assumptions C05_float_close_total.

Theorem C05_format_total : forall tok pad np nd x,
  make_node KFloat tok pad np = Ok nd -> is_double x ->
  exists s, format (set_value nd (VFlt x)) = Ok s.
Proof. exact float_format_total. Qed.
Print Assumptions C05_format_total.

(* _format_float never fails on a double (no Err EFuel): the log10 estimate floor(lg * 0.30103) is within one
   of the truth for each of the 2100 binary exponents of a double (finite sweep by vm_compute) *)
Theorem C05_format_float_total : forall reversed f x p, is_double x -> 0 <= p ->
  exists t, format_float reversed f x p = Ok t.
Proof. exact format_float_total. Qed.
Print Assumptions C05_format_float_total.

(* the two ways the float branch ends *)
Theorem C05_float_text_cases : forall reversed f x s,
  float_text reversed f x = Ok s -> reads_back s x = Ok true \/ fallback_text f x = Ok s.
Proof. exact float_text_cases. Qed.
Print Assumptions C05_float_text_cases.

(* the ".17g" fall-back is read back as exactly the double that was set (17 digits round-trip) *)
Theorem C05_fallback_exact : forall f x temp,
  is_double x -> fallback_text f x = Ok temp ->
  exists r y, read_number (drop_blank temp) = Some r /\ dec_to_dbl r = Some y /\ isclose y x = true.
Proof. exact fallback_exact. Qed.
Print Assumptions C05_fallback_exact.

(* float(): a decimal within half a unit of the 17th digit of a double is read as that double *)
Theorem C05_float_of_17_digits : forall neg M k x,
  is_double x -> 0 < dman x ->
  (Qabs (inject_Z M * p10 k - dabs x) <= delta17 * dabs x)%Q ->
  exists y, mk_round neg (dec_num M k) (dec_den k) = Some y /\ dneg y = neg /\ 0 <= dman y /\
            (dabs y == dabs x)%Q.
Proof. exact mk_round_near_double. Qed.
Print Assumptions C05_float_of_17_digits.

(* no digit is added when the old token's precision is enough; otherwise one digit at a time, stopping
   at the first precision whose text reads back *)
Theorem C05_no_extra_digits : forall reversed f x t0,
  format_float reversed f x (precision f) = Ok t0 -> reads_back t0 x = Ok true ->
  float_text reversed f x = Ok t0.
Proof. exact no_extra_digits. Qed.
Print Assumptions C05_no_extra_digits.

Example C05_no_extra_digits_ex :           (* '1.50' <- 2.25 keeps two decimals *)
  render KFloat (TText "1.50") (Some [PStr " "]) false (VFlt (mkD false 9 (-2))) = Ok "2.25 ".
Proof. vm_compute. reflexivity. Qed.
Print Assumptions C05_no_extra_digits_ex.

Theorem C05_loop_minimal : forall reversed f x fuel p t0 temp,
  format_float reversed f x p = Ok t0 ->
  prec_loop reversed f x fuel p t0 = Ok temp ->
  exists j, (j <= fuel)%nat /\ format_float reversed f x (p + Z.of_nat j) = Ok temp /\
    (forall i ti, (i < j)%nat -> format_float reversed f x (p + Z.of_nat i) = Ok ti -> reads_back ti x = Ok false) /\
    ((j < fuel)%nat -> reads_back temp x = Ok true).
Proof. exact prec_loop_spec. Qed.
Print Assumptions C05_loop_minimal.

(* ------------------------------------------------------------------------------------------------
   4. The exact rounding error of each notation ("%.pe", "%.pf", "%.Pg" with the sign / zero fill of
      format()): half a unit of the last digit written. *)
Theorem C05_e_error : forall f x p temp,
  is_scientific f = true -> 0 <= p ->
  exponent_length f = exponent_zero_pad f ->
  (divider f = "" \/ divider f = "e" \/ divider f = "E") ->
  0 <= dman x ->
  format_float true f x p = Ok temp ->
  exists r, read_number (drop_blank temp) = Some r /\
    (Qabs (decval r - dval x) <= (1 # 2) * p10 (- p) * Qabs (dval x))%Q.
Proof. exact sci_branch_error. Qed.
Print Assumptions C05_e_error.

Example C05_e_error_ex :                   (* Fortran style token: no letter before the exponent *)
  render KFloat (TText "1.50-03") (Some [PStr " "]) false (VFlt (mkD false 5 (-1))) = Ok "2.50+00 ".
Proof. vm_compute. reflexivity. Qed.
Print Assumptions C05_e_error_ex.

Theorem C05_f_error : forall f x p temp,
  is_scientific f = false -> as_int f = false -> 0 <= p ->
  0 <= dman x ->
  format_float true f x p = Ok temp ->
  exists r, read_number (drop_blank temp) = Some r /\
    (Qabs (decval r - dval x) <= (1 # 2) * p10 (- p))%Q.
Proof. exact fixed_branch_error. Qed.
Print Assumptions C05_f_error.

Theorem C05_g_error : forall P0 x b sopt z,
  0 <= P0 -> 0 < dman x -> g_body P0 x = Ok b ->
  exists M k, read_number (drop_blank (sign_text sopt (dneg x) ++ zeros z ++ b)) = Some (dneg x, M, k) /\
    (Qabs (inject_Z M * p10 k - dabs x)
       <= (1 # 2) * p10 (- ((if P0 =? 0 then 1 else P0) - 1)) * dabs x)%Q.
Proof. exact g_branch_error. Qed.
Print Assumptions C05_g_error.

Example C05_g_error_ex : g_body 6 (mkD false 5768499521447309 (-50)) = Ok "5.12346".
Proof. vm_compute. reflexivity. Qed.
Print Assumptions C05_g_error_ex.

(* the side conditions of C05_e_error / C05_f_error hold of every formatter that
   _reverse_engineer_formatting can produce (and of the default one of a node made from scratch) *)
Theorem C05_reachable_formatter : forall nd f, reverse_formatting nd = Some f ->
  exponent_length f = exponent_zero_pad f /\
  (divider f = "" \/ divider f = "e" \/ divider f = "E") /\ 0 <= precision f.
Proof. exact reverse_formatting_ok. Qed.
Print Assumptions C05_reachable_formatter.

(* ------------------------------------------------------------------------------------------------
   5. The int(round(value)) branch: a float within the tolerance of an integer, on an integer-looking
      token, is written as the nearest integer, digit for digit. *)
Theorem C05_round_branch_exact : forall nd reversed f x temp,
  n_isfloat nd = true -> can_float_to_int nd f (VFlt x) = Ok true ->
  render_temp nd reversed f (VFlt x) = Ok temp ->
  read_number (drop_blank temp)
  = Some (py_round (VFlt x) <? 0, Z.abs (py_round (VFlt x)), 0).
Proof. exact round_branch_exact. Qed.
Print Assumptions C05_round_branch_exact.

Theorem C05_round_is_nearest : forall x, 0 <= dman x ->
  (Qabs (inject_Z (py_round (VFlt x)) - dval x) <= 1 # 2)%Q.
Proof. exact py_round_nearest. Qed.
Print Assumptions C05_round_is_nearest.

Example C05_round_branch_ex :              (* '5' <- 57.99999999999999 is written 58, not 57 *)
  render KFloat (TText "5") (Some [PStr " "]) false (VFlt (mkD false 8162774324609023 (-47))) = Ok "58 ".
Proof. vm_compute. reflexivity. Qed.
Print Assumptions C05_round_branch_ex.

(* ------------------------------------------------------------------------------------------------
   6. THE INTEGER THEOREM (full strength): an integer node writes the integer that was set, digit for
      digit (third component 0: no point, no exponent), whatever token it was made from. *)
Theorem C05_int_exact : forall tok pad np nd n s,
  make_node KInt tok pad np = Ok nd ->
  followed_ok (pad_nodes (set_value nd (VInt n))) ->
  format (set_value nd (VInt n)) = Ok s ->
  exists neg M, written_number s = Some (neg, M, 0) /\ (if neg then - M else M) = n.
Proof. exact int_node_exact_full. Qed.
Print Assumptions C05_int_exact.

Example C05_int_exact_ex :                 (* 1000000000 <- 1000000001: ints are compared exactly *)
  exists nd, make_node KInt (TText "1000000000") (Some [PStr " "]) false = Ok nd /\
    followed_ok (pad_nodes (set_value nd (VInt 1000000001))) /\
    format (set_value nd (VInt 1000000001)) = Ok "1000000001 ".
Proof.
  eexists. split; [vm_compute; reflexivity|]. split.
  - right. left. exists (PStr " "), []. split; [reflexivity|]. split; [reflexivity|].
    constructor; [discriminate | constructor].
  - vm_compute. reflexivity.
Qed.
Print Assumptions C05_int_exact_ex.

(* Converted nodes (a NUMBER token read as a float, then _convert_to_int; since da649a9 the converted integer
   is also the value later assignments are compared with).  Full strength: the integer is written digit for
   digit, or it is the integer the token itself was converted to and the token is kept verbatim ('5.0'). *)
Theorem C05_conv_int_exact : forall tok pad np nd n s,
  make_node KConv tok pad np = Ok nd ->
  followed_ok (pad_nodes (set_value nd (VInt n))) ->
  format (set_value nd (VInt n)) = Ok s ->
  written_number s = Some (n <? 0, Z.abs n, 0) \/
  exists t, tok = TText t /\ conv_int t = Ok n /\
            s = t ++ pad_text (pad_nodes (set_value nd (VInt n))).
Proof. exact conv_node_exact_full. Qed.
Print Assumptions C05_conv_int_exact.

(* ... and a token spelled as an integer reads as the integer that was set in both cases *)
Theorem C05_conv_int_exact_plain : forall t pad np nd n s,
  make_node KConv (TText t) pad np = Ok nd ->
  (exists i, py_int_of_string t = Ok i) ->
  followed_ok (pad_nodes (set_value nd (VInt n))) ->
  format (set_value nd (VInt n)) = Ok s ->
  exists neg M, written_number s = Some (neg, M, 0) /\ (if neg then - M else M) = n.
Proof. exact conv_node_exact_plain. Qed.
Print Assumptions C05_conv_int_exact_plain.

Example C05_conv_int_exact_ex :            (* '0012.0' converted: <- 7 is re-written, <- 12 keeps the token *)
  exists nd, make_node KConv (TText "0012.0") (Some [PStr " "]) false = Ok nd /\
    conv_int "0012.0" = Ok 12 /\
    format (set_value nd (VInt 7)) = Ok "000007 " /\
    format (set_value nd (VInt 12)) = Ok "0012.0 ".
Proof.
  eexists. split; [vm_compute; reflexivity|]. split; [vm_compute; reflexivity|].
  split; vm_compute; reflexivity.
Qed.
Print Assumptions C05_conv_int_exact_ex.

(* the witness of the defect repaired by da649a9 (the float _og_value made 10**18 look unchanged): now exact *)
Example C05_conv_int_exact_ex_repaired :
  render KConv (TText "1000000000000000003") (Some [PStr " "]) false (VInt 1000000000000000000)
  = Ok "1000000000000000000 ".
Proof. vm_compute. reflexivity. Qed.
Print Assumptions C05_conv_int_exact_ex_repaired.

(* ------------------------------------------------------------------------------------------------
   7. math.isclose as modelled is symmetric (used for the unchanged short cut: isclose(new, old)). *)
Theorem C05_isclose_symmetric : forall a b, isclose a b = isclose b a.
Proof. exact isclose_sym. Qed.
Print Assumptions C05_isclose_symmetric.
