(* C01Roundtrip — the unedited round trip read -> write denotes the same problem by MCNP's own rules
   (DESIGN.md 6, C01: C01_roundtrip).  Headline theorems only; proofs in Proofs/RoundtripProofs.v.

   The theorem composes the models that exist, nothing is re-modelled:
     reader     Model/Lines.v   read_front_matters, read_data (tied to the real reader by the C11 correspondence and by
                                harness/spec_tie.py), equal to the rules on well-formed files: C01_split_agrees,
                                H_lines_conserved (every stored line lands in exactly one input, in order)
     objects    Model/Tree.v    format / flatten / unedited / as_parsed / cell_text (tied to the real trees by the C01
                                correspondence); an unedited as-parsed tree is written as it flattens: C01_format_unchanged
     wrapper    Model/Wrap.v    wrap_lines (tied by the C10 correspondence); a line that fits passes unchanged:
                                C10_line_identity
     writer     Model/Tree.v    write_lines (block layout of write_to_file), Model/Wrap.v title_line, and the right
                                strip + line end of every written line (/repo 7b99f67)
     rules      Spec/Cards.v    read back what was written
   NOT modelled, a hypothesis of the theorem: the parsers and object constructors, here the Section variable
     P : input -> obj      (OTree tree | OCell parts of the parameter loop)
   with the Lossless hypothesis (per block or per input); the C01 check validates it per generated input
   ("flatten == text read" up to whole comment lines and letter case, evidence/C01.json: lossless).

     read_model P w bytes   = title and, per block, P of every input the reader yields, in file order
     write_model w pm       = file_bytes (write_lines [] (title_line w title) cells surfaces data [])
                              with the lines of an object = wrap_lines w 5 true (split_nl (obj_text o))
     denotation p           = (title without trailing blanks,
                               [(block number, tokens by rule S8, comment texts) of every card, in order])

   Side conditions, all decidable on the bytes: wf_file (Model/SpecWire.v); no_message (a message block is not covered);
   title_fits (the title without trailing blanks has at most w - 1 columns: see 3).
   Outside the model (so outside the theorem): what the object layer does between reading and writing an unedited
   problem — it moves MT cards behind their M card and the data-block IMP / VOL / ... cards to the end of the data
   block (known finding F-C01-data-card-order), re-orders the parameters of a cell card, and writes surface mnemonics
   in upper case (same tokens by S8); read_model keeps the inputs in file order and Lossless is exact. *)
From Coq Require Import List String Ascii Arith Bool.
From MPV Require Import Model.Wire Model.Lines Proofs.LinesProofs Proofs.SpecProofs Proofs.RoundtripProofs
  Proofs.RoundtripCaseProofs.
From MPV Require Spec.Cards Model.SpecWire Model.Tree Model.Wrap.
Import ListNotations.
Open Scope string_scope.

(* 1. block-level Lossless: the lines the objects of a block hand to the wrapper are the lines the reader stored for
      the inputs of that block (which input of the block a comment line went to does not matter) *)
Theorem C01_roundtrip : forall (P : input -> obj) w bytes,
  SpecWire.wf_file w bytes = true -> no_message w bytes = true -> title_fits w bytes = true ->
  Lossless_blocks P w bytes ->
  exists out, write_model w (read_model P w bytes) = Some out /\
              denotation (Cards.read w out) = denotation (Cards.read w bytes).
Proof. exact roundtrip. Qed.
Print Assumptions C01_roundtrip.

(* 2. Lossless per input, in the terms of the tree theorems: every parsed tree is unedited, as parsed and flattens
      to the stored lines of its input (C01_format_unchanged gives the written text); a cell's parameter loop
      gives back its stored lines *)
Theorem C01_roundtrip_per_input : forall (P : input -> obj) w bytes,
  SpecWire.wf_file w bytes = true -> no_message w bytes = true -> title_fits w bytes = true ->
  (forall i, In i (read_inputs w (split_lines bytes)) -> Lossless_input P i) ->
  exists out, write_model w (read_model P w bytes) = Some out /\
              denotation (Cards.read w out) = denotation (Cards.read w bytes).
Proof. exact roundtrip_inputs. Qed.
Print Assumptions C01_roundtrip_per_input.

(* non-vacuity: a three-block file with a tab, trailing blanks, comment lines before / inside / between / after cards,
   '$' comments, a '&' continuation, a blank line of blanks and text after the data block; an oracle that is lossless
   on each of its inputs; the bytes that are written; what both files denote *)
Example C01_roundtrip_nonvacuous :
  SpecWire.wf_file 80 ex_rt = true /\ no_message 80 ex_rt = true /\ title_fits 80 ex_rt = true /\
  (forall i, In i (read_inputs 80 (split_lines ex_rt)) -> Lossless_input P_lines i) /\
  write_model 80 (read_model P_lines 80 ex_rt) = Some ex_rt_out /\
  denotation (Cards.read 80 ex_rt_out) = denotation (Cards.read 80 ex_rt) /\
  denotation (Cards.read 80 ex_rt)
  = (Some "a title",
     [(0, ["1"; "0"; "-1"; "IMP:N"; "1"; "VOL"; "2"], ["cells"; "inner"; "in between"]);
      (0, ["2"; "0"; "1"], []);
      (1, ["1"; "SO"; "1"], ["sphere"]);
      (1, ["2"; "PX"; "3"], ["before the plane"]);
      (2, ["MODE"; "N"], ["the end"])]).
Proof.
  destruct ex_rt_facts as (H1 & H2 & H3 & _ & H5 & H6 & H7).
  repeat (apply conj; [assumption || exact ex_rt_lossless|]). exact H6.
Qed.
Print Assumptions C01_roundtrip_nonvacuous.

(* 3. title_fits is needed: Title.format_for_mcnp_input writes title[0 : line_length - 1], so a title that reaches
      the last column loses its last character (w = 10 here; the real code: 80 / 128, findings/F-C01-spec-title-last-column) *)
Theorem C01_roundtrip_title_refuted :
  SpecWire.wf_file 10 ex_title10 = true /\ no_message 10 ex_title10 = true /\ title_fits 10 ex_title10 = false /\
  exists out, write_model 10 (read_model P_lines 10 ex_title10) = Some out /\
              fst (denotation (Cards.read 10 out)) <> fst (denotation (Cards.read 10 ex_title10)).
Proof.
  destruct ex_title_last_column as (H1 & H2 & H3 & _). repeat (apply conj; [assumption|]). exact ex_title_changes.
Qed.
Print Assumptions C01_roundtrip_title_refuted.

(* 4. Letter case of the data does not matter (rule S8), line by line: [norm x] is the line x with its data part in
      upper case (comment lines and '$' comments untouched); it is the same kind of line with the same comment text
      and upper-cased words, and two blocks whose lines agree after [norm] denote the same cards.  This is the fact
      behind treating MontePy's re-spelling of surface mnemonics ("px" -> "PX") as harmless; Lossless in theorems
      1-2 is exact, threading [norm] through them is not done. *)
Theorem C01_roundtrip_case_of_a_line : forall x, Cards.classify (norm x) = up_line (Cards.classify x).
Proof. exact classify_norm. Qed.
Print Assumptions C01_roundtrip_case_of_a_line.

Theorem C01_roundtrip_case_irrelevant : forall nb ls ls',
  map norm ls = map norm ls' -> lines_denotation nb ls = lines_denotation nb ls'.
Proof. exact lines_denotation_same_data. Qed.
Print Assumptions C01_roundtrip_case_irrelevant.

Example C01_roundtrip_case_example :
  map norm ["c a Comment"; "1 px 0 $ Keep me"; "     imp:n=1"] = ["c a Comment"; "1 PX 0 $ Keep me"; "     IMP:N=1"] /\
  lines_denotation 1 ["c a Comment"; "1 px 0 $ Keep me"] = [(1, ["1"; "PX"; "0"], ["a Comment"; "Keep me"])] /\
  lines_denotation 1 ["c a Comment"; "1 PX 0 $ Keep me"] = [(1, ["1"; "PX"; "0"], ["a Comment"; "Keep me"])].
Proof. repeat (apply conj; [vm_compute; reflexivity|]). vm_compute. reflexivity. Qed.
Print Assumptions C01_roundtrip_case_example.
