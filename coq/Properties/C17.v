(* C17 — Problems are isolated; API behaviour does not depend on unrelated history.

   Headline theorems only (proofs in Proofs/IsoProofs.v, model in Model/Iso.v, the table of process-wide
   state in Gen/Globals.v, generated from the source tree by harness/translate_globals.py).

   Reading guide.
   * [Globals.table] lists every site of process-wide mutable state of the source, its writers/readers and,
     per API entry point, the first access (kill / dirty).  The obligations on the generated table
     ([C17_table_consistent], [C17_globals_obligation], [C17_reset_flags_hold]) are decided by vm_compute;
     the domain is finite (one table).
   * [C17_disjoint] (any table that is history free) and [C17_disjoint_partial] (any table, operations whose
     entries do not read residue) quantify over ALL interleavings, all initial stores (= arbitrary unrelated
     history), all failure points of every call.
   * Since fix e35286f (types=() decided per call, no `nonlocal` rebinding) the generated table is history free:
     [C17_history_free_now], and the statements hold unconditionally of the current source:
     [C17_disjoint_now], [C17_setter_history_free_now].  [C17_latching_declaration_breaks_it] records why a
     declaration that rebinds its closure cell (the code before that fix) cannot satisfy the property.
*)
From Coq Require Import List String Ascii ZArith Bool.
From MPV Require Import Model.Wire Model.Iso Proofs.IsoProofs Gen.Globals.
Import ListNotations.
Open Scope string_scope.
Open Scope list_scope.

(* ---------------------------------------------------------------------------------------------- *)
(* obligations on the generated table                                                              *)
(* ---------------------------------------------------------------------------------------------- *)

(* the redundant parts of the table agree (status = derived status; entry rows = transposed site rows) *)
Theorem C17_table_consistent : table_consistent Globals.table = true.
Proof. vm_compute. reflexivity. Qed.
Print Assumptions C17_table_consistent.

(* every site / entry that is not history free would have to be the closure cell of a latching generated
   property (none is left since e35286f); no copy hooks exist *)
Theorem C17_globals_obligation : only_latches_dirty Globals.table = true.
Proof. vm_compute. reflexivity. Qed.
Print Assumptions C17_globals_obligation.

(* the current source: every own site is constant, never read, or reset by every entry point before it is
   read; no entry has a dirty row; no copy hooks; no generated property latches *)
Theorem C17_history_free_now : history_free Globals.table = true.
Proof. vm_compute. reflexivity. Qed.
Print Assumptions C17_history_free_now.

(* API functions that keep the caller's mutable container instead of a copy (heap aliasing: two problems given
   the same list / dict / ndarray share it).  The ones of the frozen HEAD are open known findings; a new one
   breaks this obligation. *)
Definition known_arg_alias : list string := [
  "data_inputs/transform.py:Transform.displacement_vector(vector)";   (* F-C17-transform-array-alias *)
  "data_inputs/transform.py:Transform.rotation_matrix(matrix)";       (* F-C17-transform-array-alias *)
  "data_inputs/fill.py:Fill.universes(value)";                        (* F-C17-fill-universes-alias *)
  "cell.py:Cell.parameters(params)";                                  (* F-C17-cell-parameters-alias *)
  "numbered_object_collection.py:NumberedObjectCollection.__init__(objects)"  (* F-C17-collection-list-alias *)
].
Theorem C17_arg_alias_obligation : arg_alias_known known_arg_alias Globals.table = true.
Proof. vm_compute. reflexivity. Qed.
Print Assumptions C17_arg_alias_obligation.

(* read_input_syntax kills reading_queue before anything reads it; MCNP_Parser.parse kills the shared log *)
Theorem C17_reset_flags_hold : flags_of Globals.table = mk_rflags true true.
Proof. vm_compute. reflexivity. Qed.
Print Assumptions C17_reset_flags_hold.

(* ---------------------------------------------------------------------------------------------- *)
(* isolation, all interleavings                                                                    *)
(* ---------------------------------------------------------------------------------------------- *)

(* A = the observed problems.  What A reports after any interleaving of operations on A and on other
   problems (reads incl. failing ones, edits, edits through references, deep copies, writes), started in a
   process with arbitrary residue (st1), equals what it reports after A's operations alone in a process
   with any other residue (st2) — provided the table is history free. *)
Theorem C17_disjoint : forall T A ops st1 st2,
  history_free T = true ->
  forallb (op_side A) ops = true ->
  agree A (st_heap st1) (st_heap st2) -> heap_closed (st_heap st1) -> heap_closed (st_heap st2) ->
  outputs_of A (snd (run T st1 ops)) = outputs_of A (snd (run T st2 (ops_of A ops))).
Proof. exact run_isolated_history_free. Qed.
Print Assumptions C17_disjoint.

(* ... which the current source is *)
Theorem C17_disjoint_now : forall A ops st1 st2,
  forallb (op_side A) ops = true ->
  agree A (st_heap st1) (st_heap st2) -> heap_closed (st_heap st1) -> heap_closed (st_heap st2) ->
  outputs_of A (snd (run Globals.table st1 ops)) = outputs_of A (snd (run Globals.table st2 (ops_of A ops))).
Proof. intros. apply run_isolated_history_free; auto using C17_history_free_now. Qed.
Print Assumptions C17_disjoint_now.

(* the same for any table, restricted to operations whose entries never read residue and that are not
   latching setters: this is what holds of the current source *)
Theorem C17_disjoint_partial : forall T A ops st1 st2,
  deep_copy T = true ->
  forallb (op_ok_for T A) ops = true ->
  agree A (st_heap st1) (st_heap st2) -> heap_closed (st_heap st1) -> heap_closed (st_heap st2) ->
  outputs_of A (snd (run T st1 ops)) = outputs_of A (snd (run T st2 (ops_of A ops))).
Proof. exact run_isolated. Qed.
Print Assumptions C17_disjoint_partial.

(* hypotheses are satisfiable on the generated table by a non-trivial interleaving:
   A reads, B reads and fails half way, A edits through a reference, A is deep-copied to C, C is edited,
   B constructs a cell, A writes.  The stores differ (st1 carries residue). *)
Definition e_read := entry_index Globals.table "input_parser/input_reader.py:read_input".
Definition e_cell := entry_index Globals.table "cell.py:Cell.__init__".
Definition e_write := entry_index Globals.table "mcnp_problem.py:MCNP_Problem.write_to_file".
Definition demo_ops : list op := [
  mk_op 0 e_read 11 None (HLoad [(5%Z, [1]); (7%Z, [])]);
  mk_op 1 e_read 12 (Some 2) (HLoad [(1%Z, [])]);
  mk_op 0 e_write 13 None (HSetVia 0 0 42);
  mk_op 0 e_write 14 None (HCopyTo 2);
  mk_op 2 e_write 15 None (HSetVia 0 0 99);
  mk_op 1 e_cell 16 None (HLoad [(3%Z, [0])]);
  mk_op 0 e_write 17 None HNone ].
Definition demo_st1 : state := mk_state [(15, [1%Z; 2%Z]); (42, [9%Z])] [] [].
Definition demo_st2 : state := mk_state [] [] [].

Example C17_disjoint_partial_hyp_satisfiable :
  deep_copy Globals.table = true /\ forallb (op_ok_for Globals.table (Nat.eqb 0)) demo_ops = true
  /\ Nat.ltb e_read (List.length (t_entries Globals.table)) = true
  /\ Nat.ltb e_cell (List.length (t_entries Globals.table)) = true
  /\ List.length (outputs_of (Nat.eqb 0) (snd (run Globals.table demo_st1 demo_ops))) = 3.
Proof. vm_compute. repeat split; reflexivity. Qed.

(* the condition is necessary: one dirty row exposes the residue *)
Example C17_dirty_row_reads_residue : forall s w tok g,
  snd (fst (exec_rows [(s, FDirty, w)] tok None g [])) = [sget g s].
Proof. exact exec_rows_dirty_reads. Qed.

(* a call that kills before it reads reports the same whatever earlier calls left, and fails at the same point *)
Theorem C17_clean_entry_ignores_residue : forall rows tok cut g1 g2 acc,
  existsb row_dirty rows = false ->
  snd (fst (exec_rows rows tok cut g1 acc)) = snd (fst (exec_rows rows tok cut g2 acc))
  /\ snd (exec_rows rows tok cut g1 acc) = snd (exec_rows rows tok cut g2 acc).
Proof. exact exec_rows_store_independent. Qed.
Print Assumptions C17_clean_entry_ignores_residue.

(* ---------------------------------------------------------------------------------------------- *)
(* generated setters                                                                               *)
(* ---------------------------------------------------------------------------------------------- *)

(* full strength, for a history-free table *)
Theorem C17_setter_history_free : forall T h1 h2 l p sc vc,
  history_free T = true ->
  accepts T (after T l h1) p sc vc = accepts T (after T l h2) p sc vc.
Proof. exact setter_history_free_table. Qed.
Print Assumptions C17_setter_history_free.

(* any table: every declaration that does not latch *)
Theorem C17_setter_history_free_partial : forall T h1 h2 l p sc vc,
  (forall g, find_prop T p = Some g -> g_latching g = false) ->
  accepts T (after T l h1) p sc vc = accepts T (after T l h2) p sc vc.
Proof. exact setter_history_free. Qed.
Print Assumptions C17_setter_history_free_partial.

(* the current source: acceptance of any generated-setter call is independent of all earlier calls *)
Theorem C17_setter_history_free_now : forall h1 h2 l p sc vc,
  accepts Globals.table (after Globals.table l h1) p sc vc = accepts Globals.table (after Globals.table l h2) p sc vc.
Proof. intros. apply setter_history_free_table. exact C17_history_free_now. Qed.
Print Assumptions C17_setter_history_free_now.

Theorem C17_no_latching_now : latching_props Globals.table = [].
Proof. vm_compute. reflexivity. Qed.
Print Assumptions C17_no_latching_now.

(* declarations with types=() now check against the class of the instance of THIS call *)
Example C17_self_typed_now :
  accepts Globals.table [] "Surface.periodic_surface" "AxisPlane" "AxisPlane" = true
  /\ accepts Globals.table (after Globals.table [] [("Surface.periodic_surface", "AxisPlane", "AxisPlane")])
       "Surface.periodic_surface" "GeneralPlane" "GeneralPlane" = true
  /\ accepts Globals.table [] "Surface.periodic_surface" "AxisPlane" "GeneralPlane" = false.
Proof. vm_compute. repeat split; reflexivity. Qed.

(* why the code before e35286f could not satisfy the property: a declaration that rebinds its closure cell on
   first use (latching) accepts a call in a fresh process and rejects the same call after one call on an
   instance of an unrelated class *)
Theorem C17_latching_declaration_breaks_it : forall T g,
  find_prop T (g_name g) = Some g -> g_latching g = true ->
  assoc_anc (t_classes T) "C17_B" = [] ->
  accepts T (after T [] []) (g_name g) "C17_B" "C17_B" = true /\
  accepts T (after T [] [(g_name g, "C17_A", "C17_A")]) (g_name g) "C17_B" "C17_B" = false.
Proof. exact latch_refutes. Qed.
Print Assumptions C17_latching_declaration_breaks_it.

Definition old_decl : gprop := mk_gprop "Surface.periodic_surface" "Surface" true [] true None.
Definition old_table : Iso.table := mk_table [] [] [old_decl] (t_classes Globals.table) [] [].
Example C17_latching_hyp_satisfiable :
  find_prop old_table (g_name old_decl) = Some old_decl /\ g_latching old_decl = true
  /\ assoc_anc (t_classes old_table) "C17_B" = []
  /\ accepts old_table (after old_table [] [("Surface.periodic_surface", "AxisPlane", "AxisPlane")])
       "Surface.periodic_surface" "GeneralPlane" "GeneralPlane" = false.
Proof. vm_compute. repeat split; reflexivity. Qed.

Example C17_partial_hyp_satisfiable :
  exists g, find_prop Globals.table "Surface.transform" = Some g /\ g_latching g = false
            /\ accepts Globals.table [] "Surface.transform" "AxisPlane" "Transform" = true
            /\ accepts Globals.table [] "Surface.transform" "AxisPlane" "Cell" = false.
Proof. vm_compute. eexists. repeat split; reflexivity. Qed.

(* ---------------------------------------------------------------------------------------------- *)
(* read_input: the read queue and the shared parser log                                            *)
(* ---------------------------------------------------------------------------------------------- *)

Theorem C17_read_resets_globals : forall fl fs fuel g main,
  rf_reset_queue fl = true -> rf_restart_clears fl = true ->
  snd (read_file fl fs fuel g main) = snd (read_file fl fs fuel (mk_globals [] []) main)
  /\ g_queue (fst (read_file fl fs fuel g main)) = g_queue (fst (read_file fl fs fuel (mk_globals [] []) main)).
Proof. exact read_result_resets. Qed.
Print Assumptions C17_read_resets_globals.

(* after any read — failed at any point, leaving any queue and log — the next read of the current source
   (flags of the generated table) behaves as in a fresh process *)
Theorem C17_failed_parse_no_residue : forall fs fuel g bad main,
  let fl := flags_of Globals.table in
  let g' := fst (read_file fl fs fuel g bad) in
  snd (read_file fl fs fuel g' main) = snd (read_file fl fs fuel (mk_globals [] []) main).
Proof.
  intros. apply failed_read_no_residue; unfold fl; rewrite C17_reset_flags_hold; reflexivity.
Qed.
Print Assumptions C17_failed_parse_no_residue.

(* one object constructor after any residue in the log *)
Theorem C17_parse_no_residue : forall log c,
  snd (parse_card (flags_of Globals.table) log c) = snd (parse_card (flags_of Globals.table) [] c).
Proof. intros. apply parse_no_residue. rewrite C17_reset_flags_hold. reflexivity. Qed.
Print Assumptions C17_parse_no_residue.

(* residue does exist after failing reads, and both resets are needed *)
Example C17_failing_read_leaves_queue :
  g_queue (fst (read_file (mk_rflags true true) (fun _ => None) 5 (mk_globals [] []) [CReadCard 3; CSyntaxErr])) = [3].
Proof. exact failing_read_leaves_queue. Qed.
Example C17_failing_read_leaves_log :
  g_log (fst (read_file (mk_rflags true true) (fun _ => None) 5 (mk_globals [] []) [CErrThenRaise])) = [1%Z].
Proof. exact failing_read_leaves_log. Qed.
Example C17_no_queue_reset_leaks :
  snd (read_file (mk_rflags false true) (fun _ => None) 5 (mk_globals [7] []) [CGood 1])
  <> snd (read_file (mk_rflags false true) (fun _ => None) 5 (mk_globals [] []) [CGood 1]).
Proof. exact no_queue_reset_leaks. Qed.
Example C17_no_restart_clear_leaks :
  snd (read_file (mk_rflags true false) (fun _ => None) 5 (mk_globals [] [1%Z]) [CGood 1])
  <> snd (read_file (mk_rflags true false) (fun _ => None) 5 (mk_globals [] []) [CGood 1]).
Proof. exact no_restart_clear_leaks. Qed.

(* ---------------------------------------------------------------------------------------------- *)
(* deepcopy                                                                                        *)
(* ---------------------------------------------------------------------------------------------- *)

(* the copy has fresh identities (every reference of the copy is into the copy), is isomorphic to the source
   (same values, same pointer structure), and is closed again — so C17_disjoint applies to original vs copy *)
Theorem C17_deepcopy : forall src dst pr,
  problem_closed src pr = true ->
  let c := copy_problem true src dst pr in
  (forall r, In r (refs_of c) -> fst r = dst)
  /\ map o_val c = map o_val pr
  /\ map (fun o => map snd (o_ptrs o)) c = map (fun o => map snd (o_ptrs o)) pr
  /\ List.length c = List.length pr
  /\ problem_closed dst c = true.
Proof. exact copy_fresh_iso. Qed.
Print Assumptions C17_deepcopy.

Theorem C17_deepcopy_fresh_ids : forall (h : heap) src dst pr,
  hget h dst = None -> problem_closed src pr = true ->
  forall r, In r (refs_of (copy_problem true src dst pr)) -> deref h r = None.
Proof. exact copy_ids_fresh. Qed.
Print Assumptions C17_deepcopy_fresh_ids.

Example C17_deepcopy_hyp_satisfiable :
  problem_closed 0 [mk_obj 1 [(0, 1)]; mk_obj 2 [(0, 0); (0, 1)]] = true
  /\ copy_problem true 0 3 [mk_obj 1 [(0, 1)]; mk_obj 2 [(0, 0); (0, 1)]] = [mk_obj 1 [(3, 1)]; mk_obj 2 [(3, 0); (3, 1)]].
Proof. vm_compute. split; reflexivity. Qed.

(* what a stored caller's container means in the model: a reference into another problem (the hypothesis
   [act_local] of C17_disjoint is exactly what such an API call violates): an edit through it reaches the other problem *)
Definition st_two : state := mk_state [] [(0, Some [mk_obj 1 []]); (1, Some [mk_obj 2 []; mk_obj 5 []])] [].
Example C17_shared_argument_leaks :
  let ops := [mk_op 1 0 0 None (HLink 0 (0, 0)); mk_op 1 0 0 None (HSetVia 0 0 99); mk_op 0 0 0 None HNone] in
  forallb act_local ops = false /\
  outputs_of (Nat.eqb 0) (snd (run Globals.table st_two ops))
  <> outputs_of (Nat.eqb 0) (snd (run Globals.table st_two (ops_of (Nat.eqb 0) ops))).
Proof. vm_compute. split; [reflexivity | discriminate]. Qed.

(* copy hooks that share structure would break isolation (why the table must list none) *)
Example C17_shallow_copy_leaks :
  let ops := [mk_op 0 0 0 None (HCopyTo 1); mk_op 1 0 0 None (HSetVia 0 0 99); mk_op 0 0 0 None HNone] in
  outputs_of (Nat.eqb 0) (snd (run shallow_T st_demo ops))
  <> outputs_of (Nat.eqb 0) (snd (run shallow_T st_demo (ops_of (Nat.eqb 0) ops))).
Proof. exact shallow_copy_leaks. Qed.
