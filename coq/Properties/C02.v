(* C02 — a cell's geometry keeps its Boolean meaning through read, edit and write.
   Headline theorems only; the proofs are in Proofs/GeomProofs.v, the model in Model/Geom.v.

   Vocabulary (Model/Geom.v):
     bexp, eval, beq        Boolean functions of surface senses / cell complements; beq = equal on every assignment
     gtok, GD, GDenotes     MCNP's geometry rules as a relation tokens -> bexp, written independently of MontePy:
                            '#' binds tighter than juxtaposition (intersection), which binds tighter than ':';
                            parentheses override; '#n' is a cell complement leaf
     stok, ptree, pwf       tokens of CellParser and parse trees over the production table that
                            harness/translate_grammar.py generates from the source (Gen/Grammar.v: cell_productions)
     pact                   the semantic action of each geometry production (which GeometryTree it builds)
     gtree, sem_tree        GeometryTree and its meaning;  hs, sem_hs  HalfSpace / UnitHalfSpace and its meaning
     parse_input_node, hs_and hs_or hs_not hs_iop surf_pos surf_neg cell_compl hs_set_left hs_set_right hs_set_op
     update_values (= _ensure_has_nodes + _update_node), format_hs (GeometryTree.format), written_tokens, cell_tokens *)
From Coq Require Import List ZArith Bool String.
From MPV Require Import Model.Geom Gen.Grammar Proofs.GeomProofs.
Import ListNotations.

(* ================================================================== 1. reading *)

(* translator obligations: the productions the model gives an action to are exactly (as sets: the order of SLY's
   table follows the order of the methods in the source) the geometry productions and the padding productions of
   the table generated from CellParser; adding, removing or changing one in the source breaks these equations *)
Theorem C02_grammar_skeleton : same_prods (geom_table cell_productions) (map fst geom_rules) = true.
Proof. exact grammar_skeleton. Qed.
Print Assumptions C02_grammar_skeleton.

Theorem C02_padding_skeleton : same_prods (padding_table cell_productions) padding_prods = true.
Proof. exact padding_skeleton. Qed.
Print Assumptions C02_padding_skeleton.

(* grammar soundness: for EVERY parse tree of geometry_expr over the generated productions (so whichever
   derivation the LALR automaton picks), built without the shortcut productions and without "#-n", the action
   is defined and the tree it builds means what MCNP's rules give for the tokens with the padding removed *)
Theorem C02_grammar_sound : forall t,
  pwf cell_productions t = true -> proot t = "geometry_expr"%string ->
  uses_shortcut t = false -> hash_neg (pyield t) = false ->
  exists g, pact t = Some g /\ GDenotes (strip (pyield t)) (sem_tree g).
Proof. exact grammar_sound. Qed.
Print Assumptions C02_grammar_sound.

(* and the GeometryTree itself does not depend on the derivation: two parse trees of the same geometry text
   build the same tree, so SLY's conflict resolution (14 shift/reduce conflicts in CellParser) cannot change
   what is read *)
Theorem C02_grammar_unambiguous : forall t1 t2,
  pwf cell_productions t1 = true -> proot t1 = "geometry_expr"%string ->
  uses_shortcut t1 = false -> hash_neg (pyield t1) = false ->
  pwf cell_productions t2 = true -> proot t2 = "geometry_expr"%string ->
  uses_shortcut t2 = false -> hash_neg (pyield t2) = false ->
  strip (pyield t1) = strip (pyield t2) -> pact t1 = pact t2.
Proof. exact grammar_unambiguous. Qed.
Print Assumptions C02_grammar_unambiguous.

(* the hypotheses are satisfiable: "( 1 : -2 ) 3 #5 #(4)" with its blanks *)
Example C02_grammar_sound_nonvacuous :
  pwf cell_productions ex_ptree = true /\ proot ex_ptree = "geometry_expr"%string /\
  uses_shortcut ex_ptree = false /\ hash_neg (pyield ex_ptree) = false /\
  strip (pyield ex_ptree) =
    [TLParen; TLeaf true 1; TColon; TLeaf false 2; TRParen; TLeaf true 3; TCompl 5;
     THash; TLParen; TLeaf true 4; TRParen]%Z /\
  pact ex_ptree =
    Some (GBin OInter
            (GBin OInter
               (GBin OInter (GParen (GBin OUnion (GShift (GVal true 1)) (GVal false 2))) (GVal true 3))
               (GCompl (GVal true 5)))
            (GCompl (GParen (GShift (GVal true 4)))))%Z.
Proof. exact ex_ptree_ok. Qed.
Print Assumptions C02_grammar_sound_nonvacuous.

(* "(1:2)#3", a complement directly after a closing parenthesis: (1:2) AND NOT cell 3 *)
Example C02_grammar_sound_glued_complement :
  pwf cell_productions ex_ptree2 = true /\ proot ex_ptree2 = "geometry_expr"%string /\
  uses_shortcut ex_ptree2 = false /\ hash_neg (pyield ex_ptree2) = false /\
  strip (pyield ex_ptree2) = [TLParen; TLeaf true 1; TColon; TLeaf true 2; TRParen; TCompl 3]%Z /\
  option_map sem_tree (pact ex_ptree2) = Some (BAnd (BOr (BSurf true 1) (BSurf true 2)) (BCompl 3))%Z.
Proof. exact ex_ptree2_ok. Qed.
Print Assumptions C02_grammar_sound_glued_complement.

(* the same at the level the rest of the model works at (padding erased): productions with their actions *)
Theorem C02_derives_sound : forall l ts t, Derives l ts t -> GD l ts (sem_tree t).
Proof. exact derives_sound. Qed.
Print Assumptions C02_derives_sound.

(* the syntax tree keeps every token *)
Theorem C02_tree_lossless : forall l ts t, Derives l ts t -> format_tree t = ts.
Proof. exact derives_lossless. Qed.
Print Assumptions C02_tree_lossless.

(* MCNP's rules give a text at most one meaning, and the executable reference parser (the one the harness
   compares spec.py with) is sound for them *)
Theorem C02_reference_unique : forall ts e1 e2, GDenotes ts e1 -> GDenotes ts e2 -> e1 = e2.
Proof. exact GD_unique. Qed.
Print Assumptions C02_reference_unique.

Theorem C02_reference_parser_sound : forall ts e, gparse ts = Some e -> GDenotes ts e.
Proof. exact gparse_sound. Qed.
Print Assumptions C02_reference_parser_sound.

Example C02_reference_parser_nonvacuous :
  gparse [TLeaf true 1; TColon; TLeaf true 2; TLeaf false 3; THash; TLParen; TLeaf true 4; TColon; TCompl 7; TRParen]%Z
  = Some (BOr (BSurf true 1)
              (BAnd (BAnd (BSurf true 2) (BSurf false 3)) (BNot (BOr (BSurf true 4) (BCompl 7)))))%Z.
Proof. exact ex_gparse. Qed.
Print Assumptions C02_reference_parser_nonvacuous.

(* ================================================================== 2. the object the API exposes *)

(* HalfSpace.parse_input_node: the object means what the syntax tree means *)
Theorem C02_tree_to_halfspace : forall t, beq (sem_hs (parse_input_node t)) (sem_tree t).
Proof. exact tree_to_halfspace. Qed.
Print Assumptions C02_tree_to_halfspace.

Example C02_tree_to_halfspace_nonvacuous :
  sem_tree ex_tree =
    BAnd (BAnd (BAnd (BOr (BSurf true 1) (BSurf false 2)) (BSurf true 3))
               (BNot (BAnd (BSurf true 4) (BSurf true 5)))) (BCompl 2) /\
  sem_hs (parse_input_node ex_tree) =
    BAnd (BAnd (BAnd (BOr (BSurf true 1) (BSurf false 2)) (BSurf true 3))
               (BNot (BAnd (BSurf true 4) (BSurf true 5)))) (BNot (BNot (BCompl 2)))%Z.
Proof. exact ex_tree_to_halfspace. Qed.
Print Assumptions C02_tree_to_halfspace_nonvacuous.

(* & | ~ are And Or Not;  +s -s ~c are the leaves *)
Theorem C02_ops : forall a b,
  sem_hs (hs_and a b) = BAnd (sem_hs a) (sem_hs b) /\
  sem_hs (hs_or a b) = BOr (sem_hs a) (sem_hs b) /\
  sem_hs (hs_not a) = BNot (sem_hs a).
Proof. exact ops_sem. Qed.
Print Assumptions C02_ops.

Theorem C02_units : forall n,
  sem_hs (surf_pos n) = BSurf true n /\ sem_hs (surf_neg n) = BSurf false n /\
  beq (sem_hs (cell_compl n)) (BCompl n).
Proof. exact units_sem. Qed.
Print Assumptions C02_units.

(* &= and |= exactly as the code behaves: the new operand is grafted at the end of the right spine of binary
   nodes of the left operand ... *)
Theorem C02_aug_ops : forall op a b,
  sem_hs (fst (hs_iop op a b)) = graft op (sem_hs a) (sem_hs b).
Proof. exact iop_sem. Qed.
Print Assumptions C02_aug_ops.

(* ... which is And / Or when that spine only has the same operator ... *)
Theorem C02_aug_ops_spine : forall op a b, right_spine op (sem_hs a) ->
  beq (sem_hs (fst (hs_iop op a b))) (bop op (sem_hs a) (sem_hs b)).
Proof. exact aug_spine. Qed.
Print Assumptions C02_aug_ops_spine.

(* ... and is not in general ((s1 | s2) &= s3 is s1 | (s2 & s3); MontePy's user guide warns about this, and
   C02 only demands that the object and the written text agree, which C02_write gives) *)
Theorem C02_aug_ops_not_and :
  exists a b, reachable a /\ reachable b /\
    ~ beq (sem_hs (fst (hs_iop OInter a b))) (BAnd (sem_hs a) (sem_hs b)).
Proof. exact aug_differs. Qed.
Print Assumptions C02_aug_ops_not_and.

(* ... but whatever the shape of the left operand, a &= b only removes points of a and keeps those of a & b,
   and a |= b only adds points of b  (bimp x y: y holds wherever x holds).  This is what the oracle demands of
   &= and |= on the real objects. *)
Theorem C02_aug_ops_bounds : forall a b,
  (bimp (BAnd (sem_hs a) (sem_hs b)) (sem_hs (fst (hs_iop OInter a b))) /\
   bimp (sem_hs (fst (hs_iop OInter a b))) (sem_hs a)) /\
  (bimp (sem_hs a) (sem_hs (fst (hs_iop OUnion a b))) /\
   bimp (sem_hs (fst (hs_iop OUnion a b))) (BOr (sem_hs a) (sem_hs b))).
Proof. exact aug_bounds. Qed.
Print Assumptions C02_aug_ops_bounds.

Example C02_aug_ops_nonvacuous :
  sem_hs (fst (hs_iop OInter (hs_or (surf_pos 1) (surf_pos 2)) (surf_pos 3)))
  = BOr (BSurf true 1) (BAnd (BSurf true 2) (BSurf true 3)) /\
  right_spine OInter (sem_hs (hs_and (surf_pos 1) (surf_pos 2)))%Z.
Proof. exact ex_iand. Qed.
Print Assumptions C02_aug_ops_nonvacuous.

(* ================================================================== 3. writing *)

(* reachable: parsed from any derivation, +s -s ~c, closed under & | ~ &= |= , the left / right / operator
   setters, the same edits applied in place to any sub-object (x.left.operator = ..., x.right.left = y,
   x.left &= y; R_at), and having been written before.  The tokens that HalfSpace._update_values + GeometryTree.format produce are a
   geometry by MCNP's rules and denote the Boolean function of the object. *)
Theorem C02_write : forall h, reachable h ->
  exists e, GDenotes (written_tokens h) e /\ beq e (sem_hs h).
Proof. exact write_reachable. Qed.
Print Assumptions C02_write.

(* the same through Cell._update_values, which may keep parentheses around the whole geometry *)
Theorem C02_write_cell : forall h lk, reachable h ->
  exists e, GDenotes (cell_tokens (mkcell h lk)) e /\ beq e (sem_hs h).
Proof. exact cell_write_reachable. Qed.
Print Assumptions C02_write_cell.

(* a reachable object that uses every constructor (parsed "(1:-2) 3 #(4 5) #2", &= a union, right side
   replaced, written once, complemented) and what is written for it *)
Example C02_write_nonvacuous :
  reachable ex_edited /\
  written_tokens ex_edited =
    [THash; TLParen;
       TLParen; TLeaf true 1; TColon; TLeaf false 2; TRParen; TLeaf true 3;
       THash; TLParen; TLeaf true 4; TLeaf true 5; TRParen;
       TLParen; TLeaf true 8; TColon; TLeaf true 9; TRParen;
     TRParen]%Z.
Proof. split; [exact ex_reachable | exact ex_edited_tokens]. Qed.
Print Assumptions C02_write_nonvacuous.

(* histories: built from scratch, written (the syntax nodes now exist), edited in place below the root, written
   again:  (-s1 & +s2) & -s3, geometry.left.operator = UNION  ->  (-1 : 2) -3;
           -s1 & ~c5, geometry.right.left = +s2 | -s3         ->  -1 #(2 : -3) *)
Example C02_write_history_nonvacuous :
  (exists h, hs_at [false] (at_apply (AtSetOp OUnion) (surf_pos 0))
               (update_values (hs_and (hs_and (surf_neg 1) (surf_pos 2)) (surf_neg 3))) = Some h /\
             reachable h /\
             sem_hs h = BAnd (BOr (BSurf false 1) (BSurf true 2)) (BSurf false 3) /\
             written_tokens h = [TLParen; TLeaf false 1; TColon; TLeaf true 2; TRParen; TLeaf false 3]%Z) /\
  (exists h, hs_at [true] (at_apply AtSetL (hs_or (surf_pos 2) (surf_neg 3)))
               (update_values (hs_and (surf_neg 1) (cell_compl 5))) = Some h /\
             reachable h /\
             written_tokens h = [TLeaf false 1; THash; TLParen; TLeaf true 2; TColon; TLeaf false 3; TRParen]%Z).
Proof. exact ex_history. Qed.
Print Assumptions C02_write_history_nonvacuous.

(* built from scratch (no syntax node anywhere): the parentheses the operator tree needs are generated *)
Theorem C02_write_scratch : forall h, scratch h = true ->
  exists e, GDenotes (written_tokens h) e /\ beq e (sem_hs h).
Proof. exact write_scratch. Qed.
Print Assumptions C02_write_scratch.

Example C02_write_scratch_nonvacuous :
  scratch ex_scratch = true /\
  written_tokens ex_scratch = [TLParen; TLeaf false 1; TColon; TLeaf true 2; TRParen; TLeaf false 3]%Z.
Proof. exact ex_write_scratch. Qed.
Print Assumptions C02_write_scratch_nonvacuous.

(* parsed and not edited: exactly the tokens that were read come back (redundant parentheses included) *)
Theorem C02_unedited_exact : forall ts t, Derives LE ts t -> cell_tokens (parse_cell t) = ts.
Proof. exact unedited_exact. Qed.
Print Assumptions C02_unedited_exact.

Example C02_unedited_nonvacuous : Derives LE ex_tokens ex_tree /\ cell_tokens (parse_cell ex_tree) = ex_tokens.
Proof. split; [exact ex_derives | exact ex_unedited]. Qed.
Print Assumptions C02_unedited_nonvacuous.

(* the wire entry the harness drives (operator programs on a parsed cell or from scratch): every program that
   runs writes a text that means what the resulting object means *)
Theorem C02_programs : forall base p h toks,
  run_case base p = inr (h, toks) ->
  exists e, GDenotes toks e /\ beq e (sem_hs h).
Proof. exact run_case_correct. Qed.
Print Assumptions C02_programs.

Example C02_programs_nonvacuous :
  exists h, run_case (Some (GBin OInter (GParen (GBin OUnion (GShift (GVal true 1)) (GVal false 2))) (GVal true 3)))
              [IBase; ISurf true 4; ISurf false 5; IOr; IIand]
  = inr (h, [TLParen; TLeaf true 1; TColon; TLeaf false 2; TRParen; TLeaf true 3;
             TLParen; TLeaf true 4; TColon; TLeaf false 5; TRParen])%Z.
Proof. exact ex_run_case. Qed.
Print Assumptions C02_programs_nonvacuous.

(* ================================================================== 4. the HalfSpace.operator setter *)

(* not one of the operators the property lists, but part of the API and covered by C02_write (R_set_op):
   "1:2:3" read, geometry.operator = INTERSECTION: the object is (1:2) 3 and so is the text.
   (Before the repair of _child_node the text was "1 : 2 3"; the check reported it.) *)
Example C02_write_setop_nonvacuous :
  exists t h, Derives LE w123 t /\ hs_set_op (parse_input_node t) OInter = Some h /\
    sem_hs h = BAnd (BOr (BSurf true 1) (BSurf true 2)) (BSurf true 3) /\
    written_tokens h = [TLParen; TLeaf true 1; TColon; TLeaf true 2; TRParen; TLeaf true 3]%Z.
Proof. exact ex_setop. Qed.
Print Assumptions C02_write_setop_nonvacuous.
