(* C02 — a cell's geometry keeps its Boolean meaning through read, edit and write.
   Headline theorems only; the proofs are in Proofs/GeomProofs.v, the model in Model/Geom.v. *)
From Coq Require Import List ZArith Bool String.
From MPV Require Import Model.Geom Proofs.GeomProofs.
Import ListNotations.
Open Scope Z_scope.

Theorem C02_write : forall h, reachable h ->
  exists e, GDenotes (written_tokens h) e /\ beq e (sem_hs h).
Proof. exact write_reachable. Qed.
Print Assumptions C02_write.
