(* C16 — forward links and reverse look-ups of the object graph always agree.
   Headline theorems only; model: Model/Graph.v, proofs: Proofs/GraphProofs.v.

   Definitions (Proofs/GraphProofs.v):
     lst isc r        := if isc then c_comps r else c_surfs r          (cell.complements / cell.surfaces)
     cell_ok r        := forall h, c_geom r = Some h -> forall isc, incl (leaves isc h) (lst isc r)
     cell_exact r     := forall h, c_geom r = Some h -> forall isc x, In x (lst isc r) <-> In x (leaves isc h)
     Links g          := forall c, In c (coll g KCell) -> cell_ok (cellf g c)
     LinksAll g       := forall c, cell_ok (cellf g c)           (cells outside problem.cells too)
     LinksExact g     := forall c, In c (coll g KCell) -> cell_exact (cellf g c)
     Linked g         := (forall k o, In o (coll g k) -> plink g k o = true) /\ (forall k, clinked g k = true)
     UnivOK g         := every member cell has c_univ = Some u with u a linked member of problem.universes
     Raw g            := NoDup (coll g KCell) /\ every divider of a member cell is still an integer (parser output)
   Side conditions (Model/Graph.v, executable, printed by the model for every operation of every
   correspondence case): links_safe, linked_safe, univ_safe; all_safe p g ops := p holds for every
   operation in the state it is applied to. *)
From Coq Require Import List ZArith Bool.
From MPV Require Import Model.Graph Proofs.GraphProofs.
Import ListNotations.
Open Scope nat_scope.

(* 1. reading: __update_internal_pointers establishes "exactly those", links every member and puts
      every cell into a universe of the problem *)
Theorem C16_after_read :
  forall g0 g, Raw g0 -> Linked g0 -> update_pointers g0 = (g, ROk) ->
    LinksExact g /\ Linked g /\ UnivOK g /\ coll g KCell = coll g0 KCell /\
    (forall x, ~ In x (coll g0 KCell) ->
       c_geom (cellf g x) = c_geom (cellf g0 x) /\ forall isc, lst isc (cellf g x) = lst isc (cellf g0 x)).
Proof. exact update_pointers_spec. Qed.
Print Assumptions C16_after_read.

Theorem C16_exact_implies_links : forall r, cell_exact r -> cell_ok r.
Proof. exact cell_exact_ok. Qed.
Print Assumptions C16_exact_implies_links.

(* 2. every operation outside the defect classes preserves Links (arbitrary operation lists) *)
Theorem C16_step_preserved_partial :
  forall g o, LinksAll g -> links_safe g o = true -> LinksAll (fst (step g o)).
Proof. exact step_links. Qed.
Print Assumptions C16_step_preserved_partial.

Theorem C16_preserved_partial :
  forall ops g, LinksAll g -> all_safe links_safe g ops = true -> LinksAll (run g ops).
Proof. exact run_links. Qed.
Print Assumptions C16_preserved_partial.

Theorem C16_read_then_edit_partial :
  forall g0 g ops, Raw g0 -> Linked g0 -> update_pointers g0 = (g, ROk) ->
    (forall x, ~ In x (coll g0 KCell) -> cell_ok (cellf g0 x)) ->
    all_safe links_safe g ops = true -> LinksAll (run g ops).
Proof.
  intros g0 g ops R L H NM S. apply run_links; [eapply read_then_links_all; eauto | exact S].
Qed.
Print Assumptions C16_read_then_edit_partial.

(* 2'. the full statement does not hold for the current code: four witnesses *)
Theorem C16_preserved_refuted_dedup :
  exists g ops, Links g /\ LinksAll g /\ ~ Links (run g ops).
Proof. exists wit, [Dedup []]. exact dedup_breaks_links. Qed.
Print Assumptions C16_preserved_refuted_dedup.

Theorem C16_material_reverts_refuted :
  exists g c m m', m <> m' /\
    c_mat (cellf (run g [SetMat c (Some m')]) c) = Some m' /\
    c_mat (cellf (run g [SetMat c (Some m'); Dedup []]) c) = Some m.
Proof.
  exists wit, 0, 0, 1. split; [discriminate|]. exact dedup_reverts_material.
Qed.
Print Assumptions C16_material_reverts_refuted.

Theorem C16_preserved_refuted_inplace :
  exists g o, LinksAll g /\ snd (step g o) = ROk /\ ~ Links (run g [o]).
Proof.
  exists wit, (IopIn 0 [] OAnd (ESurf 2)). split; [apply wit_LinksAll|]. exact inplace_breaks_links.
Qed.
Print Assumptions C16_preserved_refuted_inplace.

Theorem C16_preserved_refuted_divider :
  exists g o1 o2, LinksAll g /\ snd (step g o1) = ROk /\ snd (step (run g [o1]) o2) = ROk /\
    ~ Links (run g [o1; o2]).
Proof.
  exists wit, (SetGeom 0 (EAnd (ESurf 0) (ESurf 1))), (SetDiv 0 [false] false 2).
  split; [apply wit_LinksAll|]. exact divider_breaks_links.
Qed.
Print Assumptions C16_preserved_refuted_divider.

(* 2''. an assignment that the cell refuses (two dividers with one number) changes nothing
       (the state of the code after the repairs 2b787be and 5df37b2) *)
Theorem C16_refused_geometry_unchanged :
  forall g c e g', set_geom g c e = (g', RErr NumberConflict) -> g' = g.
Proof. exact set_geom_conflict_atomic. Qed.
Print Assumptions C16_refused_geometry_unchanged.

Theorem C16_refused_divider_unchanged :
  forall g c p isc d g', set_div g c p isc d = (g', RErr NumberConflict) -> g' = g.
Proof. exact set_div_conflict_atomic. Qed.
Print Assumptions C16_refused_divider_unchanged.

(* 3. reverse look-ups are the filters over the forward links *)
Theorem C16_reverse :
  forall g, Linked g ->
    (forall s, In s (coll g KSurf) ->
       surface_cells g s = filter (fun c => mem_o s (c_surfs (cellf g c))) (coll g KCell)) /\
    (forall m, In m (coll g KMat) ->
       material_cells g m = filter (fun c => opt_is (c_mat (cellf g c)) m) (coll g KCell)) /\
    (forall u, In u (coll g KUniv) ->
       universe_cells g u = filter (fun c => opt_is (c_univ (cellf g c)) u) (coll g KCell)) /\
    (forall c, In c (coll g KCell) ->
       complementing g c =
       filter (fun c' => andb (negb (Nat.eqb c' c)) (mem_o c (c_comps (cellf g c')))) (coll g KCell)).
Proof. exact reverse_lookups. Qed.
Print Assumptions C16_reverse.

Theorem C16_reverse_membership :
  forall g, Linked g ->
    (forall s c, In s (coll g KSurf) ->
       (In c (surface_cells g s) <-> In c (coll g KCell) /\ In s (c_surfs (cellf g c)))) /\
    (forall m c, In m (coll g KMat) ->
       (In c (material_cells g m) <-> In c (coll g KCell) /\ c_mat (cellf g c) = Some m)) /\
    (forall u c, In u (coll g KUniv) ->
       (In c (universe_cells g u) <-> In c (coll g KCell) /\ c_univ (cellf g c) = Some u)) /\
    (forall c c', In c (coll g KCell) ->
       (In c' (complementing g c) <-> In c' (coll g KCell) /\ c' <> c /\ In c (c_comps (cellf g c')))).
Proof. exact reverse_membership. Qed.
Print Assumptions C16_reverse_membership.

Theorem C16_unlinked_yields_nothing :
  forall g,
    (forall s, plink g KSurf s = false -> surface_cells g s = []) /\
    (forall m, plink g KMat m = false -> material_cells g m = []) /\
    (forall u, plink g KUniv u = false -> universe_cells g u = []) /\
    (forall c, plink g KCell c = false -> complementing g c = []).
Proof. exact unlinked_yields_nothing. Qed.
Print Assumptions C16_unlinked_yields_nothing.

(* 4. every cell is in exactly one universe *)
Theorem C16_one_universe :
  forall g, UnivOK g -> forall c, In c (coll g KCell) ->
    exists u, In u (coll g KUniv) /\ forall u', In c (universe_cells g u') <-> u' = u.
Proof. exact one_universe. Qed.
Print Assumptions C16_one_universe.

Theorem C16_universe_partial :
  forall ops g, UnivOK g -> all_safe univ_safe g ops = true -> UnivOK (run g ops).
Proof. exact run_univ. Qed.
Print Assumptions C16_universe_partial.

Theorem C16_universe_refuted :
  exists g x, UnivOK g /\ snd (step g (Append KCell x)) = ROk /\ ~ UnivOK (run g [Append KCell x]).
Proof. exists wit, 7. split; [apply wit_props|]. exact append_breaks_univ. Qed.
Print Assumptions C16_universe_refuted.

(* 5. members are linked to the problem *)
Theorem C16_linked_partial :
  forall ops g, Linked g -> all_safe linked_safe g ops = true -> Linked (run g ops).
Proof. exact run_linked. Qed.
Print Assumptions C16_linked_partial.

Theorem C16_linked_refuted :
  exists g ops s, Linked g /\ In s (coll (run g ops) KSurf) /\ plink (run g ops) KSurf s = false /\
    ~ Linked (run g ops).
Proof.
  exists wit, [SetGeom 0 (ESurf 5); AddChildren], 5. split; [apply wit_props|]. exact children_breaks_linked.
Qed.
Print Assumptions C16_linked_refuted.

(* 6. after add_cell_children_to_problem every used surface / material / transform is a member,
      and (when it did not raise) its card is among the data inputs that are written *)
Theorem C16_children :
  forall g g' r, add_children_to_problem g = (g', r) -> r <> RErr NumberConflict ->
    (incl (used_surfs g') (coll g' KSurf) /\ incl (used_mats g') (coll g' KMat) /\
     incl (used_trs g') (coll g' KTr)) /\
    (r = ROk -> (forall m, In m (coll g' KMat) -> In (DMat m) (dins g')) /\
                (forall t, In t (coll g' KTr) -> In (DTr t) (dins g'))).
Proof. exact children_spec. Qed.
Print Assumptions C16_children.

(* 7. the hypotheses are satisfiable: a concrete problem (2 cells, 3 surfaces, 2 materials, a cell
      complement), read by update_pointers, and an 8-operation program of safe operations *)
Example C16_nonvacuous_read :
  Raw wit_raw /\ Linked wit_raw /\ update_pointers wit_raw = (wit, ROk) /\ coll wit KCell = [0; 1] /\
  c_surfs (cellf wit 0) = [0; 1] /\ c_comps (cellf wit 1) = [0].
Proof.
  split; [exact wit_raw_Raw|]. split; [exact wit_raw_Linked|]. split; [exact wit_read_ok|].
  split; [vm_compute; reflexivity|]. split; vm_compute; reflexivity.
Qed.
Print Assumptions C16_nonvacuous_read.

Example C16_nonvacuous_edit :
  LinksAll wit /\ Linked wit /\ UnivOK wit /\ List.length wit_safe_ops = 8 /\
  all_safe links_safe wit wit_safe_ops = true /\ all_safe linked_safe wit wit_safe_ops = true /\
  all_safe univ_safe wit wit_safe_ops = true.
Proof.
  split; [exact wit_LinksAll|]. split; [apply wit_props|]. split; [apply wit_props|].
  split; [reflexivity|]. exact wit_safe_ops_safe.
Qed.
Print Assumptions C16_nonvacuous_edit.
