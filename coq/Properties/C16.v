(* C16 — forward links and reverse look-ups of the object graph always agree.
   Headline theorems only; model: Model/Graph.v, proofs: Proofs/GraphProofs.v.

   Definitions (Proofs/GraphProofs.v):
     lst isc r        := if isc then c_comps r else c_surfs r          (cell.complements / cell.surfaces)
     cell_ok r        := forall h, c_geom r = Some h -> forall isc, incl (leaves isc h) (lst isc r)
     cell_exact r     := forall h, c_geom r = Some h -> forall isc x, In x (lst isc r) <-> In x (leaves isc h)
     Links g          := forall c, In c (coll g KCell) -> cell_ok (cellf g c)
     LinksAll g       := forall c, cell_ok (cellf g c)           (cells outside problem.cells too)
     LinksExact g     := forall c, In c (coll g KCell) -> cell_exact (cellf g c)
     owned c h        := every node of the tree h has _cell = cell c
     Owned g          := forall c h, c_geom (cellf g c) = Some h -> owned c h
     Inv g            := LinksAll g /\ Owned g
     Linked g         := (forall k o, In o (coll g k) -> plink g k o = true) /\ (forall k, clinked g k = true)
     UnivOK g         := every member cell has c_univ = Some u with u a linked member of problem.universes
     Raw g            := NoDup (coll g KCell) /\ every divider of a member cell is still an integer (parser output)
   Side conditions (Model/Graph.v, executable, printed by the model for every operation of every
   correspondence case):
     links_safe g o   := o is not the private pointer resolution (Relink), and the duplicate map of a
                         remove_duplicate_surfaces never removes a survivor (dedup_map_ok)
     linked_safe g o  := o is not Relink
     univ_safe g o    := a cell is only appended / moved into a universe the problem holds, a universe
                         is only removed when no member cell is in it, o is not Relink
     no_relink ops    := links_safe for every operation, decided from the program alone
     quiet_op o       := o changes neither a geometry nor a cell's lists (assignments of material, universe,
                         fill, transforms, numbers; collection operations; add_cell_children_to_problem)
     all_safe p g ops := p holds for every operation in the state it is applied to *)
From Coq Require Import List ZArith Bool.
From MPV Require Import Model.Graph Proofs.GraphProofs.
Import ListNotations.
Open Scope nat_scope.

(* 1. reading: __update_internal_pointers establishes "exactly those", links every member, puts
      every cell into a universe of the problem, and points every node of every geometry at its cell *)
Theorem C16_after_read :
  forall g0 g, Raw g0 -> Linked g0 -> update_pointers g0 = (g, ROk) ->
    LinksExact g /\ Linked g /\ UnivOK g /\ coll g KCell = coll g0 KCell /\
    (forall x, ~ In x (coll g0 KCell) ->
       c_geom (cellf g x) = c_geom (cellf g0 x) /\ forall isc, lst isc (cellf g x) = lst isc (cellf g0 x)) /\
    (forall c, In c (coll g KCell) -> forall h, c_geom (cellf g c) = Some h -> owned c h).
Proof. exact update_pointers_spec. Qed.
Print Assumptions C16_after_read.

Theorem C16_exact_implies_links : forall r, cell_exact r -> cell_ok r.
Proof. exact cell_exact_ok. Qed.
Print Assumptions C16_exact_implies_links.

(* 2. every operation of the API preserves Links: geometry assignment, &= and |= in their three
      call shapes (cell.geometry &= e / g = node; g &= e / node.left &= e), divider replacement,
      material / universe / fill / transform assignment, renumbering, append / extend / += / remove,
      add_cell_children_to_problem, remove_duplicate_surfaces — accepted or refused, in any order *)
Theorem C16_step_preserved :
  forall g o, Inv g -> links_safe g o = true -> Inv (fst (step g o)).
Proof. exact step_inv. Qed.
Print Assumptions C16_step_preserved.

Theorem C16_preserved :
  forall ops g, Inv g -> no_relink ops = true -> LinksAll (run g ops) /\ Owned (run g ops).
Proof. intros ops g V N. apply run_inv; [exact V | apply no_relink_all_safe; exact N]. Qed.
Print Assumptions C16_preserved.

Theorem C16_read_then_edit :
  forall g0 g ops, Raw g0 -> Linked g0 -> update_pointers g0 = (g, ROk) ->
    (forall x, ~ In x (coll g0 KCell) ->
       cell_ok (cellf g0 x) /\ forall h, c_geom (cellf g0 x) = Some h -> owned x h) ->
    no_relink ops = true -> Links (run g ops).
Proof.
  intros g0 g ops R L H NM N c _. apply (run_inv ops g); [eapply read_then_inv; eauto | apply no_relink_all_safe; exact N].
Qed.
Print Assumptions C16_read_then_edit.

(* 2''. node.left = sub / node.right = sub with a side taken from ANOTHER cell's geometry (it keeps the
        _cell it has): the cell of the node takes the side's dividers whoever owned the side before, so
        Links holds after it and after every later operation that changes no geometry (quiet_op); node
        ownership (Owned) does not survive it, which is why later in-place edits are outside this theorem *)
Theorem C16_foreign_side :
  forall ops1 c p sd c2 p2 ops2 g,
    Inv g -> no_relink ops1 = true -> forallb quiet_op ops2 = true ->
    LinksAll (run g (ops1 ++ SetSide c p sd c2 p2 :: ops2)).
Proof. exact foreign_side_links. Qed.
Print Assumptions C16_foreign_side.

(* 2'. an assignment that the cell refuses (two dividers with one number) changes nothing *)
Theorem C16_refused_geometry_unchanged :
  forall g c e g', set_geom g c e = (g', RErr NumberConflict) -> g' = g.
Proof. exact set_geom_conflict_atomic. Qed.
Print Assumptions C16_refused_geometry_unchanged.

Theorem C16_refused_divider_unchanged :
  forall g c p isc d g', set_div g c p isc d = (g', RErr NumberConflict) -> g' = g.
Proof. exact set_div_conflict_atomic. Qed.
Print Assumptions C16_refused_divider_unchanged.

(* 3. reverse look-ups are the filters over the forward links *)
Theorem C16_reverse :
  forall g, Linked g ->
    (forall s, In s (coll g KSurf) ->
       surface_cells g s = filter (fun c => mem_o s (c_surfs (cellf g c))) (coll g KCell)) /\
    (forall m, In m (coll g KMat) ->
       material_cells g m = filter (fun c => opt_is (c_mat (cellf g c)) m) (coll g KCell)) /\
    (forall u, In u (coll g KUniv) ->
       universe_cells g u = filter (fun c => opt_is (c_univ (cellf g c)) u) (coll g KCell)) /\
    (forall c, In c (coll g KCell) ->
       complementing g c =
       filter (fun c' => andb (negb (Nat.eqb c' c)) (mem_o c (c_comps (cellf g c')))) (coll g KCell)).
Proof. exact reverse_lookups. Qed.
Print Assumptions C16_reverse.

Theorem C16_reverse_membership :
  forall g, Linked g ->
    (forall s c, In s (coll g KSurf) ->
       (In c (surface_cells g s) <-> In c (coll g KCell) /\ In s (c_surfs (cellf g c)))) /\
    (forall m c, In m (coll g KMat) ->
       (In c (material_cells g m) <-> In c (coll g KCell) /\ c_mat (cellf g c) = Some m)) /\
    (forall u c, In u (coll g KUniv) ->
       (In c (universe_cells g u) <-> In c (coll g KCell) /\ c_univ (cellf g c) = Some u)) /\
    (forall c c', In c (coll g KCell) ->
       (In c' (complementing g c) <-> In c' (coll g KCell) /\ c' <> c /\ In c (c_comps (cellf g c')))).
Proof. exact reverse_membership. Qed.
Print Assumptions C16_reverse_membership.

Theorem C16_unlinked_yields_nothing :
  forall g,
    (forall s, plink g KSurf s = false -> surface_cells g s = []) /\
    (forall m, plink g KMat m = false -> material_cells g m = []) /\
    (forall u, plink g KUniv u = false -> universe_cells g u = []) /\
    (forall c, plink g KCell c = false -> complementing g c = []).
Proof. exact unlinked_yields_nothing. Qed.
Print Assumptions C16_unlinked_yields_nothing.

(* 4. every object held by a collection of the problem is linked to the problem: preserved by every
      operation of the API (add_cell_children_to_problem and remove_duplicate_surfaces included) *)
Theorem C16_linked :
  forall ops g, Linked g -> all_safe linked_safe g ops = true -> Linked (run g ops).
Proof. exact run_linked. Qed.
Print Assumptions C16_linked.

(* 5. every cell is in exactly one universe *)
Theorem C16_one_universe :
  forall g, UnivOK g -> forall c, In c (coll g KCell) ->
    exists u, In u (coll g KUniv) /\ forall u', In c (universe_cells g u') <-> u' = u.
Proof. exact one_universe. Qed.
Print Assumptions C16_one_universe.

Theorem C16_universe_partial :
  forall ops g, UnivOK g -> all_safe univ_safe g ops = true -> UnivOK (run g ops).
Proof. exact run_univ. Qed.
Print Assumptions C16_universe_partial.

(* ... but not for a cell made by Cell() and appended: it has no universe *)
Theorem C16_universe_refuted :
  exists g x, UnivOK g /\ snd (step g (Append KCell x)) = ROk /\ ~ UnivOK (run g [Append KCell x]).
Proof. exists wit, 7. split; [apply wit_props|]. exact append_breaks_univ. Qed.
Print Assumptions C16_universe_refuted.

(* 6. add_cell_children_to_problem either refuses (a number used twice) and changes nothing, or every
      used surface / material / transform is a member, linked to the problem, and the M and TR
      cards are among the data inputs that are written *)
Theorem C16_children :
  forall g g' r, add_children_to_problem g = (g', r) ->
    (r = RErr NumberConflict /\ g' = g) \/
    (r = ROk /\
     incl (used_surfs g') (coll g' KSurf) /\ incl (used_mats g') (coll g' KMat) /\
     incl (used_trs g') (coll g' KTr) /\
     (forall m, In m (coll g' KMat) -> In (DMat m) (dins g')) /\
     (forall t, In t (coll g' KTr) -> In (DTr t) (dins g')) /\
     (forall s, In s (coll g' KSurf) -> plink g' KSurf s = true) /\
     (forall m, In m (coll g' KMat) -> plink g' KMat m = true) /\
     (forall t, In t (coll g' KTr) -> plink g' KTr t = true)).
Proof. exact children_spec. Qed.
Print Assumptions C16_children.

(* 7. the hypotheses are satisfiable: a concrete problem (2 cells, 3 surfaces, 2 materials, a cell
      complement) read by update_pointers, and a 13-operation program with every kind of operation,
      all accepted, that changes the lists *)
Example C16_nonvacuous_read :
  Raw wit_raw /\ Linked wit_raw /\ update_pointers wit_raw = (wit, ROk) /\ coll wit KCell = [0; 1] /\
  c_surfs (cellf wit 0) = [0; 1] /\ c_comps (cellf wit 1) = [0].
Proof.
  split; [exact wit_raw_Raw|]. split; [exact wit_raw_Linked|]. split; [exact wit_read_ok|].
  split; [vm_compute; reflexivity|]. split; vm_compute; reflexivity.
Qed.
Print Assumptions C16_nonvacuous_read.

Example C16_nonvacuous_edit :
  Inv wit /\ Linked wit /\ UnivOK wit /\ List.length wit_safe_ops = 13 /\
  (no_relink wit_safe_ops = true /\
   all_safe links_safe wit wit_safe_ops = true /\ all_safe linked_safe wit wit_safe_ops = true /\
   all_safe univ_safe wit wit_safe_ops = true) /\
  (c_surfs (cellf wit 0) = [0; 1] /\
   c_surfs (cellf (run wit wit_safe_ops) 0) <> c_surfs (cellf wit 0) /\
   In 5 (coll (run wit wit_safe_ops) KSurf) /\ ~ In 2 (coll (run wit wit_safe_ops) KSurf)).
Proof.
  split; [exact wit_Inv|]. split; [apply wit_props|]. split; [apply wit_props|].
  split; [reflexivity|]. split; [exact wit_safe_ops_safe | exact wit_safe_ops_effect].
Qed.
Print Assumptions C16_nonvacuous_edit.
