(* C13 — bad input fails in a controlled way: a deliberate error, never a leak or hang.
   Headline theorems only.  The general statements (ANY class hierarchy, handler table, chain of try statements,
   exception and event sequence) are proved in Proofs/ExnProofs.v over the routing model Model/Exn.v; here they are
   instantiated on [gen_tables], which harness/translate_errors.py regenerates from the source of montepy on every
   run (Gen/Errors.v): the class hierarchy of errors.py, every try/except with the exits of its clauses, the chains
   of the routing sites of read_input, the step order of MCNP_Object.__init__, and the raise statements / leak-prone
   primitive operations of the functions reachable from each site.  The C13_gen_* obligations are decided by
   vm_compute on those tables: removing the ValueError -> MalformedInputError conversion, dropping the None-tree test,
   narrowing an except tuple, re-raising instead of warning in check mode or converting into an undocumented class
   makes the corresponding obligation fail to compile.

   PARTIAL, as DESIGN.md §6 C13 says: which exception the inner Python code raises on a corrupted input is not
   modelled; the theorems cover the ROUTING of whatever is raised.  The quantifier over corruptions is explored by the
   search of harness/props/C13.py.  Termination of the read-card queue is C20's model (Model/ReadQ.v). *)
From Coq Require Import List String Ascii Bool Arith.
From MPV Require Import Model.Wire Model.Exn Proofs.ExnProofs Gen.Errors.
Import ListNotations.
Open Scope string_scope.
Open Scope list_scope.

Definition H := t_hier gen_tables.
Definition hs := t_handlers gen_tables.

(* ---------------------------------------------------------------- obligations on the generated tables *)
Theorem C13_gen_tables_wf : tables_wf gen_tables = true.
Proof. vm_compute. reflexivity. Qed.
Print Assumptions C13_gen_tables_wf.

(* the text the harness sends to the extracted model denotes the same hierarchy and, for every site, a chain that
   routes every class of the hierarchy (both origins, both modes) exactly like the table chain *)
Theorem C13_gen_wire : wire_ok gen_tables gen_hierarchy_wire gen_site_wires = true.
Proof. vm_compute. reflexivity. Qed.
Print Assumptions C13_gen_wire.

(* no handler of any try statement of montepy converts into a class outside the documented / explicit sets *)
Theorem C13_leak_free_handlers : leak_free_handlers gen_tables = true /\ bad_converts gen_tables = [].
Proof. vm_compute. auto. Qed.
Print Assumptions C13_leak_free_handlers.

Theorem C13_gen_chains_ok : sites_chain_ok gen_tables = true /\ rows_chain_ok gen_tables = true.
Proof. vm_compute. auto. Qed.
Print Assumptions C13_gen_chains_ok.

(* MCNP_Object.__init__: guarded parse, then `if self._tree is None: raise <documented class>`, then the first use *)
Theorem C13_gen_init_ok : init_ok H gen_init_steps = true.
Proof. vm_compute. reflexivity. Qed.
Print Assumptions C13_gen_init_ok.

(* the guarded parser call: every ValueError (sub)class raised by the parser actions — deliberately or by a failed
   conversion — leaves the `parse` site controlled *)
Theorem C13_gen_parse_site_guarded : parse_site_guards_value_errors gen_tables = true.
Proof. vm_compute. reflexivity. Qed.
Print Assumptions C13_gen_parse_site_guarded.

(* the conversion of parse_input around the builder of an input's object (fix 2747fab): whatever ValueError, TypeError,
   AttributeError, LookupError (KeyError, IndexError) or LexError the constructors or the parser raise leaves the
   `construct` and `parse` sites as a controlled exception *)
Theorem C13_gen_construct_site_guarded :
  site_guards gen_tables "construct" ["ValueError"; "TypeError"; "AttributeError"; "LookupError"; "LexError"] = true /\
  site_guards gen_tables "parse" ["ValueError"; "TypeError"; "AttributeError"; "LookupError"; "LexError"] = true.
Proof. vm_compute. auto. Qed.
Print Assumptions C13_gen_construct_site_guarded.

(* "only allowed once": in MCNP_Problem.__load_data_inputs_to_object (MODE) and Cells.update_pointers (VOL, U, LAT,
   FILL) the key recorded for an input is the key tested for the next one, and the error raised is a documented class —
   a second MODE input cannot pass unnoticed *)
Theorem C13_gen_once_only :
  once_rules_ok H gen_once_rules
    ["mcnp_problem.py:MCNP_Problem.__load_data_inputs_to_object"; "cells.py:Cells.update_pointers"] = true.
Proof. vm_compute. reflexivity. Qed.
Print Assumptions C13_gen_once_only.

(* the per-input handler of parse_input and the pointer-update handlers report exactly these classes in check mode
   (a narrowed except tuple or a handler that re-raises breaks this) *)
Definition warned_at (sname : string) (c : cls) : option (cls * bool) := warned_by H hs (site_chain gen_tables sname) c.
Theorem C13_gen_check_handlers :
  (forall c, In c ["MalformedInputError"; "ParsingError"; "BrokenObjectLinkError"; "NumberConflictError"; "UnknownElement"] ->
     forall s, In s ["construct"; "tree_none"; "link"; "append"] -> warned_at s c = Some (c, false))
  /\ warned_at "parse" "ValueError" = Some ("MalformedInputError", false)
  /\ (forall c, In c ["ValueError"; "TypeError"; "AttributeError"; "KeyError"; "IndexError"; "LexError"] ->
        warned_at "construct" c = Some ("MalformedInputError", false))
  /\ warned_at "append_material" "NumberConflictError" = Some ("NumberConflictError", false)
  /\ warned_at "append_transform" "NumberConflictError" = Some ("NumberConflictError", false)
  /\ warned_at "load_data" "MalformedInputError" = Some ("MalformedInputError", false)
  /\ (forall c, In c ["BrokenObjectLinkError"; "ParticleTypeNotInProblem"; "ParticleTypeNotInCell"] ->
        warned_at "cells_modifiers" c = Some (c, false))
  /\ (forall s, In s ["parse"; "construct"; "syntax"; "read_card"] ->
        warned_at s "UnsupportedFeature" = Some ("UnsupportedFeature", true))
  /\ (forall c, In c ["BrokenObjectLinkError"; "MalformedInputError"; "ParticleTypeNotInProblem"; "ParticleTypeNotInCell"] ->
        warned_at "cell_pointers" c = Some (c, false) /\ warned_at "data_pointers" c = Some (c, false))
  /\ (forall c, In c ["BrokenObjectLinkError"; "ParticleTypeNotInProblem"; "ParticleTypeNotInCell"] ->
        warned_at "surface_pointers" c = Some (c, false))
  /\ warned_at "cells_modifiers" "MalformedInputError" = Some ("MalformedInputError", false)
  /\ warned_at "cells_merge" "MalformedInputError" = Some ("MalformedInputError", false)
  /\ warned_at "cells_once" "MalformedInputError" = Some ("MalformedInputError", false).
Proof.
  repeat split; intros; cbn [In] in *;
    repeat match goal with
           | K : _ \/ _ |- _ => destruct K as [K|K]
           | K : False |- _ => destruct K
           end; subst; vm_compute; reflexivity.
Qed.
Print Assumptions C13_gen_check_handlers.

(* ---------------------------------------------------------------- headline theorems *)
(* 1. ROUTING, any chain: along any chain of try statements whose handlers only convert into controlled classes, a
      controlled exception (documented type, FileNotFoundError, or a ValueError/TypeError raised by a raise statement
      of MontePy) can leave only as a controlled exception — every class of the hierarchy, both modes *)
Theorem C13_routing : forall check chain e o,
  chain_ok H hs chain = true -> controlled_exn H e = true ->
  In o (route H hs check chain e) -> controlled H o = true.
Proof.
  intros check chain e o OK CE Hin.
  pose proof (route_controlled H hs check chain e OK CE) as A.
  unfold all_controlled in A. rewrite forallb_forall in A. apply A; exact Hin.
Qed.
Print Assumptions C13_routing.

(* hypotheses satisfiable, non-trivially: a ValueError raised deliberately inside the parser actions leaves the
   `parse` site as a MalformedInputError *)
Example C13_routing_example :
  chain_ok H hs (site_chain gen_tables "parse") = true /\
  controlled_exn H (mkexn "ValueError" Deliberate) = true /\
  route H hs false (site_chain gen_tables "parse") (mkexn "ValueError" Deliberate)
    = [Raised (mkexn "MalformedInputError" Deliberate)].
Proof. vm_compute. auto. Qed.

(* 1'. every raise statement of the functions reachable from a routing site, routed from where it stands (its local
       try statements, then the chain of the site): the outcome is controlled — for every row of the generated table *)
Theorem C13_routing_sites : forall r o,
  In r (t_raises gen_tables) ->
  In o (route_at gen_tables false (r_site r) (r_local r) (mkexn (r_cls r) Deliberate)) ->
  controlled H o = true.
Proof.
  intros r o Hin Ho.
  destruct (raise_partition gen_tables r Hin) as [L|C].
  - assert (E : raise_leaks gen_tables = []) by (vm_compute; reflexivity). rewrite E in L. destruct L.
  - unfold all_controlled in C. rewrite forallb_forall in C. apply C; exact Ho.
Qed.
Print Assumptions C13_routing_sites.

(* 1''. whole call: any sequence of inputs, any subset of them raising controlled exceptions at sites whose chains are
        fine: parse_input returns or fails with a controlled exception (event lists of any length) *)
Theorem C13_parse_input_fails_controlled : forall check pick loop ptr e ws,
  forallb (event_ok H hs) loop = true -> forallb (event_ok H hs) ptr = true ->
  run_problem H hs check pick loop ptr = Failed e ws -> controlled_exn H e = true.
Proof. exact (parse_input_fails_controlled H hs). Qed.
Print Assumptions C13_parse_input_fails_controlled.

Example C13_parse_input_example :
  let ok := mkevent (site_chain gen_tables "construct") None in
  let bad := mkevent (site_chain gen_tables "parse") (Some (mkexn "ValueError" Primitive)) in
  forallb (event_ok H hs) [ok; ok] = true /\
  run_problem H hs false 0 [ok; bad; ok] [] = Failed (mkexn "MalformedInputError" Deliberate) [].
Proof. vm_compute. auto. Qed.

(* 2. a parse that returns None ends in the deliberate ParsingError of the None test, never in a use of the tree *)
Theorem C13_none_tree : exists c,
  run_init gen_init_steps false TUnset = IRaise (mkexn c Deliberate) /\ existsb (subclass H c) documented = true.
Proof. exact (init_none_tree_controlled H gen_init_steps C13_gen_init_ok). Qed.
Print Assumptions C13_none_tree.

(* 3. CHECK MODE, any chain: a class the chain catches first with a warn-or-reraise clause becomes exactly one
      warning in check mode, whatever raised it *)
Theorem C13_check_mode : forall chain c org d b,
  warned_by H hs chain c = Some (d, b) -> route H hs true chain (mkexn c org) = [Warned d b].
Proof. exact (warned_by_sound H hs). Qed.
Print Assumptions C13_check_mode.

Example C13_check_mode_example :
  warned_by H hs (site_chain gen_tables "cell_pointers") "BrokenObjectLinkError" = Some ("BrokenObjectLinkError", false) /\
  route H hs true (site_chain gen_tables "cell_pointers") (mkexn "BrokenObjectLinkError" Deliberate)
    = [Warned "BrokenObjectLinkError" false].
Proof. vm_compute. auto. Qed.

(* 3'. ... the loop continues and the call returns: when every raising event is one the handlers report, check mode
       returns with one warning per raising event, in order — any number of inputs *)
Theorem C13_check_mode_returns : forall pick loop ptr,
  forallb (event_quiet H hs) loop = true -> forallb (event_quiet H hs) ptr = true ->
  run_problem H hs true pick loop ptr =
    Returned (flat_map (event_warning H hs) loop ++ flat_map (event_warning H hs) ptr).
Proof. exact (check_mode_returns H hs). Qed.
Print Assumptions C13_check_mode_returns.

Example C13_check_mode_returns_example :
  let bad1 := mkevent (site_chain gen_tables "parse") (Some (mkexn "ValueError" Primitive)) in
  let bad2 := mkevent (site_chain gen_tables "tree_none") (Some (mkexn "ParsingError" Deliberate)) in
  let bad3 := mkevent (site_chain gen_tables "cell_pointers") (Some (mkexn "BrokenObjectLinkError" Deliberate)) in
  forallb (event_quiet H hs) [bad1; bad2] = true /\ forallb (event_quiet H hs) [bad3] = true /\
  run_problem H hs true 0 [bad1; bad2] [bad3] =
    Returned ["MalformedInputError"; "ParsingError"; "BrokenObjectLinkError"].
Proof. vm_compute. auto. Qed.

(* 3''. UnsupportedFeature is caught outside the loop: the loop ends, the pointer update still runs, the call returns *)
Theorem C13_check_mode_loop_ending : forall pick pre ev c rest ptr e,
  forallb (event_quiet H hs) pre = true -> ev_exn ev = Some e ->
  route H hs true (ev_chain ev) e = [Warned c true] -> forallb (event_quiet H hs) ptr = true ->
  run_problem H hs true pick (pre ++ ev :: rest) ptr =
    Returned (flat_map (event_warning H hs) pre ++ [c] ++ flat_map (event_warning H hs) ptr).
Proof. exact (check_mode_loop_ending_warning H hs). Qed.
Print Assumptions C13_check_mode_loop_ending.

Example C13_check_mode_loop_ending_example :
  route H hs true (site_chain gen_tables "syntax") (mkexn "UnsupportedFeature" Deliberate)
    = [Warned "UnsupportedFeature" true].
Proof. vm_compute. reflexivity. Qed.

(* 4. CHECK MODE IS NOT COMPLETE on the current code (refuted, with the witnesses the search replays on the real code):
      errors of normal mode that still RAISE in check mode.  Both are raised inside the generator
      read_input_syntax, around which parse_input only handles UnsupportedFeature: the MalformedInputError of a read
      cycle (read_data) and the ParsingError of a malformed read input (ReadInput.__init__, re-raised by flush_input). *)
Theorem C13_check_mode_complete_refuted :
  raises_in_check_mode gen_tables "syntax" "MalformedInputError" /\
  raises_in_check_mode gen_tables "read_card" "ParsingError".
Proof.
  split.
  - destruct (find_check_leak gen_tables "syntax" "MalformedInputError") eqn:F;
      [eapply find_check_leak_sound; exact F | vm_compute in F; discriminate].
  - destruct (find_check_leak gen_tables "read_card" "ParsingError") eqn:F;
      [eapply find_check_leak_sound; exact F | vm_compute in F; discriminate].
Qed.
Print Assumptions C13_check_mode_complete_refuted.

(* ... and the exact side condition: a raise row that is not in the computed witness list is quiet in check mode *)
Theorem C13_check_mode_complete_partial : forall r,
  In r (t_raises gen_tables) ->
  all_controlled H (route_at gen_tables false (r_site r) (r_local r) (mkexn (r_cls r) Deliberate)) = true ->
  ~ In r (check_mode_leaks gen_tables) ->
  check_quiet gen_tables (r_site r) (r_local r) (mkexn (r_cls r) Deliberate) = true.
Proof.
  intros r Hin C N. destruct (check_partition gen_tables r Hin C) as [L|Q]; [contradiction|exact Q].
Qed.
Print Assumptions C13_check_mode_complete_partial.

Example C13_check_mode_complete_partial_example : exists r,
  In r (t_raises gen_tables) /\ r_site r = "construct" /\ r_cls r = "ParsingError" /\
  all_controlled H (route_at gen_tables false (r_site r) (r_local r) (mkexn (r_cls r) Deliberate)) = true /\
  ~ In r (check_mode_leaks gen_tables).
Proof.
  destruct (find_quiet_raise gen_tables "construct" "ParsingError") eqn:F; [|vm_compute in F; discriminate].
  exists r. eapply find_quiet_raise_sound; exact F.
Qed.

(* 5. LEAK-PRONE PRIMITIVE OPERATIONS (refuted / partial): operations of the reachable functions whose runtime
      exception no try statement on the way out converts.  Since 2747fab nothing of the kind is left in the
      per-input phase except assert / next inside the parser actions; the witness is in the pointer update: the
      subscript of the per-cell data list in Importance.push_to_cells (three cells, `imp:n 1 1`: IndexError). *)
Theorem C13_primitive_leaks_refuted :
  leaks_primitive gen_tables "cells_modifiers" "data_inputs/importance.py:Importance.push_to_cells" Subscript "IndexError".
Proof.
  destruct (find_prim_leak gen_tables "cells_modifiers" "data_inputs/importance.py:Importance.push_to_cells" Subscript "IndexError") eqn:F;
    [eapply find_prim_leak_sound; exact F | vm_compute in F; discriminate].
Qed.
Print Assumptions C13_primitive_leaks_refuted.

Theorem C13_primitive_leaks_partial : forall p c,
  In p (t_prims gen_tables) -> ~ In p (prim_leaks gen_tables) -> In c (prim_classes (p_kind p)) ->
  forall o, In o (route_at gen_tables false (p_site p) (p_local p) (mkexn c Primitive)) -> controlled H o = true.
Proof.
  intros p c Hin N Hc o Ho. destruct (prim_partition gen_tables p Hin) as [L|C]; [contradiction|].
  specialize (C c Hc). unfold all_controlled in C. rewrite forallb_forall in C. apply C; exact Ho.
Qed.
Print Assumptions C13_primitive_leaks_partial.

(* guarded instance: an int() conversion reached from the constructors after the guarded parser call (site construct)
   is converted by parse_input *)
Example C13_primitive_leaks_partial_example : exists p,
  In p (t_prims gen_tables) /\ p_site p = "construct" /\ p_kind p = IntConv /\ ~ In p (prim_leaks gen_tables).
Proof.
  destruct (find_guarded_prim gen_tables "construct" IntConv) eqn:F; [|vm_compute in F; discriminate].
  exists p. eapply find_guarded_prim_sound; exact F.
Qed.
