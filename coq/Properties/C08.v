(* C08 — shortcuts nR nI nILOG xM nJ expand as MCNP defines and re-compress without changing values
   (montepy/input_parser/syntax_node.py: ShortcutNode, ListNode; parser_base.py shortcut productions).
   Headline theorems only; the proofs are in Proofs/ShortcutProofs.v, the model in Model/Shortcut.v.
   Values are exact rationals; math.isclose(rel_tol = 1e-9) is [qclose]. *)
From Coq Require Import List String Ascii ZArith QArith Qabs Bool.
From MPV Require Import Model.Wire Model.Shortcut Proofs.ShortcutProofs.
Import ListNotations.
Open Scope string_scope.
Open Scope list_scope.

(* ------------------------------------------------------------------ reading, per kind, for every count *)
(* v nR : v followed by n copies of v (n = 1 when the count is left out) *)
Theorem C08_expand_R : forall q n,
  parse_list [TNum q; TRep n] = POk [PSc KR (VQ q :: repeat (VQ q) (cnt n)) false].
Proof. exact read_R. Qed.
Print Assumptions C08_expand_R.

(* nJ : n jumps *)
Theorem C08_expand_J : forall n, parse_list [TJmp n] = POk [PSc KJ (repeat VJ (cnt n)) false].
Proof. exact read_J. Qed.
Print Assumptions C08_expand_J.

(* v xM : v followed by v * x *)
Theorem C08_expand_M : forall q x, parse_list [TNum q; TMul x] = POk [PSc KM [VQ q; VQ (q * x)] false].
Proof. exact read_M. Qed.
Print Assumptions C08_expand_M.

(* a nI b : a, n values, b; the t-th inserted value is a + (b - a) t / (n + 1) *)
Theorem C08_expand_I : forall a b n,
  parse_list [TNum a; TInt n; TNum b] = POk [PSc KI (VQ a :: expand_interpolate a b (cnt n) ++ [VQ b]) false] /\
  List.length (expand_interpolate a b (cnt n)) = cnt n /\
  forall t, (t < cnt n)%nat ->
    exists x, nth_error (expand_interpolate a b (cnt n)) t = Some (VQ x) /\
              x == a + (b - a) * inject_Z (Z.of_nat (S t)) / inject_Z (Z.of_nat (S (cnt n))).
Proof.
  intros a b n. split; [apply read_I|]. split; [apply expand_interpolate_length|].
  intros t Ht. apply expand_interpolate_nth. exact Ht.
Qed.
Print Assumptions C08_expand_I.

(* a nILOG b (both positive): a, the n logarithmic interpolants (kept symbolic: position j of n), b *)
Theorem C08_expand_ILOG : forall a b n, qzero b = false -> qpos a && qpos b = true ->
  parse_list [TNum a; TLog n; TNum b] = POk [PSc KL (VQ a :: log_steps a b (cnt n) 1 (cnt n) ++ [VQ b]) false].
Proof. exact read_L. Qed.
Print Assumptions C08_expand_ILOG.

(* a shortcut chained onto another one starts from the other one's last value *)
Theorem C08_expand_chain : forall q n m,
  parse_list [TNum q; TRep n; TRep m]
  = POk [PSc KR (VQ q :: repeat (VQ q) (cnt n)) false; PSc KR (repeat (VQ q) (cnt m)) true].
Proof. exact read_chain. Qed.
Print Assumptions C08_expand_chain.

(* ------------------------------------------------------------------ reading, whole lists *)
(* every list the parser accepts (adjacent shortcuts, shortcuts at either end) is expanded as the independent
   specification of the manual expands it *)
Theorem C08_expand_list : forall ts ns,
  parse_list ts = POk ns ->
  exists out, spec_expand ts = Some out /\ Forall2 veq (values ns) out.
Proof. exact expand_list_spec. Qed.
Print Assumptions C08_expand_list.

(* ... and the parser accepts every list the manual gives a meaning to - three and more chained shortcuts,
   interpolations that end at zero - unless a jump over nothing ('0J') stands directly in front of a shortcut *)
Theorem C08_read_total_partial : forall ts out,
  spec_expand ts = Some out -> no_zero_jump ts = true -> exists ns, parse_list ts = POk ns.
Proof. exact read_total. Qed.
Print Assumptions C08_read_total_partial.

(* why the side condition is there: '1 0J R' makes the parser raise IndexError.  A shortcut directly after a jump is
   outside NL(x) of DESIGN.md 5.2 (the crash is an error-hygiene matter, property C13), so this is no C08 finding *)
Theorem C08_read_zero_jump_crash :
  exists ts out, spec_expand ts = Some out /\ parse_list ts = PErr PCrash.
Proof. exact read_zero_jump_refuted. Qed.
Print Assumptions C08_read_zero_jump_crash.

Example C08_read_total_nonvacuous :
  spec_expand [TNum 1; TRep (Some 2%nat); TRep None; TRep (Some 3%nat); TInt (Some 2%nat); TNum 0] <> None /\
  no_zero_jump [TNum 1; TRep (Some 2%nat); TRep None; TRep (Some 3%nat); TInt (Some 2%nat); TNum 0] = true.
Proof. split; [vm_compute; discriminate|reflexivity]. Qed.

(* ------------------------------------------------------------------ consumption *)
(* consume_edge_node keeps the invariant of the kind: a repeat holds values each isclose to its neighbour, an
   interpolate values one spacing apart (up to isclose), a jump only jumps, a multiply at most two values *)
Theorem C08_consume_sound : forall s pos node fwd le s',
  sc_inv s -> consume s pos node fwd le = Ok (true, s') ->
  sc_inv s' /\ static_eq s s' /\ snodes s' = (if fwd then snodes s ++ [node] else node :: snodes s).
Proof.
  intros s pos node fwd le s' I H. split; [eapply consume_inv; eauto|]. apply consume_shape in H. exact H.
Qed.
Print Assumptions C08_consume_sound.

Theorem C08_consume_refuse : forall s pos node fwd le s',
  consume s pos node fwd le = Ok (false, s') -> static_eq s s' /\ snodes s' = snodes s.
Proof. intros s pos node fwd le s' H. apply consume_shape in H. exact H. Qed.
Print Assumptions C08_consume_refuse.

(* the tolerance accumulates: the k-th member after the first of a group consumed neighbour by neighbour is only
   within (k + 1) * 1e-9 * M of the first (M = largest magnitude in the group) ... *)
Theorem C08_tolerance_accumulates : forall l x M,
  chain qadj (x :: l) -> Forall (fun z => Qabs z <= M) (x :: l) ->
  forall k y, nth_error l k = Some y -> Qabs (y - x) * tol_inv <= inject_Z (Z.of_nat (S k)) * M.
Proof. exact qchain_drift. Qed.
Print Assumptions C08_tolerance_accumulates.

(* ... and isclose is not transitive (this is why ShortcutNode.format checks _describes_its_values) *)
Theorem C08_isclose_not_transitive :
  exists a b c, qclose a b = true /\ qclose b c = true /\ qclose a c = false.
Proof. exact qchain_not_transitive. Qed.
Print Assumptions C08_isclose_not_transitive.

(* ------------------------------------------------------------------ update_with_new_values *)
(* the rebuilt node list covers the new values, one node per position, in order; every shortcut in it was fed by
   consume_edge_node, holds at least one node and shares no edge; the only values left out are jumps at the end *)
Theorem C08_update_partition : forall shorts vals f0 l,
  NoDup (map sid shorts) -> (forall s, In s shorts -> (sid s < f0)%Z) ->
  update shorts vals f0 = Ok l ->
  Forall good_node (lnodes l) /\
  exists tl, map bare vals = map bare (flatten (lnodes l) ++ tl) /\ Forall (fun x => lval x = None) tl.
Proof. exact update_partition. Qed.
Print Assumptions C08_update_partition.

(* ------------------------------------------------------------------ formatting *)
(* when every node of a list is printed soundly (format_ok: texts are single words, paddings are blank, what a
   printed shortcut means is what its nodes hold), the whole text reads back as the values of the nodes *)
Theorem C08_format_sound : forall l, nosh (lnodes l) -> format_ok l = true ->
  exists ps out, format_list l = Ok ps /\ reexpand ps = Some out /\
                 vlist_close out (map leaf_val (flatten (lnodes l))) = true.
Proof. exact format_sound. Qed.
Print Assumptions C08_format_sound.

(* ------------------------------------------------------------------ the re-compressor *)
(* after update_with_new_values with ANY new value list the written list expands to exactly those values, one per
   position, jumps staying jumps (jumps at the very end may be left off) - under format_ok *)
Theorem C08_recompress_partial : forall shorts vals f0 l,
  NoDup (map sid shorts) -> (forall s, In s shorts -> (sid s < f0)%Z) ->
  update shorts vals f0 = Ok l -> format_ok l = true ->
  recompress_ok shorts vals f0 = true.
Proof. exact recompress_partial. Qed.
Print Assumptions C08_recompress_partial.

(* ------------------------------------------------------------------ non-vacuity *)
Definition ex_l1 := mkLeaf 1 (Some 1) TyFloat true false "1 " "1 " None.
Definition ex_l2 := mkLeaf 2 (Some 1) TyFloat false false "1" "1 " None.
Definition ex_l3 := mkLeaf 3 (Some 5) TyFloat false false "5" "5 " None.
Definition ex_l4 := mkLeaf 4 None TyFloat false false "" "" None.
Definition ex_r := mkSc 1 KR [ex_l1; ex_l2; ex_l3] false 2 "2r" (Some "2") (Some 2%Z) "" " " 0 0 0 false "" "" "" true true.

(* '1 2r' whose third value became 5 and that got a jump appended: the hypotheses of C08_recompress_partial hold *)
Example C08_recompress_nonvacuous :
  NoDup (map sid [ex_r]) /\ (forall s, In s [ex_r] -> (sid s < 10)%Z) /\
  exists l, update [ex_r] [ex_l1; ex_l2; ex_l3; ex_l4] 10 = Ok l /\ format_ok l = true /\
            List.length (lnodes l) = 2%nat /\
            option_map render (match format_list l with Ok ps => Some ps | Err _ => None end) = Some "1 r 5".
Proof.
  split; [repeat constructor; cbn; tauto|]. split.
  - intros s [E|[]]. subst. reflexivity.
  - eexists. split; [vm_compute; reflexivity|]. vm_compute. repeat split.
Qed.

(* a list with adjacent shortcuts at both ends is read and expanded *)
Example C08_expand_list_nonvacuous :
  exists ns, parse_list [TJmp (Some 2%nat); TNum 1; TRep None; TInt (Some 1%nat); TNum 3; TJmp None] = POk ns /\
             List.length (values ns) = 7%nat.
Proof. eexists. split; vm_compute; reflexivity. Qed.

(* a repeat that consumes a neighbour *)
Example C08_consume_nonvacuous :
  sc_inv (set_nodes ex_r [ex_l1]) /\
  exists s', consume (set_nodes ex_r [ex_l1]) 1 ex_l2 true false = Ok (true, s').
Proof.
  split.
  - unfold sc_inv. cbn. split; [constructor|]. constructor; [discriminate|constructor].
  - eexists. vm_compute. reflexivity.
Qed.
