(* C14 — a rejected edit leaves the problem unchanged.
   Headline theorems only; the proofs are in Proofs/SetterProofs.v (setters) and Proofs/CollProofs.v
   (collection mutators).  The programs the theorems are applied to are generated from the source of
   MontePy by harness/translate_setters.py (Gen/Setters.v), on every run of the check. *)
From Coq Require Import List String ZArith Bool.
From MPV Require Import Model.Setter Gen.Setters Proofs.SetterProofs Model.Coll Proofs.CollProofs.
Import ListNotations.
Close Scope Z_scope.
Open Scope string_scope.

(* the class table and the generated-property tables of the working tree *)
Definition E : env := mk_env class_table iter_classes.
Definition T : tables := mk_tables E tmpl_val_node tmpl_pointer validator_table.
Definition inst (d : prop_decl) : list stmt := instantiate tmpl_val_node tmpl_pointer validator_table d.

(* ---------------------------------------------------------------------------------------------- *)
(* 1. the analysis is sound: for every program of the statement IR, every object state and every
      adversary (argument kind, which may-raise statement raises and when, branch decisions,
      iteration counts, kinds of untracked values): a program accepted by [checks_first] that ends in
      an error has not changed the state *)
Theorem C14_checks_first :
  forall E prog s a id e,
    checks_first E prog = true -> snd (exec E prog s a) = Err id e -> fst (exec E prog s a) = s.
Proof. exact checks_first_sound'. Qed.
Print Assumptions C14_checks_first.

(* ... and, read the other way, once it has written it cannot fail any more *)
Theorem C14_all_or_nothing :
  forall E prog s a,
    checks_first E prog = true -> fst (exec E prog s a) <> s -> snd (exec E prog s a) = Ok.
Proof. exact checks_first_all_or_nothing. Qed.
Print Assumptions C14_all_or_nothing.

(* the hypotheses are satisfiable: Surface.surface_constants of the working tree, called with a list
   whose second element is rejected by the element check (the loop is in its second iteration), on an
   object that has been written to before *)
Example C14_checks_first_nonvacuous :
  exists prog s a id e,
    In ("Surface.surface_constants", prog) setter_table /\ s <> [] /\
    checks_first E prog = true /\ snd (exec E prog s a) = Err id e /\ fst (exec E prog s a) = s.
Proof.
  destruct (assoc "Surface.surface_constants" setter_table) as [prog|] eqn:Ep; [|discriminate].
  exists prog, [("self._is_reflecting", 1%Z)], (adversary KList 4 1 BAllTrue), 4, "TypeError".
  split; [apply assoc_In; exact Ep|].
  vm_compute in Ep. inversion Ep. subst prog. vm_compute.
  repeat split; try reflexivity; try discriminate.
Qed.
Print Assumptions C14_checks_first_nonvacuous.

(* ---------------------------------------------------------------------------------------------- *)
(* 2. the translator's own instantiation of the two property templates is the model's *)
Theorem C14_translation_agrees :
  generated_table = map (fun d => (pkey d, inst d)) (filter settable prop_table).
Proof. vm_compute. reflexivity. Qed.
Print Assumptions C14_translation_agrees.

(* ---------------------------------------------------------------------------------------------- *)
(* 3. DESIGN.md's obligation: every hand-written public setter / deleter / mutator and every
      instantiated generated setter of the working tree is checks-first.
      (History: on the tree this check was first run on, nine entries failed — Cell.atom_density,
      Cell.mass_density, Importance.all, Cells.set_equal_importance, MCNP_Problem.cells,
      UnitHalfSpace.divider, Mode.set, MCNP_Problem.set_mode, Cell.geometry — each with a
      counter-execution in the model and a reproducer on the real code; they were repaired in /repo
      by the commits listed in findings/C14.fixed.json, and their reproducers are corpus/C14.) *)
Theorem C14_all_setters :
  forallb (fun p => checks_first E (snd p)) (setter_table ++ generated_table) = true.
Proof. vm_compute. reflexivity. Qed.
Print Assumptions C14_all_setters.

(* hence: whichever of them raises, for every state, argument and choice of the adversary, the state
   is unchanged *)
Theorem C14_all_setters_atomic :
  forall name ir s a,
    In (name, ir) (setter_table ++ generated_table) ->
    is_err (snd (exec E ir s a)) = true -> fst (exec E ir s a) = s.
Proof.
  intros name ir s a Hin Herr. apply checks_first_sound; [|exact Herr].
  pose proof C14_all_setters as H. rewrite forallb_forall in H. apply (H (name, ir) Hin).
Qed.
Print Assumptions C14_all_setters_atomic.

(* the analysis is not "too coarse" on any entry of the table: an entry it rejects has a
   counter-execution in the model — it raises after it has written (the adversary is found by
   computation in a finite family, Proofs/SetterProofs.family).  True of every tree on which the search
   succeeds; on the current one no entry is rejected, and the statement names no witness. *)
Theorem C14_rejected_are_refuted :
  forall name, In name (failing E (setter_table ++ generated_table)) ->
    exists ir a, In (name, ir) (setter_table ++ generated_table) /\
                 is_err (snd (exec E ir [] a)) = true /\ fst (exec E ir [] a) <> [].
Proof.
  apply (refuted_of_decided E (setter_table ++ generated_table)); vm_compute; reflexivity.
Qed.
Print Assumptions C14_rejected_are_refuted.

(* the search itself is not vacuous: the setter of the tree before the repair 60809da (Mode.set: clear
   the mode, then convert the designators one by one) is rejected by the analysis and refuted *)
Example C14_refutation_nonvacuous :
  let old_mode_set :=
    [SCheckInst 0 ["list"; "set"; "str"] "TypeError";
     SInline 1 "Mode._parse_and_override_particle_modes" ASame
       [SMutate 2 "self._particles"; SIter 3;
        SLoop 4 [SCheck 5 "TypeError"; SCall 6 "new:Particle" true false false;
                 SCall 7 "self._particles.add" false true false]]] in
  checks_first E old_mode_set = false /\ refutable E old_mode_set = true.
Proof. vm_compute. split; reflexivity. Qed.
Print Assumptions C14_refutation_nonvacuous.

(* ---------------------------------------------------------------------------------------------- *)
(* 4. the generated-property templates (utilities.make_prop_val_node / make_prop_pointer): every
      instantiation (hidden attribute, accepted types — declared, latched or defaulted —, base type,
      validator) of a template that ends with its single assignment is checks-first as soon as the
      validator only checks *)
Theorem C14_template :
  forall E tm d ts vb next,
    template_wf tm = true -> check_only vb = true ->
    checks_first E (inst_aux tm d ts vb next) = true.
Proof. exact template_checks_first. Qed.
Print Assumptions C14_template.

(* the two templates of the working tree are of that form *)
Theorem C14_templates_wf : template_wf tmpl_val_node = true /\ template_wf tmpl_pointer = true.
Proof. vm_compute. split; reflexivity. Qed.
Print Assumptions C14_templates_wf.

(* hence: a generated setter whose validator only checks, when it raises, has changed nothing —
   whatever the class of the instance and whatever the closure cell `types` holds at that moment *)
Theorem C14_generated_atomic :
  forall d ts s a,
    check_only (validator_body validator_table d) = true ->
    let ir := inst_aux (template_of tmpl_val_node tmpl_pointer d) d ts (validator_body validator_table d) 0 in
    is_err (snd (exec E ir s a)) = true -> fst (exec E ir s a) = s.
Proof.
  intros d ts s a Hco ir. apply generated_setter_atomic; [|exact Hco].
  destruct C14_templates_wf as [Hv Hp]. unfold template_of. destruct (p_kind d); assumption.
Qed.
Print Assumptions C14_generated_atomic.

(* the validators of the working tree that do more than check: the two that link a new geometry (side) to
   the cell; their setters are covered by C14_all_setters, not by the template theorem *)
Theorem C14_check_only_validators :
  map fst (filter (fun p => negb (check_only (snd p))) validator_table)
  = ["cell._link_geometry_to_cell"; "half_space._link_side_to_cell"].
Proof. vm_compute. reflexivity. Qed.
Print Assumptions C14_check_only_validators.

Example C14_generated_atomic_nonvacuous :
  exists d ts s a id e,
    In d prop_table /\ pkey d = "Volume.volume" /\ s <> [] /\
    check_only (validator_body validator_table d) = true /\
    snd (exec E (inst_aux (template_of tmpl_val_node tmpl_pointer d) d ts (validator_body validator_table d) 0) s a)
      = Err id e.
Proof.
  destruct (find (fun d => pkey d =? "Volume.volume") prop_table) as [d|] eqn:Ed; [|discriminate].
  exists d, (decl_types d), [("self._volume.value", 3%Z)], (adversary KFloat 3 0 BAllTrue), 3, "ValueError".
  split; [apply (find_some _ _ Ed)|].
  vm_compute in Ed. inversion Ed. subst d. vm_compute.
  repeat split; try reflexivity; try discriminate.
Qed.
Print Assumptions C14_generated_atomic_nonvacuous.

(* ---------------------------------------------------------------------------------------------- *)
(* 5. collection mutators (append, extend, +=, append_renumber, []=, remove, pop, del, clear; model
      Model/Coll.v, property C06): a NumberConflictError or a TypeError leaves members, numbers and
      links unchanged *)
Theorem C14_collection_mutators :
  (forall s o s', Inv s -> step s o = (s', RErr NumberConflict) ->
     objs s' = objs s /\ (forall x, num s' x = num s x) /\ (forall x, olink s' x = olink s x)) /\
  (forall s o s', step s o = (s', RErr TypeErr) ->
     objs s' = objs s /\ (forall x, num s' x = num s x) /\ (forall x, olink s' x = olink s x)).
Proof. split; [exact conflict_atomic | exact type_error_atomic]. Qed.
Print Assumptions C14_collection_mutators.

(* the public mutators NumberedObjectCollection has in the working tree are the modelled ones *)
Theorem C14_collection_mutators_listed :
  coll_mutators = ["pop"; "clear"; "extend"; "remove"; "append"; "append_renumber"; "__delitem__";
                   "__setitem__"; "__iadd__"].
Proof. vm_compute. reflexivity. Qed.
Print Assumptions C14_collection_mutators_listed.

(* ---------------------------------------------------------------------------------------------- *)
(* 6. later edits: in any sequence of calls on any number of problems, a rejected call that is
      checks-first can be deleted without changing the result of any later call or the final world
      (closure cells and the state of every problem) — provided the call does not latch a closure
      cell.  Without that side condition the statement is false of the unchanged tree
      (utilities.py: `nonlocal types; types = type(self)` runs before the type check). *)
Theorem C14_later_edits_partial :
  forall T cs bad cs' w,
    wcall_cf T bad -> wcall_latching T bad = false ->
    is_err (snd (wstep T (fst (wrun T cs w)) bad)) = true ->
    snd (wrun T (cs ++ cs') w) = remove_at (List.length cs) (snd (wrun T (cs ++ bad :: cs') w)) /\
    weq (fst (wrun T (cs ++ bad :: cs') w)) (fst (wrun T (cs ++ cs') w)).
Proof. exact later_edits. Qed.
Print Assumptions C14_later_edits_partial.

(* a valid edit, a rejected one (Volume.volume = -1.0), another valid one *)
Example C14_later_edits_nonvacuous :
  exists cs bad cs' w,
    cs <> [] /\ cs' <> [] /\ wcall_cf T bad /\ wcall_latching T bad = false /\
    is_err (snd (wstep T (fst (wrun T cs w)) bad)) = true /\
    snd (wrun T (cs ++ cs') w) = [(0, Ok); (0, Ok)].
Proof.
  destruct (find (fun d => pkey d =? "Volume.volume") prop_table) as [d|] eqn:Ed; [|discriminate].
  pose (good := WGen 0 d "Volume" (adversary KFloat 99 0 BAllTrue)).
  exists [good], (WGen 0 d "Volume" (adversary KFloat 3 0 BAllTrue)), [good], (mk_world [] []).
  vm_compute in Ed. inversion Ed. subst d.
  repeat split; try discriminate; try (vm_compute; reflexivity).
  intros ts. apply template_checks_first; vm_compute; reflexivity.
Qed.
Print Assumptions C14_later_edits_nonvacuous.

(* _refuted: `unit_half_space.left = 5` is rejected, but it latches the closure cell of
   HalfSpace.left to UnitHalfSpace: the later valid `half_space.left = <HalfSpace>` is then rejected
   too, whereas it is accepted when the rejected call is deleted (DESIGN.md D16, property C17) *)
Theorem C14_later_edits_refuted :
  has_latch tmpl_pointer = true ->
  exists cs bad cs' w,
    wcall_cf T bad /\
    is_err (snd (wstep T (fst (wrun T cs w)) bad)) = true /\
    snd (wrun T (cs ++ cs') w) <> remove_at (List.length cs) (snd (wrun T (cs ++ bad :: cs') w)).
Proof.
  first
  [ solve [intros H; vm_compute in H; discriminate H]      (* the template has been repaired: nothing latches *)
  | intros _;
    destruct (find (fun d => pkey d =? "HalfSpace.left") prop_table) as [d|] eqn:Ed; [|discriminate];
    exists [], (WGen 0 d "UnitHalfSpace" (adversary KInt 99 0 BAllTrue)),
           [WGen 0 d "HalfSpace" (adversary (KObj "HalfSpace") 99 0 BAllTrue)], (mk_world [] []);
    vm_compute in Ed; inversion Ed; subst d;
    split; [|split];
    [ intros ts; apply template_checks_first; vm_compute; reflexivity
    | vm_compute; reflexivity
    | vm_compute; discriminate ] ].
Qed.
Print Assumptions C14_later_edits_refuted.

(* the generated properties that latch, in the working tree *)
Theorem C14_latching_setters :
  map pkey (filter (fun d => latching (template_of tmpl_val_node tmpl_pointer d) d) prop_table)
  = if has_latch tmpl_pointer then ["HalfSpace.left"; "HalfSpace.right"; "Surface.periodic_surface"] else [].
Proof. vm_compute. reflexivity. Qed.
Print Assumptions C14_latching_setters.
