(* SpecSem — the meaning side of the MCNP rules: cell geometry (S11, Spec/Geometry.v) and list shortcuts (S10,
   Spec/Shortcuts.v).  Headline theorems only; proofs in Proofs/SpecSemProofs.v.  harness/spec_tie.py runs the
   extracted definitions next to spec.parse_geometry / spec.geom_equal / spec.expand_shortcuts on every run.

   The reference definitions the C02 and C08 models already use (Model/Geom.v: bexp, eval, gtok, GD / GDenotes, gparse;
   Model/Shortcut.v: tok, val, spec_expand) are transcriptions of the same manual passages and do not mention any
   MontePy concept, but they live inside the model files; Spec/Geometry.v and Spec/Shortcuts.v are self-contained
   (strings in, regions / entries out), and theorems 4-6 relate the two. *)
From Coq Require Import List String Ascii ZArith QArith Bool.
From MPV Require Import Spec.Geometry Proofs.SpecSemProofs.
From MPV Require Spec.Shortcuts Model.Geom Model.Shortcut.
Import ListNotations.
Close Scope Q_scope.
Open Scope string_scope.

(* 1. the executable parser is sound for the grammar of the manual (complement > intersection > union, parentheses,
      #n = complement of cell n), and that grammar gives a token list at most one meaning: what [parse] returns is
      THE region of the token list *)
Theorem Spec_geometry_parser_sound : forall ts e, parse ts = Some e -> Denotes Expression ts e.
Proof. exact parse_sound. Qed.
Print Assumptions Spec_geometry_parser_sound.

Theorem Spec_geometry_unambiguous : forall ts e1 e2,
  Denotes Expression ts e1 -> Denotes Expression ts e2 -> e1 = e2.
Proof. exact denotes_unique. Qed.
Print Assumptions Spec_geometry_unambiguous.

Theorem Spec_geometry_meaning : forall ts e, parse ts = Some e ->
  Denotes Expression ts e /\ forall e', Denotes Expression ts e' -> e' = e.
Proof. exact parse_is_the_meaning. Qed.
Print Assumptions Spec_geometry_meaning.

(* 2. the truth table over the atoms of two regions decides whether they are the same region (the same Boolean
      function of "which side of each surface / in which cell" for every point) *)
Theorem Spec_same_region_decided : forall a b, same_regionb a b = true <-> same_region a b.
Proof. exact same_regionb_correct. Qed.
Print Assumptions Spec_same_region_decided.

(* 3. examples (non-vacuity of 1 and 2): precedence, rejected token lists, distributivity, De Morgan *)
Example Spec_geometry_examples :
  read_geometry ["1"; "-2"; ":"; "#"; "("; "3"; "#"; "4"; ")"; "+5"]
  = Some (Or (And (Side true 1) (Side false 2)) (And (Not (And (Side true 3) (NotCell 4))) (Side true 5))) /\
  read_geometry ["1"; ":"] = None /\ read_geometry ["#"; "-4"] = None /\ read_geometry ["("; "1"] = None /\
  read_geometry ["1.5"] = None /\ read_geometry [] = None /\
  same_regionb (And (Side true 1) (Or (Side true 2) (Side true 3)))
               (Or (And (Side true 1) (Side true 2)) (And (Side true 3) (Side true 1))) = true /\
  same_regionb (Not (And (Side true 1) (Side false 2))) (Or (Side false 1) (Side true 2)) = true /\
  same_regionb (And (Side true 1) (Side true 2)) (Or (Side true 1) (Side true 2)) = false.
Proof. exact geometry_examples. Qed.
Print Assumptions Spec_geometry_examples.

(* 4. the reference grammar of the C02 model is this grammar: every derivation there is one here (tokens: "#n" is
      the two tokens # n here), with the same Boolean meaning *)
Theorem Spec_geometry_reference_grammar : forall l ts e,
  Geom.GD l ts e -> Denotes (of_lvl l) (of_gtoks ts) (of_bexp e).
Proof. exact reference_grammar_agrees. Qed.
Print Assumptions Spec_geometry_reference_grammar.

Theorem Spec_geometry_reference_meaning : forall env e, inside env (of_bexp e) = Geom.eval (of_env env) e.
Proof. exact eval_agrees. Qed.
Print Assumptions Spec_geometry_reference_meaning.

(* 5. ... so the reference parser of the C02 model and [parse] never give different regions for the same tokens *)
Theorem Spec_geometry_reference_parser : forall ts e e',
  Geom.gparse ts = Some e -> parse (of_gtoks ts) = Some e' -> e' = of_bexp e.
Proof. exact reference_parser_agrees. Qed.
Print Assumptions Spec_geometry_reference_parser.

(* 6. the reference expansion of the C08 model (spec_expand) is Spec.Shortcuts on classified tokens *)
Theorem Spec_shortcuts_reference : forall ts, forallb no_bad ts = true ->
  option_map (map of_val) (Shortcut.spec_expand ts) = Shortcuts.expand_items (map of_tok ts).
Proof. exact reference_expansion_agrees. Qed.
Print Assumptions Spec_shortcuts_reference.

(* 7. examples of the shortcut rules: 1 2R 3I 9 2M J 4  =  1 1 1 3 5 7 9 18 (jump) 4; uses without meaning *)
Example Spec_shortcut_examples :
  show_entries (Shortcuts.expand ["1"; "2R"; "3I"; "9"; "2M"; "J"; "4"])
  = Some [Some (1#1); Some (1#1); Some (1#1); Some (3#1); Some (5#1); Some (7#1); Some (9#1); Some (18#1); None;
          Some (4#1)]%Q /\
  Shortcuts.expand ["J"; "2R"] = None /\ Shortcuts.expand ["1"; "2I"] = None /\
  Shortcuts.expand ["2"; "ILOG"; "-3"] = None /\
  Shortcuts.expand ["1"; "ILOG"; "100"] = Some [Shortcuts.Number (1#1); Shortcuts.LogStep (1#1) (100#1) 1 1;
                                               Shortcuts.Number (100#1)]%Q /\
  Shortcuts.expand ["IMP:N"; "1"; "R"] = Some [Shortcuts.Word "IMP:N"; Shortcuts.Number (1#1); Shortcuts.Number (1#1)]%Q.
Proof. exact shortcut_examples. Qed.
Print Assumptions Spec_shortcut_examples.
