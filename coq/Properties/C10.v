(* C10 — line wrapping (MCNP_Object.wrap_string_for_mcnp, MCNP_Object._wrap_line, textwrap.TextWrapper._wrap_chunks).
   Headline theorems only; the proofs are in Proofs/WrapProofs.v. *)
From Coq Require Import List String Ascii Arith Bool.
From MPV Require Import Model.Wire Model.Wrap Proofs.WrapProofs.
Import ListNotations.
Open Scope string_scope.

(* 1. the fuel of the model is always sufficient: the loop terminates *)
Theorem C10_fuel_enough : forall W ii si chunks,
  slen ii < W -> slen si < W -> Forall (fun c => c <> "") chunks ->
  wrap_chunks W ii si chunks <> None.
Proof. exact wrap_fuel_enough. Qed.
Print Assumptions C10_fuel_enough.

(* 2. every produced line fits the limit (long words are cut) *)
Theorem C10_width : forall W ii si chunks ls,
  slen ii < W -> slen si < W ->
  wrap_chunks W ii si chunks = Some ls -> Forall (fun l => slen l <= W) ls.
Proof. exact wrap_width. Qed.
Print Assumptions C10_width.

(* 3. the first line starts with the initial indent, all others with the subsequent indent *)
Theorem C10_indent : forall W ii si chunks ls,
  wrap_chunks W ii si chunks = Some ls ->
  match ls with
  | [] => True
  | l0 :: rest => String.prefix ii l0 = true /\ Forall (fun l => String.prefix si l = true) rest
  end.
Proof. exact wrap_indent. Qed.
Print Assumptions C10_indent.

(* 4. nothing is lost, duplicated or added except the indents *)
Theorem C10_content : forall W ii si chunks ls,
  wrap_chunks W ii si chunks = Some ls ->
  exists bodies,
    (match bodies with
     | [] => ls = []
     | b0 :: bs => ls = (ii ++ b0) :: map (fun b => si ++ b) bs
     end) /\
    String.concat "" bodies = String.concat "" chunks.
Proof. exact wrap_content. Qed.
Print Assumptions C10_content.

(* 5. a line that already fits is written unchanged *)
Theorem C10_identity : forall W ii si chunks,
  chunks <> [] -> Forall (fun c => c <> "") chunks ->
  slen ii + slen (String.concat "" chunks) <= W ->
  wrap_chunks W ii si chunks = Some [ii ++ String.concat "" chunks].
Proof. exact wrap_identity. Qed.
Print Assumptions C10_identity.

(* ---- MCNP_Object._wrap_line (one raw source line) and wrap_string_for_mcnp (all lines), as of /repo c3da1f2.
        W is the column limit, cont = BLANK_SPACE_CONTINUE, ii/si the initial/continuation indent
        (MontePy: W = 80 or 128, cont = 5, ii = "" or 5 blanks, si = 5 blanks) ---- *)

(* 6. _wrap_line and wrap_string_for_mcnp always return: no IndexError on ret[-1], the fuel of the model suffices *)
Theorem C10_line_total : forall W cont ii si line,
  2 < W -> slen ii < W -> slen si + 2 < W -> exists out, wrap_line W cont ii si line = WOk out.
Proof. exact wrap_line_total. Qed.
Print Assumptions C10_line_total.

Theorem C10_lines_total : forall W cont (first : bool) lines,
  cont + 2 < W -> exists out, wrap_lines W cont first lines = WOk out.
Proof. exact wrap_lines_total. Qed.
Print Assumptions C10_lines_total.

(* 7. every written line fits the limit, for every line and every width with room for the comment continuation
      indent (continuation indent + "$ ": slen si + 2 < W, i.e. 7 < W for MontePy) *)
Theorem C10_line_width : forall W cont ii si line out,
  2 < W -> slen ii < W -> slen si + 2 < W ->
  wrap_line W cont ii si line = WOk out -> Forall (fun x => slen x <= W) out.
Proof. exact wrap_line_width. Qed.
Print Assumptions C10_line_width.

Theorem C10_lines_width : forall W cont (first : bool) lines out,
  cont + 2 < W ->
  wrap_lines W cont first lines = WOk out -> Forall (fun x => slen x <= W) out.
Proof. exact wrap_lines_width. Qed.
Print Assumptions C10_lines_width.

(* 8. the first line of a source line starts with the initial indent; every other line starts with the
      continuation indent (5 blanks), or is a "c " line continuing a written line that passes MontePy's test for a
      comment line (theorem 9b: that test is MCNP's rule) *)
Theorem C10_line_indent : forall W cont ii si line out,
  String.prefix ii si = true ->
  wrap_line W cont ii si line = WOk out ->
  match out with
  | [] => True
  | l0 :: rest => String.prefix ii l0 = true /\ Forall (cont_ok cont si (ii ++ expandtabs line)) rest
  end.
Proof. exact wrap_line_indent. Qed.
Print Assumptions C10_line_indent.

(* ---- what the written lines mean to MCNP (S5-S7 rules stated in Proofs/WrapProofs.v section 8, independently of
        MontePy's code): mcnp_comment_line = a C in columns 1-5 followed by a blank or the end of the line;
        data_tokens = the blank-separated words before the first '$' of every line that is no comment line;
        comment_text = what follows the C of a comment line / the first '$' of another line ---- *)

(* 9. wrapping never turns comment text into data or data into comment, and re-splitting the written lines gives
      the tokens and the comment text of the unwrapped line (the comment text up to the blanks at the break points
      and the "$ " / "c " markers of its continuation lines).  For every plain line (its only whitespace characters
      are blanks; tabs: theorem 9c), both indents MontePy uses, every width 11 < W; the one condition is that no
      run of the data part is longer than a continuation line (such a word cannot be written: 9e). *)
Theorem C10_line_meaning : forall W (first : bool) line out,
  11 < W -> plain_text line = true ->
  (mcnp_comment_line ((if first then "" else blanks 5) ++ line) = false ->
   Forall (fun c => slen c <= W - 5) (split_ws (before_dollar line))) ->
  wrap_line W 5 (if first then "" else blanks 5) (blanks 5) line = WOk out ->
  data_tokens out = data_tokens [(if first then "" else blanks 5) ++ line] /\
  noblank (comment_text out) = noblank (comment_text [(if first then "" else blanks 5) ++ line]).
Proof. exact wrap_line_meaning. Qed.
Print Assumptions C10_line_meaning.

(* its hypotheses are satisfiable by a '$' comment that is continued on two lines, and by a comment line *)
Example C10_line_meaning_nonvacuous :
  let line := "1 2 3 $ a long comment that is wrapped" in
  11 < 20 /\ plain_text line = true /\
  Forall (fun c => slen c <= 20 - 5) (split_ws (before_dollar line)) /\
  wrap_line 20 5 "" (blanks 5) line =
    WOk ["1 2 3 $ a long "; "     $ comment that "; "     $ is wrapped"].
Proof. exact wrap_line_meaning_example. Qed.
Print Assumptions C10_line_meaning_nonvacuous.

Example C10_line_meaning_nonvacuous_comment_line :
  let line := "c a comment line that is longer than twenty columns" in
  plain_text line = true /\ mcnp_comment_line line = true /\
  wrap_line 20 5 "" (blanks 5) line =
    WOk ["c a comment line "; "c that is longer "; "c than twenty "; "c columns"].
Proof. exact wrap_line_comment_example. Qed.
Print Assumptions C10_line_meaning_nonvacuous_comment_line.

(* 9b. MontePy's test for a comment line in _wrap_line (utilities.is_comment and a non-blank in the first five
       columns) is MCNP's rule on every plain written line of seven or more characters *)
Theorem C10_comment_test_is_mcnp_rule : forall w, plain_text w = true -> 7 <= slen w ->
  comment_branch 5 w = mcnp_comment_line w.
Proof. exact comment_test_agrees. Qed.
Print Assumptions C10_comment_test_is_mcnp_rule.

(* 9c. tabs are expanded first: a line is wrapped exactly as its expansion is *)
Theorem C10_line_tabs : forall W cont ii si line,
  plain_text (expandtabs line) = true ->
  wrap_line W cont ii si line = wrap_line W cont ii si (expandtabs line).
Proof. exact wrap_line_tabs. Qed.
Print Assumptions C10_line_tabs.

(* 9d. the bound 11 < W of theorem 9 is needed (MontePy: 80 and 128) *)
Theorem C10_line_meaning_needs_wide_lines :
  exists W line out,
    5 + 2 < W /\ plain_text line = true /\
    Forall (fun c => slen c <= W - 5) (split_ws (before_dollar line)) /\
    wrap_line W 5 "" (blanks 5) line = WOk out /\
    data_tokens out <> data_tokens [line].
Proof. exact wrap_line_meaning_needs_wide_lines. Qed.
Print Assumptions C10_line_meaning_needs_wide_lines.

(* 9e. ... and so is the bound on the words of the data part: a word longer than a continuation line is cut *)
Theorem C10_line_meaning_needs_writable_words :
  exists W line out,
    11 < W /\ plain_text line = true /\ wrap_line W 5 "" (blanks 5) line = WOk out /\
    data_tokens out <> data_tokens [line].
Proof. exact wrap_line_meaning_needs_writable_words. Qed.
Print Assumptions C10_line_meaning_needs_writable_words.

(* 9f. the four inputs that refuted these theorems before /repo commits 6283f05 and c3da1f2 (blanks up to the limit
       before a '$'; a C beyond column 5; a hyphenated word at the limit; tabs) are now wrapped correctly *)
Example C10_repaired_examples :
  wrap_line 20 5 "" (blanks 5) (blanks 22 ++ "$ x y") = WOk ["     $ x y"] /\
  wrap_line 20 5 "" (blanks 5) "          c 1 2 3 4 5 6 7 8" = WOk ["          c 1 2 3 4 "; "     5 6 7 8"] /\
  wrap_line 20 5 "" (blanks 5) "mt1 lwtr.10t be-met.40t" = WOk ["mt1 lwtr.10t "; "     be-met.40t"] /\
  wrap_line 20 5 "" (blanks 5) ("1" ++ String tab_char (String tab_char "2 $ aa bb cc")) =
    WOk ["1               2 "; "     $ aa bb cc"].
Proof. exact wrap_line_repaired_examples. Qed.
Print Assumptions C10_repaired_examples.

(* 10. a plain line that fits is written unchanged by _wrap_line *)
Theorem C10_line_identity : forall W cont ii si line,
  plain_text line = true -> line <> "" -> slen ii + slen line <= W ->
  wrap_line W cont ii si line = WOk [ii ++ line].
Proof. exact wrap_line_identity. Qed.
Print Assumptions C10_line_identity.

(* 11. (wrap_chunks alone) when no chunk is longer than a continuation line, re-splitting the wrapped lines at blanks
      gives exactly the tokens of the text *)
Theorem C10_resplit : forall W cont text ls,
  cont < W ->
  Forall (fun c => slen c <= W - cont) (split_ws text) ->
  wrap_chunks W "" (blanks cont) (split_ws text) = Some ls ->
  List.concat (map words ls) = words text.
Proof. exact wrap_resplit. Qed.
Print Assumptions C10_resplit.

(* non-vacuity: a call that satisfies the premises of C10_width and C10_resplit and wraps
      into three lines *)
Example C10_width_nonvacuous :
  wrap_chunks 20 "" (blanks 5) (split_ws "1 0 -1 2 -3 4 -5 6 imp:n=1 vol=12345")
  = Some ["1 0 -1 2 -3 4 -5 6 "; "     imp:n=1 "; "     vol=12345"].
Proof. exact wrap_width_example. Qed.
Print Assumptions C10_width_nonvacuous.

Example C10_resplit_nonvacuous :
  5 < 20 /\
  Forall (fun c => slen c <= 20 - 5) (split_ws "1 0 -1 2 -3 4 -5 6 imp:n=1 vol=12345").
Proof. exact wrap_resplit_example_premises. Qed.
Print Assumptions C10_resplit_nonvacuous.

(* ---- the title and the message block (Title.format_for_mcnp_input, Message.format_for_mcnp_input) ---- *)

(* 12. the written title line fits the limit and is a prefix of the title *)
Theorem C10_title_width : forall W t, 1 <= W -> slen (title_line W t) < W.
Proof. exact title_line_width. Qed.
Print Assumptions C10_title_width.

Theorem C10_title_prefix : forall W t, title_line W t ++ drop (W - 1) t = t.
Proof. exact title_line_prefix. Qed.
Print Assumptions C10_title_prefix.

(* what is cut: the title is written unchanged exactly when it has at most W - 1 characters; a title that fills
   all W columns loses its last character (this is the open finding F-C01-spec-title-last-column of property C01;
   the model is the code as it is) *)
Theorem C10_title_kept_iff : forall W t, title_line W t = t <-> slen t <= W - 1.
Proof. exact title_line_kept_iff. Qed.
Print Assumptions C10_title_kept_iff.

Theorem C10_title_full_width_cut : exists W t, slen t = W /\ title_line W t <> t.
Proof. exact title_full_width_cut. Qed.
Print Assumptions C10_title_full_width_cut.

(* 13. every line of the written message block fits the limit, whatever the lines of the message are *)
Theorem C10_message_width : forall W lines, 10 <= W -> Forall (fun x => slen x < W) (message_lines W lines).
Proof. exact message_lines_width. Qed.
Print Assumptions C10_message_width.

(* the block keeps its structure: one written line per message line, each a prefix of it (the first after
   "MESSAGE: " and cut 9 columns earlier), then the blank line that ends the block *)
Theorem C10_message_shape : forall W lines,
  List.length (message_lines W lines) = S (List.length lines) /\
  List.last (message_lines W lines) "x" = "" /\
  match lines with
  | [] => True
  | l0 :: r =>
      exists cut0 cuts,
        message_lines W lines = (message_prefix ++ cut0) :: List.app cuts [""] /\
        cut0 ++ drop (W - 10) l0 = l0 /\
        Forall2 (fun c l => c ++ drop (W - 1) l = l) cuts r
  end.
Proof. exact message_lines_shape. Qed.
Print Assumptions C10_message_shape.

Theorem C10_message_identity : forall W l0 r,
  slen l0 <= W - 10 -> Forall (fun l => slen l <= W - 1) r ->
  message_lines W (l0 :: r) = (message_prefix ++ l0) :: List.app r [""].
Proof. exact message_lines_identity. Qed.
Print Assumptions C10_message_identity.

(* the earlier cut of the first line is what makes room for the prefix *)
Theorem C10_message_first_line_cut_needed :
  exists W l0, 10 <= W /\ W < slen (message_prefix ++ take (W - 1) l0).
Proof. exact message_first_line_cut_needed. Qed.
Print Assumptions C10_message_first_line_cut_needed.

Example C10_message_nonvacuous :
  message_lines 20 ["outp=abcdefghijklm.o"; " runtpe=abcdefghijklmnopq.r"; "x"] =
    ["MESSAGE: outp=abcde"; " runtpe=abcdefghijk"; "x"; ""].
Proof. exact message_lines_example. Qed.
Print Assumptions C10_message_nonvacuous.

(* a written line never consists of blanks only: MCNP would read it as the end of the block *)
Theorem C10_no_blank_line : forall W cont first lines out,
  wrap_lines W cont first lines = WOk out -> Forall (fun l => all_blank l = false) out.
Proof. exact wrap_lines_no_blank_line. Qed.
Print Assumptions C10_no_blank_line.
