(* C10 — line wrapping (MCNP_Object.wrap_string_for_mcnp, MCNP_Object._wrap_line, textwrap.TextWrapper._wrap_chunks).
   Headline theorems only; the proofs are in Proofs/WrapProofs.v. *)
From Coq Require Import List String Ascii Arith Bool.
From MPV Require Import Model.Wire Model.Wrap Proofs.WrapProofs.
Import ListNotations.
Open Scope string_scope.

(* 1. the fuel of the model is always sufficient: the loop terminates *)
Theorem C10_fuel_enough : forall W ii si chunks,
  slen ii < W -> slen si < W -> Forall (fun c => c <> "") chunks ->
  wrap_chunks W ii si chunks <> None.
Proof. exact wrap_fuel_enough. Qed.
Print Assumptions C10_fuel_enough.

(* 2. every produced line fits the limit (long words are cut) *)
Theorem C10_width : forall W ii si chunks ls,
  slen ii < W -> slen si < W ->
  wrap_chunks W ii si chunks = Some ls -> Forall (fun l => slen l <= W) ls.
Proof. exact wrap_width. Qed.
Print Assumptions C10_width.

(* 3. the first line starts with the initial indent, all others with the subsequent indent *)
Theorem C10_indent : forall W ii si chunks ls,
  wrap_chunks W ii si chunks = Some ls ->
  match ls with
  | [] => True
  | l0 :: rest => String.prefix ii l0 = true /\ Forall (fun l => String.prefix si l = true) rest
  end.
Proof. exact wrap_indent. Qed.
Print Assumptions C10_indent.

(* 4. nothing is lost, duplicated or added except the indents *)
Theorem C10_content : forall W ii si chunks ls,
  wrap_chunks W ii si chunks = Some ls ->
  exists bodies,
    (match bodies with
     | [] => ls = []
     | b0 :: bs => ls = (ii ++ b0) :: map (fun b => si ++ b) bs
     end) /\
    String.concat "" bodies = String.concat "" chunks.
Proof. exact wrap_content. Qed.
Print Assumptions C10_content.

(* 5. a line that already fits is written unchanged *)
Theorem C10_identity : forall W ii si chunks,
  chunks <> [] -> Forall (fun c => c <> "") chunks ->
  slen ii + slen (String.concat "" chunks) <= W ->
  wrap_chunks W ii si chunks = Some [ii ++ String.concat "" chunks].
Proof. exact wrap_identity. Qed.
Print Assumptions C10_identity.

(* ---- MCNP_Object._wrap_line (one source line) and wrap_string_for_mcnp (all lines) ---- *)

(* 6. _wrap_line always returns: no IndexError on ret[-1], the fuel of the model suffices.
      W is the column limit, ii/si the initial/continuation indent (MontePy: "" or 5 blanks / 5 blanks) *)
Theorem C10_line_total : forall W ii si l,
  2 < W -> slen ii < W -> slen si + 2 < W -> blank_data_fits W ii (l_text l) -> chunks_ok l ->
  exists out, wrap_line W ii si l = WOk out.
Proof. exact wrap_line_total. Qed.
Print Assumptions C10_line_total.

(* 7. every line _wrap_line returns fits the limit, comment continuation lines included (their indent is the
      continuation indent + "$ ": hence slen si + 2 < W, i.e. 7 < W for MontePy) — unless the text before the
      first '$' is blank and reaches the limit *)
Theorem C10_line_width_partial : forall W ii si l out,
  2 < W -> slen ii < W -> slen si + 2 < W -> blank_data_fits W ii (l_text l) ->
  wrap_line W ii si l = WOk out -> Forall (fun x => slen x <= W) out.
Proof. exact wrap_line_width. Qed.
Print Assumptions C10_line_width_partial.

Theorem C10_line_width_refuted :
  exists W ii si l out,
    7 < W /\ slen ii < W /\ slen si + 2 < W /\ wrap_line W ii si l = WOk out /\
    ~ Forall (fun x => slen x <= W) out.
Proof. exact wrap_line_width_refuted. Qed.
Print Assumptions C10_line_width_refuted.

Theorem C10_lines_width_partial : forall W cont (first : bool) lines out,
  cont + 2 < W ->
  Forall (fun l => blank_data_fits W (if first then "" else blanks cont) (l_text l)) lines ->
  wrap_lines W cont first lines = WOk out -> Forall (fun x => slen x <= W) out.
Proof. exact wrap_lines_width. Qed.
Print Assumptions C10_lines_width_partial.

(* 8. the first line of a source line starts with the initial indent; every other line starts with the
      continuation indent (5 blanks), or is a "c " line continuing a line MontePy takes for a comment line *)
Theorem C10_line_indent : forall W ii si l out,
  wrap_line W ii si l = WOk out ->
  match out with
  | [] => True
  | l0 :: rest => String.prefix ii l0 = true /\ Forall (cont_ok si (l_text l)) rest
  end.
Proof. exact wrap_line_indent. Qed.
Print Assumptions C10_line_indent.

(* ---- what the written lines mean to MCNP (S5-S7 rules stated in Proofs/WrapProofs.v section 8, independently of
        MontePy's code): mcnp_comment_line = a C in columns 1-5 followed by a blank or the end of the line;
        data_tokens = the blank-separated words before the first '$' of every line that is no comment line;
        comment_text = what follows the C of a comment line / the first '$' of another line ---- *)

(* 9. wrapping never turns comment text into data or data into comment, and re-splitting the written lines gives
      the tokens and the comment text of the unwrapped line (the comment text up to the blanks at the break points
      and the "$ " / "c " markers of its continuation lines).
      Hypotheses: MontePy's indents (cont = 5); 11 < W; the line is plain (its chunks are its blank-separated
      runs: no tab, and textwrap's chunker did not split a word at a hyphen); MontePy's is_comment agrees with MCNP
      about the written line; every run of the data part fits a continuation line.  Each hypothesis that excludes
      a behaviour of the real code is matched by a _refuted theorem below. *)
Theorem C10_line_meaning_partial : forall W cont (first : bool) line out,
  5 <= cont -> cont + 2 < W -> 11 < W ->
  is_comment line = mcnp_comment_line ((if first then "" else blanks cont) ++ line) ->
  (is_comment line = false -> Forall (fun c => slen c <= W - cont) (split_ws (before_dollar line))) ->
  wrap_line W (if first then "" else blanks cont) (blanks cont) (plain_line line) = WOk out ->
  data_tokens out = data_tokens [(if first then "" else blanks cont) ++ line] /\
  noblank (comment_text out) = noblank (comment_text [(if first then "" else blanks cont) ++ line]).
Proof. exact wrap_line_meaning. Qed.
Print Assumptions C10_line_meaning_partial.

(* its hypotheses are satisfiable by a '$' comment that is continued on two lines, and by a comment line *)
Example C10_line_meaning_nonvacuous :
  let line := "1 2 3 $ a long comment that is wrapped" in
  5 <= 5 /\ 5 + 2 < 20 /\ 11 < 20 /\ is_comment line = mcnp_comment_line ("" ++ line) /\
  Forall (fun c => slen c <= 20 - 5) (split_ws (before_dollar line)) /\
  wrap_line 20 "" (blanks 5) (plain_line line) =
    WOk ["1 2 3 $ a long "; "     $ comment that "; "     $ is wrapped"].
Proof. exact wrap_line_meaning_example. Qed.
Print Assumptions C10_line_meaning_nonvacuous.

Example C10_line_meaning_nonvacuous_comment_line :
  let line := "c a comment line that is longer than twenty columns" in
  is_comment line = mcnp_comment_line ("" ++ line) /\ is_comment line = true /\
  wrap_line 20 "" (blanks 5) (plain_line line) =
    WOk ["c a comment line "; "c that is longer "; "c than twenty "; "c columns"].
Proof. exact wrap_line_comment_example. Qed.
Print Assumptions C10_line_meaning_nonvacuous_comment_line.

(* 9a. is_comment takes a continuation line whose first word is "c" for a comment line: data becomes comment *)
Theorem C10_line_meaning_refuted_c_beyond_column_5 :
  exists W line out,
    11 < W /\ wrap_line W "" (blanks 5) (plain_line line) = WOk out /\
    is_comment line = true /\ mcnp_comment_line line = false /\
    Forall (fun c => slen c <= W - 5) (split_ws (before_dollar line)) /\
    data_tokens out <> data_tokens [line].
Proof. exact wrap_line_meaning_refuted_c_beyond_column_5. Qed.
Print Assumptions C10_line_meaning_refuted_c_beyond_column_5.

(* 9b. textwrap's chunker splits "be-met.40t" after the hyphen: a token is written on two lines *)
Theorem C10_line_meaning_refuted_hyphen :
  exists W l out,
    11 < W /\ String.concat "" (l_chunks l) = l_text l /\ is_comment (l_text l) = false /\
    mcnp_comment_line (l_text l) = false /\
    Forall (fun c => slen c <= W - 5) (l_chunks l) /\
    wrap_line W "" (blanks 5) l = WOk out /\
    data_tokens out <> data_tokens [l_text l].
Proof. exact wrap_line_meaning_refuted_hyphen. Qed.
Print Assumptions C10_line_meaning_refuted_hyphen.

(* 9c. a line with tabs whose raw length fits: textwrap expands the tabs and wraps the '$' comment as data *)
Theorem C10_line_meaning_refuted_tab :
  exists W l out,
    11 < W /\ String.concat "" (l_chunks l) = munge (l_text l) /\ is_comment (l_text l) = false /\
    wrap_line W "" (blanks 5) l = WOk out /\
    data_tokens out <> data_tokens [munge (l_text l)].
Proof. exact wrap_line_meaning_refuted_tab. Qed.
Print Assumptions C10_line_meaning_refuted_tab.

(* 9d. the bound 11 < W is needed (MontePy: 80 and 128) *)
Theorem C10_line_meaning_refuted_narrow :
  exists W line out,
    5 + 2 < W /\ is_comment line = mcnp_comment_line line /\
    Forall (fun c => slen c <= W - 5) (split_ws (before_dollar line)) /\
    wrap_line W "" (blanks 5) (plain_line line) = WOk out /\
    data_tokens out <> data_tokens [line].
Proof. exact wrap_line_meaning_refuted_narrow. Qed.
Print Assumptions C10_line_meaning_refuted_narrow.

(* 10. a line that fits is written unchanged by _wrap_line *)
Theorem C10_line_identity : forall W ii si line,
  line <> "" -> slen ii + slen line <= W -> wrap_line W ii si (plain_line line) = WOk [ii ++ line].
Proof. exact wrap_line_identity. Qed.
Print Assumptions C10_line_identity.

(* 11. (wrap_chunks alone) when no chunk is longer than a continuation line, re-splitting the wrapped lines at blanks
      gives exactly the tokens of the text *)
Theorem C10_resplit : forall W cont text ls,
  cont < W ->
  Forall (fun c => slen c <= W - cont) (split_ws text) ->
  wrap_chunks W "" (blanks cont) (split_ws text) = Some ls ->
  List.concat (map words ls) = words text.
Proof. exact wrap_resplit. Qed.
Print Assumptions C10_resplit.

(* non-vacuity: a call that satisfies the premises of C10_width and C10_resplit and wraps
      into three lines *)
Example C10_width_nonvacuous :
  wrap_chunks 20 "" (blanks 5) (split_ws "1 0 -1 2 -3 4 -5 6 imp:n=1 vol=12345")
  = Some ["1 0 -1 2 -3 4 -5 6 "; "     imp:n=1 "; "     vol=12345"].
Proof. exact wrap_width_example. Qed.
Print Assumptions C10_width_nonvacuous.

Example C10_resplit_nonvacuous :
  5 < 20 /\
  Forall (fun c => slen c <= 20 - 5) (split_ws "1 0 -1 2 -3 4 -5 6 imp:n=1 vol=12345").
Proof. exact wrap_resplit_example_premises. Qed.
Print Assumptions C10_resplit_nonvacuous.

(* a written line never consists of blanks only: MCNP would read it as the end of the block *)
Theorem C10_no_blank_line : forall W cont first lines out,
  wrap_lines W cont first lines = WOk out -> Forall (fun l => all_blank l = false) out.
Proof. exact wrap_lines_no_blank_line. Qed.
Print Assumptions C10_no_blank_line.
