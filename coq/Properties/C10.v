(* C10 — line wrapping (MCNP_Object.wrap_string_for_mcnp / textwrap.TextWrapper._wrap_chunks).
   Headline theorems only; the proofs are in Proofs/WrapProofs.v. *)
From Coq Require Import List String Ascii Arith Bool.
From MPV Require Import Model.Wire Model.Wrap Proofs.WrapProofs.
Import ListNotations.
Open Scope string_scope.

(* 1. the fuel of the model is always sufficient: the loop terminates *)
Theorem C10_fuel_enough : forall W ii si chunks,
  slen ii < W -> slen si < W -> Forall (fun c => c <> "") chunks ->
  wrap_chunks W ii si chunks <> None.
Proof. exact wrap_fuel_enough. Qed.
Print Assumptions C10_fuel_enough.

(* 2. every produced line fits the limit (long words are cut) *)
Theorem C10_width : forall W ii si chunks ls,
  slen ii < W -> slen si < W ->
  wrap_chunks W ii si chunks = Some ls -> Forall (fun l => slen l <= W) ls.
Proof. exact wrap_width. Qed.
Print Assumptions C10_width.

(* 3. the first line starts with the initial indent, all others with the subsequent indent *)
Theorem C10_indent : forall W ii si chunks ls,
  wrap_chunks W ii si chunks = Some ls ->
  match ls with
  | [] => True
  | l0 :: rest => String.prefix ii l0 = true /\ Forall (fun l => String.prefix si l = true) rest
  end.
Proof. exact wrap_indent. Qed.
Print Assumptions C10_indent.

(* 4. nothing is lost, duplicated or added except the indents *)
Theorem C10_content : forall W ii si chunks ls,
  wrap_chunks W ii si chunks = Some ls ->
  exists bodies,
    (match bodies with
     | [] => ls = []
     | b0 :: bs => ls = (ii ++ b0) :: map (fun b => si ++ b) bs
     end) /\
    String.concat "" bodies = String.concat "" chunks.
Proof. exact wrap_content. Qed.
Print Assumptions C10_content.

(* 5. a line that already fits is written unchanged *)
Theorem C10_identity : forall W ii si chunks,
  chunks <> [] -> Forall (fun c => c <> "") chunks ->
  slen ii + slen (String.concat "" chunks) <= W ->
  wrap_chunks W ii si chunks = Some [ii ++ String.concat "" chunks].
Proof. exact wrap_identity. Qed.
Print Assumptions C10_identity.

(* 6. wrap_string_for_mcnp: every output line fits the limit *)
Theorem C10_lines_width : forall W cont first lines out,
  cont < W -> wrap_lines W cont first lines = Some out -> Forall (fun l => slen l <= W) out.
Proof. exact wrap_lines_width. Qed.
Print Assumptions C10_lines_width.

(* 7. when no chunk is longer than a continuation line, re-splitting the wrapped lines at blanks
      gives exactly the tokens of the text *)
Theorem C10_resplit : forall W cont text ls,
  cont < W ->
  Forall (fun c => slen c <= W - cont) (split_ws text) ->
  wrap_chunks W "" (blanks cont) (split_ws text) = Some ls ->
  List.concat (map words ls) = words text.
Proof. exact wrap_resplit. Qed.
Print Assumptions C10_resplit.

(* 8. ... but not when '$' comments are taken into account: comment text becomes data *)
Theorem C10_resplit_comment_refuted :
  exists W text ls,
    wrap_chunks W "" (blanks 5) (split_ws text) = Some ls /\
    List.concat (map (fun l => words (data_part l)) ls) <> words (data_part text).
Proof. exact wrap_resplit_comment_refuted. Qed.
Print Assumptions C10_resplit_comment_refuted.

(* 9. non-vacuity: a call that satisfies the premises of C10_width and C10_resplit and wraps
      into three lines *)
Example C10_width_nonvacuous :
  wrap_chunks 20 "" (blanks 5) (split_ws "1 0 -1 2 -3 4 -5 6 imp:n=1 vol=12345")
  = Some ["1 0 -1 2 -3 4 -5 6 "; "     imp:n=1 "; "     vol=12345"].
Proof. exact wrap_width_example. Qed.
Print Assumptions C10_width_nonvacuous.

Example C10_resplit_nonvacuous :
  5 < 20 /\
  Forall (fun c => slen c <= 20 - 5) (split_ws "1 0 -1 2 -3 4 -5 6 imp:n=1 vol=12345").
Proof. exact wrap_resplit_example_premises. Qed.
Print Assumptions C10_resplit_nonvacuous.

(* a written line never consists of blanks only: MCNP would read it as the end of the block *)
Theorem C10_no_blank_line : forall W cont first lines out,
  wrap_lines W cont first lines = Some out -> Forall (fun l => all_blank l = false) out.
Proof. exact wrap_lines_no_blank_line. Qed.
Print Assumptions C10_no_blank_line.
