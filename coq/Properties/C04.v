(* C04 — renumbering keeps every modelled reference pointing at the same object.
   Headline theorems only; model: Model/Graph.v (the same object graph as C16), proofs:
   Proofs/GraphProofs.v.

   written_refs g : what Cell / UnitHalfSpace / Surface / ThermalScatteringLaw / UniverseInput / Fill
                    ._update_values write as reference numbers (source, slot, kind, number), in file order
   resolve g      : the object behind each of these references, in the same order
   own_numbers g  : (kind, object, number) of every numbered card that is written
   retarget nf (s, sl, k, o) := (s, sl, k, nf k o)
   renumber g rho : every object gets the number rho says (all number setters at once)
   Resolved g     : no divider of a member cell is still an integer (true after reading, C16_after_read)
   NumInj g       : forall k, NoDup (map (num g k) (coll g k))      (what the collection check keeps, C06)
   uzero_same g rho : universe 0 keeps number 0 and nothing else gets it (the setter refuses n <= 0)
   renum_safe g o : o is a number assignment, and not one to universe 0
   u_card g / fill_card g : the entries of a data-block U / FILL card, one per member cell (0 = jump)
   slot_numbers sl l : the numbers written in slot sl, in file order;  nz z := z <> 0 *)
From Coq Require Import List ZArith Bool.
From MPV Require Import Model.Graph Proofs.GraphProofs.
Import ListNotations.
Open Scope nat_scope.

(* 1. every reference is written with the pointee's CURRENT number; after any renumbering the
      written references are the image of the old ones; the objects behind them are the same *)
Theorem C04_refs_follow :
  forall g rho, Resolved g -> uzero_same g rho ->
    written_refs g = map (retarget (num g)) (resolve g) /\
    written_refs (renumber g rho) = map (retarget rho) (resolve g) /\
    resolve (renumber g rho) = resolve g.
Proof. exact refs_follow. Qed.
Print Assumptions C04_refs_follow.

(* 1'. both placements of the per-cell U / FILL values (print_in_data_block): the entries of the
       data-block card (u_card / fill_card: one per member cell, 0 = jump) are the current numbers of the
       same universe objects; the cell-block entries are exactly the non-zero entries of the card, in cell
       order; after a renumbering, or any sequence of assignments, the card holds the new numbers of the
       old pointees *)
Theorem C04_refs_follow_placement :
  forall g,
    slot_numbers SlU (written_refs g) = filter nz (u_card g) /\
    slot_numbers SlFill (written_refs g) =
      flat_map (fun c => match c_fill (cellf g c) with Some f => [num g KUniv f] | None => [] end) (coll g KCell) /\
    ((forall c f, c_fill (cellf g c) = Some f -> num g KUniv f <> 0%Z) ->
     slot_numbers SlFill (written_refs g) = filter nz (fill_card g)).
Proof. exact placements_agree. Qed.
Print Assumptions C04_refs_follow_placement.

Theorem C04_cards_follow :
  forall g rho,
    u_card (renumber g rho) =
      map (fun c => match c_univ (cellf g c) with Some u => rho KUniv u | None => 0%Z end) (coll g KCell) /\
    fill_card (renumber g rho) =
      map (fun c => match c_fill (cellf g c) with Some f => rho KUniv f | None => 0%Z end) (coll g KCell).
Proof. exact cards_renumber. Qed.
Print Assumptions C04_cards_follow.

Theorem C04_cards_after_sequence :
  forall ops g, all_safe renum_safe g ops = true -> NumInj g -> Linked g ->
    u_card (run g ops) =
      map (fun c => match c_univ (cellf g c) with Some u => num (run g ops) KUniv u | None => 0%Z end)
          (coll g KCell) /\
    fill_card (run g ops) =
      map (fun c => match c_fill (cellf g c) with Some f => num (run g ops) KUniv f | None => 0%Z end)
          (coll g KCell).
Proof. exact cards_after_sequence. Qed.
Print Assumptions C04_cards_after_sequence.

(* 2. own numbers follow, in place *)
Theorem C04_own_numbers :
  forall g rho,
    own_numbers (renumber g rho) = map (fun w => let '(k, o, _) := w in (k, o, rho k o)) (own_numbers g).
Proof. exact own_numbers_renumber. Qed.
Print Assumptions C04_own_numbers.

(* 3. read back, a written reference number finds the same object (valid = injective per kind) *)
Theorem C04_reread_same_object :
  forall g rho, NumInj (renumber g rho) ->
    forall k o, In o (coll g k) -> lookup (renumber g rho) k (rho k o) = Some o.
Proof. exact reread_same_object. Qed.
Print Assumptions C04_reread_same_object.

(* 4. any sequence of number assignments (each judged by the setter + collection check of the
      model: rejected ones change nothing): numbers stay unique per kind, nothing but numbers
      changes, every reference resolves to the same object *)
Theorem C04_sequences :
  forall ops g, all_safe renum_safe g ops = true -> NumInj g -> Linked g ->
    NumInj (run g ops) /\ Linked (run g ops) /\ same_but_num g (run g ops) /\
    resolve (run g ops) = resolve g.
Proof. exact run_renum. Qed.
Print Assumptions C04_sequences.

Theorem C04_sequence_written :
  forall ops g, all_safe renum_safe g ops = true -> NumInj g -> Linked g -> Resolved g ->
    written_refs (run g ops) = map (retarget (num (run g ops))) (resolve g).
Proof.
  intros ops g S N L R. destruct (run_renum ops g S N L) as (_ & _ & B & E).
  rewrite written_is_retarget; [rewrite E; reflexivity|].
  destruct B as (B1 & _ & _ & _ & B5 & _). intros c Hc h Hh. rewrite B1 in Hc. rewrite B5 in Hh. exact (R c Hc h Hh).
Qed.
Print Assumptions C04_sequence_written.

(* 5. one assignment changes exactly one number *)
Theorem C04_nothing_else :
  forall g k o n,
    let g' := fst (set_number g k o n) in
    same_but_num g g' /\
    (forall k' o', (k' <> k \/ o' <> o) -> num g' k' o' = num g k' o') /\
    (snd (set_number g k o n) = ROk -> num g' k o = n /\ (0 < n)%Z) /\
    (snd (set_number g k o n) <> ROk -> forall k' o', num g' k' o' = num g k' o').
Proof. exact set_number_spec. Qed.
Print Assumptions C04_nothing_else.

(* 6. a swap through a temporary number: all three assignments are accepted and the numbers swap *)
Theorem C04_swap_through_temporary :
  forall g k a b tmp,
    NumInj g -> In a (coll g k) -> In b (coll g k) -> a <> b ->
    (0 < num g k a)%Z -> (0 < num g k b)%Z -> (0 < tmp)%Z -> ~ In tmp (map (num g k) (coll g k)) ->
    let ops := [SetNum k a tmp; SetNum k b (num g k a); SetNum k a (num g k b)] in
    let g1 := fst (step g (SetNum k a tmp)) in
    let g2 := fst (step g1 (SetNum k b (num g k a))) in
    snd (step g (SetNum k a tmp)) = ROk /\ snd (step g1 (SetNum k b (num g k a))) = ROk /\
    snd (step g2 (SetNum k a (num g k b))) = ROk /\
    num (run g ops) k a = num g k b /\ num (run g ops) k b = num g k a /\
    (forall o, o <> a -> o <> b -> num (run g ops) k o = num g k o) /\
    (forall k' o, k' <> k -> num (run g ops) k' o = num g k' o).
Proof. exact swap_through_temporary. Qed.
Print Assumptions C04_swap_through_temporary.

(* 7. the hypotheses are satisfiable: the problem read in C16_nonvacuous_read, and a program that
      swaps surfaces 1 and 2 through 50 and renumbers a cell and a material; the written references
      change, the objects behind them do not *)
Example C04_nonvacuous :
  Resolved wit /\ NumInj wit /\ Linked wit /\
  all_safe renum_safe wit wit_renum_ops = true /\
  written_refs wit <> written_refs (run wit wit_renum_ops) /\
  resolve (run wit wit_renum_ops) = resolve wit.
Proof.
  destruct wit_c04 as (A & B & C). destruct wit_renum_ops_ok as (D & E & F).
  exact (conj A (conj B (conj C (conj D (conj E F))))).
Qed.
Print Assumptions C04_nonvacuous.
