(* C06 — numbered collections: unique numbers, current look-ups, fresh requested numbers,
   atomic failures.  Headline theorems only; the proofs are in Proofs/CollProofs.v. *)
From Coq Require Import List ZArith Bool.
From MPV Require Import Model.Coll Proofs.CollProofs.
Import ListNotations.
Open Scope Z_scope.

(* The invariant and the premises it is proved under (definitions in Proofs/CollProofs.v):

   Inv s    := NoDup (numbers_of s)
               /\ (forall n o, In (n, o) (cache s) -> In o (objs s))
               /\ (clink s = true -> forall o, In o (objs s) -> olink s o = true)
   op_ok s o := match o with
                | SetNum x n => clink s = true \/ ~ In x (objs s) \/ ~ In n (numbers_of s)
                | _ => True end
   ops_ok s ops := op_ok holds for every operation in the state it is applied to *)

(* 1. the constructor establishes the invariant *)
Theorem C06_init_inv :
  forall l numf lk ty cl s,
    init l numf lk ty cl = Some s ->
    (cl = true -> forall o, In o l -> lk o = true) ->
    Inv s.
Proof. exact init_inv. Qed.
Print Assumptions C06_init_inv.

(* 2. every operation preserves it *)
Theorem C06_step_inv : forall s o, Inv s -> op_ok s o -> Inv (fst (step s o)).
Proof. exact step_inv. Qed.
Print Assumptions C06_step_inv.

(* 3. hence it holds in every reachable state *)
Theorem C06_inv : forall ops s, Inv s -> ops_ok s ops -> Inv (run s ops).
Proof. exact run_inv. Qed.
Print Assumptions C06_inv.

(* 4. look-ups are current: get returns exactly the member whose number is n now *)
Theorem C06_lookup :
  forall s n o, Inv s -> (snd (get s n) = Some o <-> In o (objs s) /\ num s o = n).
Proof. exact get_lookup. Qed.
Print Assumptions C06_lookup.

Theorem C06_lookup_none :
  forall s n, Inv s -> (snd (get s n) = None <-> ~ In n (numbers_of s)).
Proof. exact get_lookup_none. Qed.
Print Assumptions C06_lookup_none.

(* 5. requested numbers are free *)
Theorem C06_request_fresh :
  forall s a k s' n, request_number s a k = (s', RNum n) -> ~ In n (numbers_of s').
Proof. exact request_fresh. Qed.
Print Assumptions C06_request_fresh.

Theorem C06_next_fresh :
  forall s k s' n, next_number s k = (s', RNum n) -> ~ In n (numbers_of s').
Proof. exact next_fresh. Qed.
Print Assumptions C06_next_fresh.

(* 6. request_number terminates: the model's fuel |objs|+1 is never exhausted *)
Theorem C06_request_terminates :
  forall s a k, k <> 0 -> forall s', request_number s a k <> (s', RErr OutOfFuel).
Proof. exact request_terminates. Qed.
Print Assumptions C06_request_terminates.

(* 7. a NumberConflictError leaves members, numbers and links unchanged *)
Theorem C06_conflict_atomic :
  forall s o s', Inv s -> step s o = (s', RErr NumberConflict) ->
    objs s' = objs s /\ (forall x, num s' x = num s x) /\ (forall x, olink s' x = olink s x).
Proof. exact conflict_atomic. Qed.
Print Assumptions C06_conflict_atomic.

(* 8. so does a TypeError *)
Theorem C06_type_error_atomic :
  forall s o s', step s o = (s', RErr TypeErr) ->
    objs s' = objs s /\ (forall x, num s' x = num s x) /\ (forall x, olink s' x = olink s x).
Proof. exact type_error_atomic. Qed.
Print Assumptions C06_type_error_atomic.

(* 9. the invariant is not vacuous *)
Example C06_inv_nonvacuous : exists s, Inv s /\ objs s <> [] /\ cache s <> [].
Proof. exact inv_nonvacuous. Qed.
Print Assumptions C06_inv_nonvacuous.
