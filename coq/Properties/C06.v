From MPV Require Import Model.Coll.
Theorem C06_placeholder : True. Proof. exact I. Qed.
