(* C06 — numbered collections: unique numbers, current look-ups, fresh requested numbers,
   atomic failures.  Headline theorems only; the proofs are in Proofs/CollProofs.v. *)
From Coq Require Import List ZArith Bool.
From MPV Require Import Model.Coll Proofs.CollProofs.
Import ListNotations.
Open Scope Z_scope.

(* Definitions (Proofs/CollProofs.v):

   Inv s      := NoDup (numbers_of s) /\ (forall n o, In (n, o) (cache s) -> In o (objs s))
   Linked s   := clink s = true -> forall o, In o (objs s) -> olink s o = LThis

   premises on one operation, each evaluated in the state the operation is applied to:
   op_ok s o    := match o with
                   | SetNum x n => olink s x = LThis \/ ~ In x (objs s) \/ ~ In n (numbers_of s)
                   | _ => True end
   op_keeps s o := match o with FAppend x => ~ In x (objs s) | _ => True end
   ops_ok / ops_keep: the premise holds for every operation of the sequence *)

(* 1. the constructor establishes the invariant (and the link clause when given linked members) *)
Theorem C06_init_inv :
  forall l numf kf lk ty cl fl s, init l numf kf lk ty cl fl = Some s -> Inv s.
Proof. exact init_inv. Qed.
Print Assumptions C06_init_inv.

Theorem C06_init_linked :
  forall l numf kf lk ty cl fl s,
    init l numf kf lk ty cl fl = Some s ->
    (cl = true -> forall o, In o l -> lk o = LThis) -> Linked s.
Proof. exact init_linked. Qed.
Print Assumptions C06_init_linked.

(* 2. every operation preserves the invariant.  The premise op_ok: a collection cannot see the
      renumbering of a member that is not linked to its problem (free-standing collection, member
      taken over by another problem's collection); renumbering such a member onto a number in use
      is excluded.  Theorem 6 shows that nothing is excluded for a problem's own collection. *)
Theorem C06_step_inv : forall s o, Inv s -> op_ok s o -> Inv (fst (step s o)).
Proof. exact step_inv. Qed.
Print Assumptions C06_step_inv.

(* 3. hence it holds in every state reachable inside the premise *)
Theorem C06_inv : forall ops s, Inv s -> ops_ok s ops -> Inv (run s ops).
Proof. exact run_inv. Qed.
Print Assumptions C06_inv.

Example C06_inv_satisfiable :
  exists s ops, Inv s /\ ops_ok s ops /\ List.length ops = 3%nat /\ objs (run s ops) <> objs s.
Proof. exact inv_partial_satisfiable. Qed.
Print Assumptions C06_inv_satisfiable.

(* 4. regression witness of the repaired defect F-C06-remove-equal-object: remove() given an object
      that equals the member but is not the member, after the member was renumbered; the removed
      object is renumbered back: nothing is found under that number and the cache is empty *)
Theorem C06_remove_equal_object_repaired :
  objs (run twin_st twin_ops) = [] /\ snd (get (run twin_st twin_ops) 5) = None /\
  cache (run twin_st twin_ops) = [].
Proof. exact remove_equal_object_repaired. Qed.
Print Assumptions C06_remove_equal_object_repaired.

(* 5. a problem's collection keeps its members linked as long as no other problem's collection
      takes one of them over *)
Theorem C06_linked : forall ops s, Linked s -> ops_keep s ops -> Linked (run s ops).
Proof. exact run_linked. Qed.
Print Assumptions C06_linked.

(* 6. full strength for a problem's collection of any of the five kinds: every sequence of
      operations keeps the invariant; the only side condition is that no member is appended to
      another problem's collection *)
Theorem C06_inv_linked :
  forall ops s, Inv s -> Linked s -> clink s = true -> ops_keep s ops ->
    Inv (run s ops) /\ Linked (run s ops).
Proof. exact run_inv_linked. Qed.
Print Assumptions C06_inv_linked.

Example C06_inv_linked_satisfiable :
  exists s ops, Inv s /\ Linked s /\ clink s = true /\ ops_keep s ops /\
                objs s <> [] /\ List.length ops = 4%nat.
Proof. exact inv_linked_satisfiable. Qed.
Print Assumptions C06_inv_linked_satisfiable.

(* 7. the boolean premise the harness asks the model for is the premise of the theorems *)
Theorem C06_premise_decided : forall s o, op_okb s o = true <-> op_ok s o.
Proof. exact op_okb_spec. Qed.
Print Assumptions C06_premise_decided.

(* 8. look-ups are current: get returns exactly the member whose number is n now *)
Theorem C06_lookup :
  forall s n o, Inv s -> (snd (get s n) = Some o <-> In o (objs s) /\ num s o = n).
Proof. exact get_lookup. Qed.
Print Assumptions C06_lookup.

Theorem C06_lookup_none :
  forall s n, Inv s -> (snd (get s n) = None <-> ~ In n (numbers_of s)).
Proof. exact get_lookup_none. Qed.
Print Assumptions C06_lookup_none.

(* 9. requested numbers are free *)
Theorem C06_request_fresh :
  forall s a k s' n, request_number s a k = (s', RNum n) -> ~ In n (numbers_of s').
Proof. exact request_fresh. Qed.
Print Assumptions C06_request_fresh.

Theorem C06_next_fresh :
  forall s k s' n, next_number s k = (s', RNum n) -> ~ In n (numbers_of s').
Proof. exact next_fresh. Qed.
Print Assumptions C06_next_fresh.

(* 10. request_number terminates: the model's fuel |objs|+1 is never exhausted *)
Theorem C06_request_terminates :
  forall s a k, k <> 0 -> forall s', request_number s a k <> (s', RErr OutOfFuel).
Proof. exact request_terminates. Qed.
Print Assumptions C06_request_terminates.

(* 11. a NumberConflictError leaves members, numbers and links unchanged (the members of the other
       problem's collection too) *)
Theorem C06_conflict_atomic :
  forall s o s', Inv s -> step s o = (s', RErr NumberConflict) ->
    objs s' = objs s /\ (forall x, num s' x = num s x) /\ (forall x, olink s' x = olink s x).
Proof. exact conflict_atomic. Qed.
Print Assumptions C06_conflict_atomic.

Theorem C06_conflict_atomic_foreign :
  forall s o s', step s o = (s', RErr NumberConflict) -> fobjs s' = fobjs s.
Proof. exact conflict_atomic_foreign. Qed.
Print Assumptions C06_conflict_atomic_foreign.

(* 12. so does a TypeError *)
Theorem C06_type_error_atomic :
  forall s o s', step s o = (s', RErr TypeErr) ->
    objs s' = objs s /\ (forall x, num s' x = num s x) /\ (forall x, olink s' x = olink s x).
Proof. exact type_error_atomic. Qed.
Print Assumptions C06_type_error_atomic.

(* 13. the invariant is not vacuous *)
Example C06_inv_nonvacuous : exists s, Inv s /\ objs s <> [] /\ cache s <> [].
Proof. exact inv_nonvacuous. Qed.
Print Assumptions C06_inv_nonvacuous.
