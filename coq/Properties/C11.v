(* C11 — the problem read does not depend on the file's physical layout (line layer).
   Headline theorems only; the proofs are in Proofs/LinesProofs.v, the model in Model/Lines.v
   (read_front_matters, read_data as of /repo commit 2db4963, is_comment, _clean_line, str.expandtabs).

   A file is the list of its raw lines as MontePy iterates them (body + LF or CR LF).
     read_lines w f      what read_front_matters / read_data make of it, reduced to its logical content:
                         (title, [(block type, words of the data of the input)], UnsupportedFeature or not)
                         words = maximal runs of non-blank characters before the first '$' of every line that is not a
                         C comment line, without the words "&".  NOT part of it: start line numbers, comment texts,
                         blank runs, tabs, line ends, the message block, how the words are spread over lines.
     layout_step         one elementary re-layout (LinesProofs.data_step):
                           DS_amp             continuation by >= 5 leading blanks  <->  trailing " &" + any indentation
                           DS_comment_after / _before / _text   a C comment line (C in columns 1-5) next to a non-blank
                                              line, also between an '&' line and its continuation; its text
                           DS_dollar          a '$' comment at the end of a data line not continued by '&'
                           DS_trail           blanks at the end of a data line (also after an '&')
                           DS_tab             a tab <-> the blanks up to the next multiple of 8 columns
                           DS_eol             LF <-> CR LF
                           DS_indent          the indentation of a line, on either side of column 5
                           DS_blank           what a blank line consists of
                         and LS_front: message block added / removed / changed, line end of the title line;
                             LS_tail: anything after the blank line that ends the third block.
     layout_equiv w      reflexive, symmetric, transitive closure over files whose lines have at most w columns
                         (tabs expanded, line end not counted).
   Side conditions of the steps exclude: vertical format ('#' in columns 1-5), lines whose first word is a lone
   c/C outside columns 1-5 or that have a c in column 6 (is_comment takes them for comments, see 6), '&' followed
   by a '$' comment (deliberately not a continuation in MontePy), a continuation line that starts with '&'.   *)
From Coq Require Import List String Ascii Arith Bool.
From MPV Require Import Model.Wire Model.Lines Gen.LexerFlags Proofs.LinesProofs.
Import ListNotations.
Open Scope string_scope.

(* 1. every layout in the closure reads as the same title, the same inputs (block type, words) in the same order,
      and the same error *)
Theorem C11_layout : forall w f f',
  layout_equiv w f f' -> read_lines w f = read_lines w f'.
Proof. exact layout_equiv_sound. Qed.
Print Assumptions C11_layout.

(* one step, with the hypotheses spelled out *)
Theorem C11_layout_step : forall w f f', layout_step f f' ->
  within_limit w f = true -> within_limit w f' = true -> read_lines w f = read_lines w f'.
Proof. exact layout_step_sound. Qed.
Print Assumptions C11_layout_step.

(* non-vacuity: two layouts of a two-block file, two steps apart ('&' continuation starting in column 2,
   a comment line with CR LF after the blank line), and what they read as *)
Example C11_layout_nonvacuous :
  layout_equiv 128 ex_a ex_d /\
  read_lines 128 ex_d = (Some "t", [(0, ["2"; "0"; "1"; "-2"; "imp:n=1"]); (1, ["1"; "px"; "0"])], None).
Proof. exact (conj ex_equiv ex_value). Qed.
Print Assumptions C11_layout_nonvacuous.

(* the four single steps across which the reader before commit 2db4963 gave different inputs (blanks after the
   '&'; a comment line between the '&' line and a continuation in columns 1-5; a comment line ending in " &";
   a '$' comment ending in " &"), and the '&' in the last allowed column *)
Example C11_layout_former_defects :
  same_reading wit1 wit1' /\ same_reading wit2 wit2' /\ same_reading wit3 wit3' /\ same_reading wit4 wit4' /\
  read_lines 128 wit1' = (Some "t", [(0, ["2"; "0"; "1"; "-2"; "imp:n=1"])], None) /\
  read_lines 128 wit2' = (Some "t", [(0, ["2"; "0"; "1"; "-2"; "imp:n=1"])], None) /\
  read_lines 128 wit3' = (Some "t", [(0, ["1"; "0"; "-1"]); (0, ["2"; "0"; "1"])], None) /\
  read_lines 128 wit4' = (Some "t", [(0, ["1"; "0"; "-1"]); (0, ["2"; "0"; "1"])], None).
Proof. exact (conj wit1_same (conj wit2_same (conj wit3_same (conj wit4_same wit_values)))). Qed.
Print Assumptions C11_layout_former_defects.

Example C11_layout_last_column :
  layout_equiv 10 edge_a edge_b /\ read_lines 10 edge_b = (Some "t", [(0, ["1"; "0"; "-1"; "2"; "3"])], None).
Proof. exact edge_same. Qed.
Print Assumptions C11_layout_last_column.

(* 2. tabs: str.expandtabs(8) on a line is MCNP's rule S1, column by column; a tab is the blanks up to the next
      multiple of 8 columns *)
Theorem C11_tabs : forall x, no_eol x = true ->
  expandtabs TABSIZE (x ++ String nl "") = spec_expand_from 0 x ++ String nl "".
Proof. exact expandtabs_is_S1. Qed.
Print Assumptions C11_tabs.

Theorem C11_tab_is_blanks : forall u v,
  spec_expand_from 0 (u ++ String tab v) = spec_expand_from 0 (u ++ blanks (tab_fill u) v).
Proof. exact tab_is_blanks. Qed.
Print Assumptions C11_tab_is_blanks.

Example C11_tabs_nonvacuous :
  expandtabs TABSIZE ("1" ++ String tab ("0" ++ String tab ("-1" ++ String nl ""))) = "1       0       -1" ++ String nl ""
  /\ tab_fill "1234567" = 1 /\ tab_fill "12345678" = 8.
Proof. repeat split; reflexivity. Qed.

(* 3. line ends: _clean_line gives the same line for LF and CR LF *)
Theorem C11_eol : forall x, no_eol x = true -> clean_line (x ++ crlf) = clean_line (x ++ lf).
Proof. exact clean_line_crlf. Qed.
Print Assumptions C11_eol.

(* ... and for a whole file: writing every LF as CR LF gives the same cleaned lines *)
Theorem C11_eol_file : forall s, no_cr s = true -> file_lines (to_crlf s) = file_lines s.
Proof. exact file_lines_crlf. Qed.
Print Assumptions C11_eol_file.

Example C11_eol_file_nonvacuous :
  no_cr ("t" ++ lf ++ "1 0 -1 &" ++ lf ++ "2" ++ lf) = true /\
  to_crlf ("t" ++ lf ++ "1 0 -1 &" ++ lf ++ "2" ++ lf) = "t" ++ crlf ++ "1 0 -1 &" ++ crlf ++ "2" ++ crlf /\
  file_lines ("t" ++ crlf ++ "1 0 -1 &" ++ crlf ++ "2" ++ crlf) = ["t" ++ lf; "1 0 -1 &" ++ lf; "2" ++ lf].
Proof. repeat split; reflexivity. Qed.

(* 4. comment lines: on printable lines is_comment is rule S5 plus the lines late_c describes (a c in column 6,
      or a lone c beyond it): is_comment alone is NOT rule S5 ... *)
Theorem C11_comment_rule : forall x, all_plain x = true ->
  is_comment (x ++ lf) = orb (spec_comment x) (late_c x).
Proof. exact is_comment_S5. Qed.
Print Assumptions C11_comment_rule.

Theorem C11_comment_rule_refuted : exists x, all_plain x = true /\ is_comment (x ++ lf) <> spec_comment x.
Proof. exact is_comment_refuted. Qed.
Print Assumptions C11_comment_rule_refuted.

Theorem C11_comment_rule_partial : forall x, all_plain x = true -> late_c x = false ->
  is_comment (x ++ lf) = spec_comment x.
Proof. exact is_comment_partial. Qed.
Print Assumptions C11_comment_rule_partial.

Example C11_comment_rule_nonvacuous :
  all_plain "  c a comment" = true /\ late_c "  c a comment" = false /\ spec_comment "  c a comment" = true /\
  all_plain "cz 5" = true /\ late_c "cz 5" = false /\ spec_comment "cz 5" = false.
Proof. repeat split; reflexivity. Qed.

(* ... which is harmless for read_data: such a line has columns 1-5 blank, so it continues the input either way,
   and since 2db4963 it takes part in the '&' test (C11_layout's steps simply do not touch such lines) *)

(* 5. the model's loop is one transducer over line classes (what the closure proof works on) *)
Theorem C11_reader_is_transducer : forall w rc ls lineno bc bt cont hnc raw,
  lift (rd_loop w rc ls lineno bc bt cont hnc raw)
  = arun (map (line_class w) ls)
         (mkA bc bt cont hnc (nonempty raw) (flat_map line_words raw) (negb rc) false).
Proof. exact rd_loop_sim. Qed.
Print Assumptions C11_reader_is_transducer.

(* 6. token level (not modelled as automata): facts read off the lexer and parser classes on every run
      (Gen/LexerFlags.v) — every lexer ignores case; white space of any length is one SPACE token, '$' comments
      run to the end of the line; padding absorbs SPACE, comments and '&'; key and value are separated by padding,
      '=' or both; the constants are the model's.  Finite domains, decided by evaluation. *)
Theorem C11_lexers_ignore_case :
  lexer_names = ["MCNP_Lexer"; "ParticleLexer"; "CellLexer"; "DataLexer"; "SurfaceLexer"] /\
  forallb (fun x => snd x) lexer_flags = true.
Proof. exact (conj lexers_listed lexers_ignore_case). Qed.
Print Assumptions C11_lexers_ignore_case.

Theorem C11_lexer_layout_rules :
  forallb (fun lx => andb (lbeq String.eqb (rule_of lx "SPACE") ["(\s+)"])
                    (andb (lbeq String.eqb (rule_of lx "DOLLAR_COMMENT") ["(\$.*)"])
                          (lbeq String.eqb (rule_of lx "COMMENT") ["(C\n)|(C\s.*)"])))
          lexer_names = true.
Proof. exact lexer_layout_rules. Qed.
Print Assumptions C11_lexer_layout_rules.

Theorem C11_grammar_layout_rules :
  forallb (fun p =>
    andb (lls_beq (alts_of p "padding")
            [[["COMMENT"]; ["DOLLAR_COMMENT"]; ["SPACE"]; ["padding"; "&"]; ["padding"; "COMMENT"];
              ["padding"; "DOLLAR_COMMENT"]; ["padding"; "SPACE"]]])
    (andb (lls_beq (alts_of p "equals_sign") [[["="]; ["="; "padding"]]])
          (lls_beq (alts_of p "param_seperator") [[["equals_sign"]; ["padding"]; ["padding"; "equals_sign"]]])))
    ["cell"; "surface"; "data"; "read"] = true.
Proof. exact grammar_layout_rules. Qed.
Print Assumptions C11_grammar_layout_rules.

Theorem C11_constants :
  blank_space_continue = BLANK_SPACE_CONTINUE /\ tabsize = TABSIZE /\ ascii_ceiling = ASCII_CEILING /\
  line_length = [([5; 1; 60], 80); ([6; 1; 0], 80); ([6; 2; 0], 128)] /\ default_version = [6; 2; 0].
Proof. exact constants_agree. Qed.
Print Assumptions C11_constants.
