(* C20 — files pulled in by read cards are merged exactly once, in the right block.
   Model: Model/ReadQ.v (reading_queue, flush_input's read-card test, the drain loop with its cycle test, path
   resolution) over Model/Lines.v (the line loop).  Headline theorems only; the proofs are in Proofs/ReadQProofs.v.

   Vocabulary.  ft : opener            what open(path) + iteration gives (None = no such file);
                                       [fs_text fs cwd] for a byte file system and a working directory.
                read_all_gft w ft cwd top fuel   montepy's reading of `top` and everything it reads (THE model);
                read_all w fs cwd top fuel       the same on a byte file system.
                item = (bt, name, par)  a read card that was met: block type, file name, parent file.
                bfs n .. q0             the read cards of the first n generations below the top-level file's own
                                        read cards q0, generation by generation, each in the order met.
                gen_at n .. q0 = []     no read card in generation n: the tree of files is finite.
                ycards ys               (block type, lines) of the inputs handed on (a read card is handed on as
                                        None and does not appear).
                E_Cycle                 MalformedInputError raised by the cycle test of the drain loop.
   Statements 1-8 carry the hypothesis "no cycle is reported": the cycle test compares resolved paths, the tree
   of files is given by path strings; 9-10 say what the cycle test does. *)
From Coq Require Import List String Ascii Arith Bool Lia.
From MPV Require Import Model.Wire Model.Lines Model.ReadQ Proofs.ReadQProofs.
Import ListNotations.
Open Scope string_scope.
Open Scope list_scope.

(* 1. ORDER.  With a finite tree, every file there and read without an error, and one unit of fuel per file: the
   stream is the top-level file's own inputs followed by the files of the read cards in breadth-first order, i.e.
   "in the order the read cards were met", and the reading ends without an error. *)
Theorem C20_order : forall w ft cwd top fuel ls ys0 q0 n,
  ft top = Some ls ->
  scan_file w false 0 top (f_rest (read_front_matters ls)) = (ys0, q0, None) ->
  Forall (item_ok w ft (dirname top)) (bfs n w ft (dirname top) q0) ->
  gen_at n w ft (dirname top) q0 = [] ->
  List.length (bfs n w ft (dirname top) q0) <= fuel ->
  ra_error (read_all_gft w ft cwd top fuel) <> Some E_Cycle ->
  ra_yields (read_all_gft w ft cwd top fuel)
    = ys0 ++ flat_map (item_yields w ft (dirname top)) (bfs n w ft (dirname top) q0)
  /\ ra_error (read_all_gft w ft cwd top fuel) = None.
Proof. exact g_order. Qed.
Print Assumptions C20_order.

(* 2. ONCE.  Each read card contributes the inputs of its file exactly once, as one segment. *)
Theorem C20_once : forall w ft cwd top fuel ls ys0 q0 n,
  ft top = Some ls ->
  scan_file w false 0 top (f_rest (read_front_matters ls)) = (ys0, q0, None) ->
  Forall (item_ok w ft (dirname top)) (bfs n w ft (dirname top) q0) ->
  gen_at n w ft (dirname top) q0 = [] ->
  List.length (bfs n w ft (dirname top) q0) <= fuel ->
  ra_error (read_all_gft w ft cwd top fuel) <> Some E_Cycle ->
  inputs_of (ra_yields (read_all_gft w ft cwd top fuel))
    = inputs_of ys0 ++
      flat_map (fun it => inputs_of (item_yields w ft (dirname top) it)) (bfs n w ft (dirname top) q0).
Proof. exact g_once. Qed.
Print Assumptions C20_once.

(* 3. BLOCK.  A file that holds one block (nothing but blank lines after its first blank line) yields all its inputs
   with the block type recorded with its read card ... *)
Theorem C20_block_partial : forall w ft dir it,
  item_one_block ft dir it -> Forall (yield_bt (fst (fst it))) (item_yields w ft dir it).
Proof. exact item_yields_block. Qed.
Print Assumptions C20_block_partial.

(* ... but not any file: an input behind a blank line inside the file named by a data-block read card is handed on
   as a surface input (the sub-file's own block counter runs). *)
Theorem C20_block_refuted :
  exists w fs cwd top fuel it p i,
    ra_error (read_all w fs cwd top fuel) = None /\
    snd (fst (scan_file w false 0 top (f_rest (read_front_matters (file_lines (snd (List.hd ("", "") fs))))))) = [it] /\
    In (YInput p i) (item_yields w (fs_text fs cwd) (dirname top) it) /\
    fst (fst it) = 2 /\ i_bt i = 1 /\ i_lines i = ["mode n"].
Proof. exact block_refuted. Qed.
Print Assumptions C20_block_refuted.

(* 4. BLOCK + ORDER.  Block b of the problem = the top-level file's own inputs of block b, then the files of the read
   cards that stood in block b, in breadth-first order. *)
Theorem C20_block_order : forall w ft cwd top fuel ls ys0 q0 n b,
  ft top = Some ls ->
  scan_file w false 0 top (f_rest (read_front_matters ls)) = (ys0, q0, None) ->
  Forall (item_ok w ft (dirname top)) (bfs n w ft (dirname top) q0) ->
  Forall (item_one_block ft (dirname top)) (bfs n w ft (dirname top) q0) ->
  gen_at n w ft (dirname top) q0 = [] ->
  List.length (bfs n w ft (dirname top) q0) <= fuel ->
  ra_error (read_all_gft w ft cwd top fuel) <> Some E_Cycle ->
  block_of b (ycards (ra_yields (read_all_gft w ft cwd top fuel)))
    = block_of b (ycards ys0) ++
      flat_map (fun it => ycards (item_yields w ft (dirname top) it))
               (filter (fun it => Nat.eqb (fst (fst it)) b) (bfs n w ft (dirname top) q0)).
Proof. exact g_block_order. Qed.
Print Assumptions C20_block_order.

(* the hypotheses of 1-4 hold for a tree of depth 3 with read cards in two blocks (bytes in ReadQProofs.ex_fs),
   read from another working directory *)
Example C20_text_hypotheses :
  exists ls ys0,
    ex_ft ex_top = Some ls /\
    scan_file 128 false 0 ex_top (f_rest (read_front_matters ls)) = (ys0, ex_q0, None) /\
    Forall (item_ok 128 ex_ft (dirname ex_top)) (bfs 3 128 ex_ft (dirname ex_top) ex_q0) /\
    Forall (item_one_block ex_ft (dirname ex_top)) (bfs 3 128 ex_ft (dirname ex_top) ex_q0) /\
    gen_at 3 128 ex_ft (dirname ex_top) ex_q0 = [] /\
    bfs 3 128 ex_ft (dirname ex_top) ex_q0 = ex_q0 ++ [(2, "sub/d3.i", "/p/d1.i")] /\
    List.length (bfs 3 128 ex_ft (dirname ex_top) ex_q0) <= 4.
Proof. exact ex_text_hyps. Qed.

Example C20_text_result :
  ycards (ra_yields (read_all 128 ex_fs "/somewhere/else" ex_top 4))
  = [ (0, ["1 0 -1"]); (1, ["1 so 5"]); (2, ["mode n"]); (2, ["nps 10"]);
      (0, ["2 0 1"]); (2, ["sdef"]); (2, ["m1 1001.80c 1"]); (2, ["ctme 5"]) ]
  /\ ra_error (read_all 128 ex_fs "/somewhere/else" ex_top 4) = None.
Proof. exact ex_g_result. Qed.

(* 5. FLATTENING.  A problem's inputs distributed over a tree of files: the top-level file is a front matter and up to
   three blocks of cards (the first card of a block may have comment lines in front; what stands behind the blank
   line that ends the third block is not looked at), every file named by a read card is the cards of one block
   followed by nothing but blank lines; a card is a line with data in columns 1-5 and its continuation / comment
   lines (card_ok), no read card is malformed.  Reading the tree gives, block by block, exactly the inputs, message
   and title of the single file obtained by textual substitution ([flatten]: the block's own cards without the read
   cards, then the targets, breadth first), and neither reading reports an error. *)
Theorem C20_flatten : forall w t top front tsf n cwd,
  front_ok front ->
  top_ok w tsf = true ->
  slookup t top = None ->
  Forall (s_item_ok w t (dirname top))
         (bfsG (s_children w t (dirname top)) n (reads_of w top (sfile_tcards false 0 tsf))) ->
  forall fuel,
  gen_atG (s_children w t (dirname top)) n (reads_of w top (sfile_tcards false 0 tsf)) = [] ->
  List.length (bfsG (s_children w t (dirname top)) n (reads_of w top (sfile_tcards false 0 tsf))) <= fuel ->
  ra_error (read_all_gft w (tree_ft top (front ++ render tsf) t) cwd top fuel) <> Some E_Cycle ->
  let r := read_all_gft w (tree_ft top (front ++ render tsf) t) cwd top fuel in
  let r1 := read_single w (front ++ render (flatten w t top tsf n)) in
  ra_error r = None /\ ra_error r1 = None /\
  by_blocks (ycards (ra_yields r)) = ycards (ra_yields r1) /\
  ra_message r = ra_message r1 /\ ra_title r = ra_title r1.
Proof. exact g_flatten. Qed.
Print Assumptions C20_flatten.

Example C20_flatten_hypotheses :
  front_ok [L "MESSAGE: x"; L "more"; L ""; L "title"] /\ front_ok [L "title"] /\
  top_ok 128 ex_tsf = true /\ slookup ex_tree ex_top = None /\
  Forall (s_item_ok 128 ex_tree (dirname ex_top))
         (bfsG (s_children 128 ex_tree (dirname ex_top)) 3 (reads_of 128 ex_top (sfile_tcards false 0 ex_tsf))) /\
  gen_atG (s_children 128 ex_tree (dirname ex_top)) 3 (reads_of 128 ex_top (sfile_tcards false 0 ex_tsf)) = [] /\
  List.length (bfsG (s_children 128 ex_tree (dirname ex_top)) 3 (reads_of 128 ex_top (sfile_tcards false 0 ex_tsf))) = 4.
Proof. exact ex_tree_hyps. Qed.

Example C20_flatten_no_cycle_reported :
  ra_error (read_all_gft 128 (tree_ft ex_top ([L "title"] ++ render ex_tsf) ex_tree) "/elsewhere" ex_top 4) = None.
Proof. exact ex_tree_no_cycle_report. Qed.

Example C20_flatten_text :
  render (flatten 128 ex_tree ex_top ex_tsf 3)
  = [ L "1 0 -1"; L "2 0 1"; L "";
      L "c in front"; L "1 so 5"; L "";
      L "mode n"; L "nps 10"; L "     11"; L "sdef"; L "m1 1001.80c 1"; L "ctme 5" ].
Proof. exact ex_flatten. Qed.

(* Line for line the statement needs "no comment line in front of a sub-file's first card": such a comment line stays
   with the sub-file's first input in the tree and goes to the input in front of it in the flattened file (the data
   lines are the same). *)
Theorem C20_flatten_lead_comment_refuted :
  exists w t top front tsf n fuel,
    front_ok front /\ top_ok w tsf = true /\ slookup t top = None /\
    Forall (fun it => exists sf, slookup t (item_path (dirname top) it) = Some sf /\ sfile_ok w true sf = true /\
                                 s_more sf = [])
           (bfsG (s_children w t (dirname top)) n (reads_of w top (sfile_tcards false 0 tsf))) /\
    gen_atG (s_children w t (dirname top)) n (reads_of w top (sfile_tcards false 0 tsf)) = [] /\
    List.length (bfsG (s_children w t (dirname top)) n (reads_of w top (sfile_tcards false 0 tsf))) <= fuel /\
    ycards (ra_yields (read_all_gft w (tree_ft top (front ++ render tsf) t) "/" top fuel))
      = [(0, ["1 0 -1"]); (1, ["1 so 5"]); (2, ["mode n"]); (2, ["c lead"; "nps 10"])] /\
    ycards (ra_yields (read_single w (front ++ render (flatten w t top tsf n))))
      = [(0, ["1 0 -1"]); (1, ["1 so 5"]); (2, ["mode n"; "c lead"]); (2, ["nps 10"])].
Proof. exact flatten_lead_comment_refuted. Qed.
Print Assumptions C20_flatten_lead_comment_refuted.

(* 6. WORKING DIRECTORY.  With the top-level file given by an absolute path the whole result (paths, inputs, error) is
   the same from every working directory: read targets are resolved against the top-level file's directory. *)
Theorem C20_cwd_free : forall w fs cwd cwd' top fuel,
  is_abs top = true -> read_all w fs cwd top fuel = read_all w fs cwd' top fuel.
Proof. exact g_cwd_free. Qed.
Print Assumptions C20_cwd_free.

(* 7. MISSING TARGET.  If the first read card (in breadth-first order) whose file is absent is reached, the reading
   ends in FileNotFoundError after handing on what came before; so does a missing top-level file. *)
Theorem C20_missing : forall w ft cwd top fuel ls ys0 q0 n pre it post,
  ft top = Some ls ->
  scan_file w false 0 top (f_rest (read_front_matters ls)) = (ys0, q0, None) ->
  bfs n w ft (dirname top) q0 = pre ++ it :: post ->
  Forall (item_ok w ft (dirname top)) pre -> item_missing ft (dirname top) it ->
  List.length pre < fuel ->
  ra_error (read_all_gft w ft cwd top fuel) <> Some E_Cycle ->
  ra_error (read_all_gft w ft cwd top fuel) = Some E_FileNotFound /\
  ra_yields (read_all_gft w ft cwd top fuel) = ys0 ++ flat_map (item_yields w ft (dirname top)) pre.
Proof. exact g_missing. Qed.
Print Assumptions C20_missing.

Theorem C20_missing_top : forall w ft cwd top fuel,
  ft top = None -> ra_error (read_all_gft w ft cwd top fuel) = Some E_FileNotFound.
Proof. exact g_missing_top. Qed.
Print Assumptions C20_missing_top.

Example C20_missing_hypotheses :
  exists ls ys0 q0 pre it post,
    fs_text (removelast ex_fs) "/" ex_top = Some ls /\
    scan_file 128 false 0 ex_top (f_rest (read_front_matters ls)) = (ys0, q0, None) /\
    bfs 3 128 (fs_text (removelast ex_fs) "/") (dirname ex_top) q0 = pre ++ it :: post /\
    Forall (item_ok 128 (fs_text (removelast ex_fs) "/") (dirname ex_top)) pre /\
    item_missing (fs_text (removelast ex_fs) "/") (dirname ex_top) it /\ List.length pre < 4.
Proof. exact ex_missing. Qed.

(* 8. WRITING.  What parse_input keeps (and write_to_file therefore writes, block by block: written_blocks) is every
   input of every file reached, in the order of 1, except exactly the read cards; and no read card is ever kept,
   whatever the files hold. *)
Theorem C20_write_omits_only_read_cards : forall w ft cwd top fuel ls ys0 q0 n,
  ft top = Some ls ->
  scan_file w false 0 top (f_rest (read_front_matters ls)) = (ys0, q0, None) ->
  Forall (item_ok w ft (dirname top)) (bfs n w ft (dirname top) q0) ->
  gen_at n w ft (dirname top) q0 = [] ->
  List.length (bfs n w ft (dirname top) q0) <= fuel ->
  ra_error (read_all_gft w ft cwd top fuel) <> Some E_Cycle ->
  inputs_of (ra_yields (read_all_gft w ft cwd top fuel))
    = map (pair top) (filter (fun i => negb (is_name (classify i)))
                             (fst (read_data_rec w false 0 (f_rest (read_front_matters ls))))) ++
      flat_map (fun it => map (pair (item_path (dirname top) it))
                              (filter (fun i => negb (is_name (classify i))) (item_inputs w ft (dirname top) it)))
               (bfs n w ft (dirname top) q0).
Proof. exact g_kept. Qed.
Print Assumptions C20_write_omits_only_read_cards.

Theorem C20_write_no_read_card : forall w ft cwd top fuel,
  Forall (fun c => is_name (classify_lines (snd c)) = false) (ycards (ra_yields (read_all_gft w ft cwd top fuel))).
Proof. exact g_no_read_card. Qed.
Print Assumptions C20_write_no_read_card.

(* 9. TERMINATION.  For every file system, top-level file and working directory the reading ends: with R = the largest
   number of lines of a file and n = the number of files, R (1 + R + ... + R^n) units of fuel (files opened) are never
   used up.  (Each read card either ends the reading or is replaced by read cards whose files have one more distinct
   existing file among the files that led to them.) *)
Theorem C20_terminates : forall w fs cwd top fuel,
  max_lines fs * wsum (max_lines fs) (List.length fs) <= fuel ->
  ra_error (read_all w fs cwd top fuel) <> Some E_OutOfFuel.
Proof. exact readq_terminates. Qed.
Print Assumptions C20_terminates.

(* 10. CYCLE.  A file that reads itself (cy2.i holds "nps 10" and "read file=cy2.i") is read once, then the cycle is
   reported as MalformedInputError ... *)
Theorem C20_cycle : forall fuel, 2 <= fuel ->
  ra_error (read_all 128 cy_fs "/" "/p/top.i" fuel) = Some E_Cycle /\
  ycards (ra_yields (read_all 128 cy_fs "/" "/p/top.i" fuel)) = [(0, ["1 0 -1"]); (1, ["1 so 5"]); (2, ["nps 10"])].
Proof. exact cycle_reported. Qed.
Print Assumptions C20_cycle.

(* ... unless it reports a cycle the present drain loop is the loop without the cycle test ... *)
Theorem C20_cycle_test_transparent : forall w fs cwd top fuel,
  ra_error (read_all w fs cwd top fuel) <> Some E_Cycle ->
  read_all w fs cwd top fuel = read_all_u w fs cwd top fuel.
Proof. exact read_all_transparent. Qed.
Print Assumptions C20_cycle_test_transparent.

(* ... a file read through two read cards, one of them with ".." in its path, is not a cycle ... *)
Example C20_cycle_test_quiet :
  let fs := [ ("/p/top.i", cat [L "t"; L "1 0 -1"; L ""; L "1 so 5"; L ""; L "read file=a.i"; L "read file=sub/../a.i"]);
              ("/p/a.i", cat [L "c only a comment"]); ("/p/sub/../a.i", cat [L "c only a comment"]) ] in
  ra_error (read_all 128 fs "/" "/p/top.i" 3) = None /\
  read_all 128 fs "/" "/p/top.i" 3 = read_all_u 128 fs "/" "/p/top.i" 3.
Proof. exact guard_quiet_example. Qed.

(* ... and the loop without the test (the code before /repo commit 2963569) never ended on such files: every set S of
   read cards each of which leads to another one of S exhausts every fuel (montepy.read_input did not return). *)
Theorem C20_without_cycle_test_diverges : forall w ft top ls ys0 q0 (good S : qitem -> Prop),
  ft top = Some ls ->
  scan_file w false 0 top (f_rest (read_front_matters ls)) = (ys0, q0, None) ->
  (forall it, good it -> item_ok w ft (dirname top) it /\ Forall good (item_children w ft (dirname top) it)) ->
  (forall it, S it -> good it /\ Exists S (item_children w ft (dirname top) it)) ->
  Forall good q0 -> Exists S q0 ->
  forall fuel, ra_error (read_all_ft w ft top fuel) = Some E_OutOfFuel.
Proof. exact readq_cycle. Qed.
Print Assumptions C20_without_cycle_test_diverges.

Theorem C20_without_cycle_test_refuted : forall cwd fuel,
  ra_error (read_all_u 128 cy_fs cwd "/p/top.i" fuel) = Some E_OutOfFuel.
Proof. exact cycle_example. Qed.
Print Assumptions C20_without_cycle_test_refuted.
