(* C12 — every input of the documented core grammar is accepted.
   Headline statements only; the proofs are in Proofs/CoreGrammarProofs.v, the model in Model/CoreGrammar.v.

   What is proved (all `_partial`, for two separate reasons that the names and the manifest state):
   (a) side conditions: [shape_ok_b] leaves out the G_core sentences that the *current* MontePy cannot lex as
       intended — the particle designators u x y z c outside a classifier (MODE lists, PAR=), special-symbol
       designators that FILE_PATH swallows, a non-integer xM factor — each of which the harness finds as a concrete rejected sentence (known
       findings), and for several of which a `_refuted` statement is computed here on the generated LALR automaton;
   (b) the honest limit: derivability in the context-free grammar whose productions are SLY's table does not imply
       that the LALR(1) automaton SLY builds from it (with its conflict resolution) accepts the sentence, nor that
       the ordered regular expressions of the lexer give each token the class [gen] claims, nor that the
       semantic actions and constructors do not raise afterwards.  Those are tied per generated sentence by the
       harness: real lexer tokens = model tokens, real parser verdict = verdict of [lr_run] on the generated
       action/goto tables (the automaton itself is in the model, under correspondence), real constructors
       raise nothing.  What *is* proved about the automaton model is its soundness: whatever [lr_run] accepts is
       derivable ([C12_lr_sound_*]). *)
From Coq Require Import List String Ascii ZArith Bool.
From MPV Require Import Model.Wire Model.CoreGrammar Proofs.CoreGrammarProofs.
From MPV Require Gen.Grammar Gen.Tables Gen.LRTables.
Import ListNotations.
Open Scope string_scope.

(* ------------------------------------------------------------------ 1. reflective obligations on the generated
   production tables: every production the derivations use is in the table of its parser.  [missing req G]
   computes the productions of [req] that [G] lacks: deleting a needed production (or one alternative of a rule)
   in the source makes the corresponding statement fail with that production as the computed witness; adding
   productions changes nothing. *)
Theorem C12_required_cell : missing required_cell Gen.Grammar.cell_productions = [].
Proof. vm_compute. reflexivity. Qed.
Print Assumptions C12_required_cell.
Theorem C12_required_surface : missing required_surface Gen.Grammar.surface_productions = [].
Proof. vm_compute. reflexivity. Qed.
Print Assumptions C12_required_surface.
Theorem C12_required_data : missing required_data Gen.Grammar.data_productions = [].
Proof. vm_compute. reflexivity. Qed.
Print Assumptions C12_required_data.
Theorem C12_required_classifier : missing required_classifier Gen.Grammar.classifier_productions = [].
Proof. vm_compute. reflexivity. Qed.
Print Assumptions C12_required_classifier.
Theorem C12_required_param_only : missing required_param_only Gen.Grammar.param_only_productions = [].
Proof. vm_compute. reflexivity. Qed.
Print Assumptions C12_required_param_only.
Theorem C12_required_material : missing required_material Gen.Grammar.material_productions = [].
Proof. vm_compute. reflexivity. Qed.
Print Assumptions C12_required_material.
Theorem C12_required_thermal : missing required_thermal Gen.Grammar.thermal_productions = [].
Proof. vm_compute. reflexivity. Qed.
Print Assumptions C12_required_thermal.
Theorem C12_required_tally : missing required_tally Gen.Grammar.tally_productions = [].
Proof. vm_compute. reflexivity. Qed.
Print Assumptions C12_required_tally.
Theorem C12_required_tally_seg : missing required_tally_seg Gen.Grammar.tally_seg_productions = [].
Proof. vm_compute. reflexivity. Qed.
Print Assumptions C12_required_tally_seg.
(* the start symbols the derivations end in are the start symbols of the generated grammars *)
Theorem C12_start_symbols : wrong_starts = [].
Proof. vm_compute. reflexivity. Qed.
Print Assumptions C12_start_symbols.

(* ------------------------------------------------------------------ 2. table obligations: the words of G_core
   are classified by the generated lexer tables the way [gen] claims *)
(* every keyword of G_core's cell parameters, material parameters, SDEF and VOL NO is in _KEYWORDS *)
Theorem C12_tables_keywords :
  missing_str (core_cell_keys ++ core_mat_keys ++ core_sdef_keys ++ ["no"]) Gen.Tables.keywords = [].
Proof. vm_compute. reflexivity. Qed.
Print Assumptions C12_tables_keywords.
(* every surface mnemonic of G_core is in _SURFACE_TYPES *)
Theorem C12_tables_mnemonics : missing_str core_mnemonics Gen.Tables.surface_types = [].
Proof. vm_compute. reflexivity. Qed.
Print Assumptions C12_tables_mnemonics.
(* every particle designator the shapes admit is in _PARTICLES (and in the Particle enumeration) *)
Theorem C12_tables_particles :
  missing_str (core_classifier_particles ++ core_special_particles ++ core_dist_options) Gen.Tables.particles = []
  /\ missing_str (core_classifier_particles ++ core_special_particles) Gen.Tables.particle_enum = [].
Proof. split; vm_compute; reflexivity. Qed.
Print Assumptions C12_tables_particles.
(* ... and the word-class function of the lexers (keyword first, then particle / surface type) gives them the
   class [gen] claims: KEYWORD for the keys, PARTICLE for the letters, SURFACE_TYPE for the mnemonics *)
Theorem C12_word_classes :
  filter (fun w => negb (String.eqb (word_class w) "KEYWORD"))
         (core_cell_keys ++ core_mat_keys ++ core_sdef_keys ++ ["no"]) = []
  /\ filter (fun w => negb (String.eqb (word_class w) "PARTICLE")) (core_letter_particles ++ core_dist_options) = []
  /\ filter (fun w => negb (String.eqb (surface_word_class w) "SURFACE_TYPE")) core_mnemonics = [].
Proof. repeat split; vm_compute; reflexivity. Qed.
Print Assumptions C12_word_classes.
(* the cell parameters MontePy says it allows are exactly G_core's *)
Theorem C12_tables_cell_allowed :
  missing_str (map upcase core_cell_keys) Gen.Tables.cell_allowed_keywords = []
  /\ missing_str Gen.Tables.cell_allowed_keywords (map upcase core_cell_keys) = [].
Proof. split; vm_compute; reflexivity. Qed.
Print Assumptions C12_tables_cell_allowed.

(* ------------------------------------------------------------------ 3. dispatch of cell parameters to modifier
   classes (Cell._parse_keyword_modifiers).  The prefixes are those of Cell._INPUTS_TO_PROPERTY in the generated
   table; [Gen.Tables.cell_dispatch_by_substring] records how the source compares a prefix with a parameter key. *)
Definition modifier_prefixes : list string :=
  map (fun e => snd (fst (fst e))) Gen.Tables.inputs_to_property.
(* no two modifier classes share a prefix *)
Theorem C12_dispatch_prefixes_distinct : NoDup modifier_prefixes.
Proof. vm_compute. repeat constructor; simpl; intuition discriminate. Qed.
Print Assumptions C12_dispatch_prefixes_distinct.
(* comparing by equality, every G_core cell parameter goes to its own class or to none *)
Theorem C12_dispatch_by_equality : forall key, In key core_cell_keys ->
  dispatch false modifier_prefixes key = expected_dispatch modifier_prefixes key
  /\ List.length (dispatch false modifier_prefixes key) <= 1.
Proof.
  assert (H : forallb (fun key =>
              list_str_eqb (dispatch false modifier_prefixes key) (expected_dispatch modifier_prefixes key)
              && Nat.leb (List.length (dispatch false modifier_prefixes key)) 1) core_cell_keys = true)
    by (vm_compute; reflexivity).
  intros key Hin. rewrite forallb_forall in H. specialize (H key Hin).
  apply andb_true_iff in H. destruct H as [H1 H2]. split; [apply list_str_eqb_eq; exact H1|apply Nat.leb_le; exact H2].
Qed.
Print Assumptions C12_dispatch_by_equality.
(* comparing by substring (what the current source does: `prefix in key.lower()`), the parameters NONU and UNC are
   claimed by the universe class ("u"), which then raises MalformedInputError: wrong prefix *)
Definition misrouted_by_substring : list string :=
  filter (fun key => negb (list_str_eqb (dispatch true modifier_prefixes key)
                                        (expected_dispatch modifier_prefixes key))) core_cell_keys.
Theorem C12_dispatch_by_substring_refuted : misrouted_by_substring = ["nonu"; "unc"].
Proof. vm_compute. reflexivity. Qed.
Print Assumptions C12_dispatch_by_substring_refuted.
Theorem C12_dispatch_partial : forall key, In key core_cell_keys -> key <> "nonu" -> key <> "unc" ->
  dispatch Gen.Tables.cell_dispatch_by_substring modifier_prefixes key = expected_dispatch modifier_prefixes key.
Proof.
  assert (H : forallb (fun key => String.eqb key "nonu" || String.eqb key "unc" ||
              list_str_eqb (dispatch Gen.Tables.cell_dispatch_by_substring modifier_prefixes key)
                           (expected_dispatch modifier_prefixes key)) core_cell_keys = true)
    by (vm_compute; reflexivity).
  intros key Hin H1 H2. rewrite forallb_forall in H. specialize (H key Hin).
  apply orb_true_iff in H. destruct H as [H|H]; [|apply list_str_eqb_eq; exact H].
  apply orb_true_iff in H. destruct H as [H|H]; apply String.eqb_eq in H; congruence.
Qed.
Print Assumptions C12_dispatch_partial.
(* ------------------------------------------------------------------ 4. derivability, by induction on the shape *)
Lemma Hcell : incl required_cell Gen.Grammar.cell_productions.
Proof. apply missing_nil_incl. exact C12_required_cell. Qed.
Lemma Hsurface : incl required_surface Gen.Grammar.surface_productions.
Proof. apply missing_nil_incl. exact C12_required_surface. Qed.
Lemma Hdata : incl required_data Gen.Grammar.data_productions.
Proof. apply missing_nil_incl. exact C12_required_data. Qed.
Lemma Hclassifier : incl required_classifier Gen.Grammar.classifier_productions.
Proof. apply missing_nil_incl. exact C12_required_classifier. Qed.
Lemma Hparam_only : incl required_param_only Gen.Grammar.param_only_productions.
Proof. apply missing_nil_incl. exact C12_required_param_only. Qed.
Lemma Hmaterial : incl required_material Gen.Grammar.material_productions.
Proof. apply missing_nil_incl. exact C12_required_material. Qed.
Lemma Hthermal : incl required_thermal Gen.Grammar.thermal_productions.
Proof. apply missing_nil_incl. exact C12_required_thermal. Qed.
Lemma Htally : incl required_tally Gen.Grammar.tally_productions.
Proof. apply missing_nil_incl. exact C12_required_tally. Qed.
Lemma Htally_seg : incl required_tally_seg Gen.Grammar.tally_seg_productions.
Proof. apply missing_nil_incl. exact C12_required_tally_seg. Qed.

(* cells: number, material/density or void, any CSG expression (union, intersection by blank or by parenthesis,
   complement of a cell or of an expression, nested parentheses), any list of the 18 keyword parameters with
   numeric lists, FILL n (tr) / FILL i:j i:j i:j n.. / TRCL (..) / *FILL / *TRCL values, in any layout *)
Theorem C12_cell_derivable_partial : forall c, cell_shape c ->
  Derives Gen.Grammar.cell_productions "cell" (classes (cell_toks c)).
Proof. exact (cell_derivable _ Hcell). Qed.
Print Assumptions C12_cell_derivable_partial.
(* surfaces: modifier, number, transform / periodic pointer, every mnemonic, numbers with shortcuts *)
Theorem C12_surface_derivable_partial : forall s, surf_shape s ->
  Derives Gen.Grammar.surface_productions "surface" (classes (surf_toks s)).
Proof. exact (surface_derivable _ Hsurface). Qed.
Print Assumptions C12_surface_derivable_partial.
(* generic data cards: classifier, optional keyword, numbers / particles / option letter + numbers, key=numbers *)
Theorem C12_data_derivable_partial : forall d, data_shape d ->
  Derives Gen.Grammar.data_productions "data_input" (classes (data_toks d)).
Proof. exact (data_derivable _ Hdata). Qed.
Print Assumptions C12_data_derivable_partial.
Theorem C12_text_card_derivable_partial : forall x,
  Derives Gen.Grammar.data_productions "data_input" (classes (text_toks x)).
Proof. exact (text_derivable _ Hdata). Qed.
Print Assumptions C12_text_card_derivable_partial.
Theorem C12_material_derivable_partial : forall m, matcard_shape m ->
  Derives Gen.Grammar.material_productions "material" (classes (mat_card_toks m)).
Proof. exact (material_derivable _ Hmaterial). Qed.
Print Assumptions C12_material_derivable_partial.
Theorem C12_thermal_derivable_partial : forall m, mtcard_shape m ->
  Derives Gen.Grammar.thermal_productions "thermal_mat" (classes (mt_card_toks m)).
Proof. exact (thermal_derivable _ Hthermal). Qed.
Print Assumptions C12_thermal_derivable_partial.
Theorem C12_tally_derivable_partial : forall t, tally_shape t ->
  Derives Gen.Grammar.tally_productions "tally" (classes (tally_toks t)).
Proof. exact (tally_derivable _ Htally). Qed.
Print Assumptions C12_tally_derivable_partial.
Theorem C12_tally_segment_derivable_partial : forall t, tallyseg_shape t ->
  Derives Gen.Grammar.tally_seg_productions "tally" (classes (tally_toks t)).
Proof. exact (tallyseg_derivable _ Htally_seg). Qed.
Print Assumptions C12_tally_segment_derivable_partial.
Theorem C12_sdef_derivable_partial : forall s, sdef_shape s ->
  Derives Gen.Grammar.param_only_productions "param_data_input" (classes (sdef_toks s)).
Proof. exact (sdef_derivable _ Hparam_only). Qed.
Print Assumptions C12_sdef_derivable_partial.
Theorem C12_sdef_bare_derivable_partial : forall s,
  Derives Gen.Grammar.param_only_productions "param_data_input" (classes (sdef0_toks s)).
Proof. exact (sdef0_derivable _ Hparam_only). Qed.
Print Assumptions C12_sdef_bare_derivable_partial.
(* the classifier of every data shape is a sentence of ClassifierParser (what parse_data parses first) *)
Theorem C12_classifier_derivable_partial : forall sh, classifier_toks sh <> [] ->
  Derives Gen.Grammar.classifier_productions "data_classifier" (classes (classifier_toks sh)).
Proof. exact (classifier_derivable _ Hclassifier). Qed.
Print Assumptions C12_classifier_derivable_partial.
(* all of the above at once, in either case per token, with the generated start symbols *)
Theorem C12_shape_derivable_partial : forall mask sh, shape_ok_b sh = true ->
  Derives (productions_of (parser_of sh)) (start_of (parser_of sh)) (classes (gen_case mask sh)).
Proof.
  exact (shape_derivable Hcell Hsurface Hdata Hmaterial Hthermal Htally Htally_seg Hparam_only C12_start_symbols).
Qed.
Print Assumptions C12_shape_derivable_partial.

(* ------------------------------------------------------------------ 5. the automaton model: whatever the LR driver
   accepts on the generated action/goto tables is derivable in the generated production table *)
Theorem C12_lr_sound : forall T ts, lr_run T ts = LRAccept -> Derives (lr_prods T) (lr_start T) ts.
Proof. exact lr_sound. Qed.
Print Assumptions C12_lr_sound.

(* ------------------------------------------------------------------ 6. non-vacuity: concrete shapes that satisfy
   the premises, what they render to, and the verdict of the generated automaton on them (computed) *)
Definition ri (d : list nat) : real := mkReal SNone d None None.
Definition b1 : pad := PBlank 0.
Definition ex_cell : cell :=
  mkCell None (ri [1;2]) b1 (MMat (ri [3]) b1 (mkReal SMinus [2] (Some [5]) None) b1)
    (EOne (TAnd (TAnd (TOne (FPar None (EOr (EOne (TOne (FLeaf (ri [1]))) None) None
                                             (TOne (FLeaf (mkReal SMinus [2] None None))) None)))
                      (Some b1) (FComplCell (ri [7])))
                (Some (PDollar 0 " shell" 0)) (FLeaf (mkReal SPlus [4] None None)))
          (Some b1))
    [mkCParam false "imp" None ["n"; "p"] (SepEq None None) (CVList (NLOne (NNum (ri [1])) (Some b1)));
     mkCParam true "fill" None [] (SepEq None None)
       (CVGroup (CVList (NLOne (NNum (ri [5])) (Some b1))) None
          (NLSnoc (NLSnoc (NLOne (NNum (ri [1])) (Some b1)) (NRepeat None) (Some b1))
                  (NNum (mkReal SNone [6] (Some [0;2]) (Some (EFortran, SPlus, [2;3])))) None) (Some b1));
     mkCParam false "nonu" None [] (SepPad b1) (CVList (NLOne (NNum (ri [1])) None))].
Example C12_cell_example :
  cell_shape ex_cell
  /\ render (cell_toks ex_cell)
     = "12 3 -2.5 (1:-2) #7 $ shell" ++ nl ++ "     +4 imp:n,p=1 *fill=5 (1 r 6.02+23) nonu 1"
  /\ lr_run lr_cell (classes (cell_toks ex_cell)) = LRAccept.
Proof. repeat split; vm_compute; reflexivity. Qed.

Definition ex_surf : surf :=
  mkSurf None SMStar (ri [5]) b1 (Some (mkReal SMinus [9] None None, b1)) "gq" (PBreak 0 0)
    (NLSnoc (NLSnoc (NLSnoc (NLSnoc (NLOne (NNum (ri [1])) (Some b1)) (NRepeat (Some 2)) (Some b1))
       (NInterp (Some 2) b1 (ri [4])) (Some b1)) (NJump (Some 2)) (Some b1))
       (NNum (mkReal SMinus [] (Some [5]) (Some (EUp, SMinus, [3])))) None).
Example C12_surface_example :
  surf_shape ex_surf
  /\ render (surf_toks ex_surf) = "*5 -9 gq" ++ nl ++ "     1 2r 2i 4 2j -.5E-3"
  /\ lr_run lr_surface (classes (surf_toks ex_surf)) = LRAccept.
Proof. repeat split; vm_compute; reflexivity. Qed.

Definition ex_tally : tallycard :=
  mkTally None (mkDcls (Some "*") "f" (Some 14%Z) [(false, "n"); (false, "p")]) (Some b1)
    (TIGroup None (NLSnoc (NLOne (NNum (ri [1])) (Some b1)) (NNum (ri [2])) None) (Some b1))
    [TINums (NLOne (NNum (ri [3])) (Some b1))] (Some ("t", None)).
Example C12_tally_example :
  tally_shape ex_tally
  /\ render (tally_toks ex_tally) = "*f14:n,p (1 2) 3 t"
  /\ lr_run lr_tally (classes (tally_toks ex_tally)) = LRAccept
  /\ lr_run lr_classifier (classes (classifier_toks (ShTally ex_tally))) = LRAccept.
Proof. repeat split; vm_compute; reflexivity. Qed.

Definition ex_mat : matcard :=
  mkMat None 2%Z (Some b1)
    (mkZ false "1001" (Some b1) (ri [2]) (Some b1))
    [mkZ true "8016.80c" (Some b1) (ri [1]) (Some b1)]
    [MPLib "nlib" (SepEq None None) "80c" (Some b1); MPNum "gas" (SepEq None None) (NLOne (NNum (ri [1])) None)].
Example C12_material_example :
  matcard_shape ex_mat
  /\ render (mat_card_toks ex_mat) = "m2 1001 2 8016.80c 1 nlib=80c gas=1"
  /\ lr_run lr_material (classes (mat_card_toks ex_mat)) = LRAccept.
Proof. repeat split; vm_compute; reflexivity. Qed.

Definition ex_sdef : sdefcard :=
  mkSdef None (mkDcls None "sdef" None []) b1
    (mkSParam "pos" (SepEq None None)
       (SVNums (NLSnoc (NLOne (NNum (ri [0])) (Some b1)) (NRepeat (Some 2)) (Some b1))))
    [mkSParam "erg" (SepEq None None) (SVDist (ri [1]) (Some b1));
     mkSParam "par" (SepEq None None) (SVPart (false, "n", None))].
Example C12_sdef_example :
  sdef_shape ex_sdef
  /\ render (sdef_toks ex_sdef) = "sdef pos=0 2r erg=d1 par=n"
  /\ lr_run lr_param_only (classes (sdef_toks ex_sdef)) = LRAccept.
Proof. repeat split; vm_compute; reflexivity. Qed.

(* ------------------------------------------------------------------ 6b. from the text to the verdict, inside the model:
   the generated regular expressions of the lexer ([tokenize]) give the example shapes exactly the tokens [gen] claims,
   and the generated automaton accepts them.  (For every *generated* sentence the harness makes the same two
   comparisons with the extracted model and with the real lexer and parser.) *)
Example C12_lexer_gives_the_claimed_tokens :
  tokenize LCell (render (cell_toks ex_cell)) = LexOk (cell_toks ex_cell)
  /\ tokenize LSurface (render (surf_toks ex_surf)) = LexOk (surf_toks ex_surf)
  /\ tokenize LData (render (tally_toks ex_tally)) = LexOk (tally_toks ex_tally)
  /\ tokenize LData (render (mat_card_toks ex_mat)) = LexOk (mat_card_toks ex_mat)
  /\ tokenize LData (render (sdef_toks ex_sdef)) = LexOk (sdef_toks ex_sdef).
Proof. repeat split; vm_compute; reflexivity. Qed.
Example C12_text_to_verdict :
  verdict_of_text LCell lr_cell ("12 3 -2.5 (1:-2) #7 $ shell" ++ nl ++ "     +4 IMP:n,p=1 *fill=5 (1 R 6.02+23) nonu 1") = VAccept
  /\ verdict_of_text LSurface lr_surface "*5 -9 GQ 1 2r 2i 4 2j -.5E-3" = VAccept
  /\ verdict_of_text LData lr_tally "+f6:n (1 2) 3 T" = VAccept
  /\ verdict_of_text LData lr_material "m1 1001.80c 1 8016 1 elib=03e" = VAccept
  /\ verdict_of_text LData lr_param_only "sdef" = VAccept
  /\ verdict_of_text LCell lr_cell "1 0 (1:2)#3 fill=1 ( 1 2 3) imp:u,c=1" = VAccept
  /\ verdict_of_text LSurface lr_surface "1 so 1234.56e1 5.+3" = VAccept.
Proof. repeat split; vm_compute; reflexivity. Qed.
(* and texts of G_core that are not accepted (open findings) *)
Theorem C12_text_rejected_refuted :
  verdict_of_text LData lr_data "mode n u" <> VAccept
  /\ verdict_of_text LData lr_data "mode n /" <> VAccept
  /\ verdict_of_text LData lr_data "mode n c" <> VAccept
  /\ verdict_of_text LData lr_data "e4 1 2.5m" <> VAccept
  /\ verdict_of_text LData lr_data "e4 1 2m r" <> VAccept
  /\ verdict_of_text LCell lr_cell "1 0 -1 imp:|=1" <> VAccept.
Proof. repeat split; vm_compute; discriminate. Qed.
Print Assumptions C12_text_rejected_refuted.

(* ------------------------------------------------------------------ 7. G_core sentences the generated automaton
   rejects.  The class lists are the classes the *real* lexer gives these texts (the harness replays each text
   through the real lexer and the real parser on every run and compares). *)
(* "mode n u": in a list of particles u is a keyword before it is a particle (after the ":" of a classifier the
   lexers read it as a particle since the repair of IMP:u) *)
Theorem C12_particle_keyword_refuted :
  lr_run lr_data ["TEXT"; "SPACE"; "PARTICLE"; "SPACE"; "KEYWORD"] <> LRAccept.
Proof. vm_compute. discriminate. Qed.
Print Assumptions C12_particle_keyword_refuted.
(* the honest limit made concrete: "e4 1 2m r" (a repeat right after a multiply) satisfies the shape predicate, so
   it is derivable in the generated grammar — and the LALR(1) automaton SLY built from that grammar rejects it *)
Definition ex_gap : datacard :=
  mkData None (mkDcls None "e" (Some 4%Z) []) (Some b1) None
    (DNums (NLSnoc (NLSnoc (NLOne (NNum (ri [1])) (Some b1)) (NMul (ri [2])) (Some b1)) (NRepeat None) None)) [].
Theorem C12_derivable_not_accepted_refuted :
  data_shape ex_gap
  /\ render (data_toks ex_gap) = "e4 1 2m r"
  /\ Derives Gen.Grammar.data_productions "data_input" (classes (data_toks ex_gap))
  /\ lr_run lr_data (classes (data_toks ex_gap)) <> LRAccept.
Proof.
  assert (H : data_shape ex_gap) by (vm_compute; reflexivity).
  split; [exact H|]. split; [vm_compute; reflexivity|]. split; [exact (C12_data_derivable_partial ex_gap H)|].
  vm_compute. discriminate.
Qed.
Print Assumptions C12_derivable_not_accepted_refuted.
(* ------------------------------------------------------------------ 8. sentences that were rejected before the
   repairs C12-5 .. C12-11 and are sentences of the shape predicate now: accepted by the generated automaton *)
Definition ex_plus_tally : tallycard :=
  mkTally None (mkDcls (Some "+") "f" (Some 6%Z) [(false, "n")]) (Some b1)
    (TINums (NLOne (NNum (ri [1])) None)) [] None.
Example C12_plus_tally_example :
  tally_shape ex_plus_tally /\ render (tally_toks ex_plus_tally) = "+f6:n 1"
  /\ lr_run lr_tally (classes (tally_toks ex_plus_tally)) = LRAccept
  /\ lr_run lr_classifier (classes (classifier_toks (ShTally ex_plus_tally))) = LRAccept.
Proof. repeat split; vm_compute; reflexivity. Qed.
Definition ex_imp_u : cell :=
  mkCell None (ri [1]) b1 (MVoid (ri [0]) b1) (EOne (TOne (FLeaf (mkReal SMinus [1] None None))) (Some b1))
    [mkCParam false "imp" None ["u"; "c"] (SepEq None None) (CVList (NLOne (NNum (ri [1])) None))].
Example C12_classifier_particle_example :
  cell_shape ex_imp_u /\ render (cell_toks ex_imp_u) = "1 0 -1 imp:u,c=1"
  /\ lr_run lr_cell (classes (cell_toks ex_imp_u)) = LRAccept.
Proof. repeat split; vm_compute; reflexivity. Qed.
Definition ex_fill_pad : cell :=
  mkCell None (ri [1]) b1 (MVoid (ri [0]) b1)
    (EOne (TAnd (TOne (FPar None (EOr (EOne (TOne (FLeaf (ri [1]))) None) None (TOne (FLeaf (ri [2]))) None)))
                None (FComplCell (ri [3]))) (Some b1))
    [mkCParam false "fill" None [] (SepEq None None)
       (CVGroup (CVList (NLOne (NNum (ri [1])) (Some b1))) (Some b1)
          (NLSnoc (NLSnoc (NLOne (NNum (ri [1])) (Some b1)) (NNum (ri [2])) (Some b1)) (NNum (ri [3])) None) None)].
Example C12_paren_example :
  cell_shape ex_fill_pad /\ render (cell_toks ex_fill_pad) = "1 0 (1:2)#3 fill=1 ( 1 2 3)"
  /\ lr_run lr_cell (classes (cell_toks ex_fill_pad)) = LRAccept.
Proof. repeat split; vm_compute; reflexivity. Qed.
Definition ex_sdef0 : sdef0card := mkSdef0 None (mkDcls None "sdef" None []) None.
Example C12_sdef_bare_example :
  render (sdef0_toks ex_sdef0) = "sdef" /\ lr_run lr_param_only (classes (sdef0_toks ex_sdef0)) = LRAccept.
Proof. split; vm_compute; reflexivity. Qed.
Definition ex_mat_mixed : matcard :=
  mkMat None 1%Z (Some b1) (mkZ true "1001.80c" (Some b1) (ri [1]) (Some b1))
    [mkZ false "8016" (Some b1) (ri [1]) (Some b1)] [MPLib "elib" (SepEq None None) "03e" None].
Example C12_material_mixed_example :
  matcard_shape ex_mat_mixed /\ render (mat_card_toks ex_mat_mixed) = "m1 1001.80c 1 8016 1 elib=03e"
  /\ lr_run lr_material (classes (mat_card_toks ex_mat_mixed)) = LRAccept.
Proof. repeat split; vm_compute; reflexivity. Qed.
