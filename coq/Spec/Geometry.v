(* Geometry.v — what the geometry of an MCNP cell card means (rule S11 of DESIGN.md 3.1), as an executable
   specification.  Source: MCNP 6.2 manual ch. 3.2 (cell cards): a geometry is a Boolean expression over signed
   surface numbers; "blank" (juxtaposition) is intersection, ":" is union, "#" is complement; the complement binds
   tighter than the intersection, which binds tighter than the union; parentheses override; "#n" (an unsigned
   number directly after the "#") is the complement of cell n, "#( ... )" the complement of the region in parentheses.

   Nothing here refers to MontePy.  Input: the tokens of rule S8 with ( ) : # self-delimiting
   (Spec/Cards.v: geometry_tokens).  Total functions, Coq standard library only, no proofs. *)
From Coq Require Import List String Ascii ZArith Bool.
Import ListNotations.
Open Scope string_scope.

(* ------------------------------------------------------------------ regions and their meaning *)
Inductive atom :=
| Surface (n : Z)            (* "the point has positive sense with respect to surface n" *)
| InCell (n : Z).            (* "the point is in cell n" *)

Inductive region :=
| Side (positive : bool) (n : Z)      (* n, +n : positive side of surface n;  -n : negative side *)
| NotCell (n : Z)                     (* #n : everything that is not in cell n *)
| Not (e : region)                    (* #( e ) *)
| And (a b : region)                  (* a b *)
| Or (a b : region).                  (* a : b *)

Fixpoint inside (env : atom -> bool) (e : region) : bool :=
  match e with
  | Side positive n => if positive then env (Surface n) else negb (env (Surface n))
  | NotCell n => negb (env (InCell n))
  | Not a => negb (inside env a)
  | And a b => andb (inside env a) (inside env b)
  | Or a b => orb (inside env a) (inside env b)
  end.

(* two geometries are the same region when they agree for every point, i.e. for every assignment of the atoms *)
Definition same_region (a b : region) : Prop := forall env, inside env a = inside env b.

(* ------------------------------------------------------------------ tokens *)
Inductive sign := NoSign | Plus | Minus.

Inductive token :=
| TNumber (s : sign) (n : Z)          (* 5, +5, -5 *)
| THash | TOpen | TClose | TColon.

Definition digit_value (a : ascii) : option Z :=
  let n := nat_of_ascii a in
  if andb (Nat.leb 48 n) (Nat.leb n 57) then Some (Z.of_nat (n - 48)) else None.

Fixpoint digits (s : string) (acc : Z) : option Z :=
  match s with
  | EmptyString => Some acc
  | String a r => match digit_value a with
                  | Some d => digits r (acc * 10 + d)%Z
                  | None => None
                  end
  end.

Definition unsigned_number (s : string) : option Z :=
  match s with EmptyString => None | _ => digits s 0%Z end.

(* one token of rule S8 (upper case, ( ) : # already isolated) as a geometry token *)
Definition read_token (t : string) : option token :=
  if String.eqb t "(" then Some TOpen
  else if String.eqb t ")" then Some TClose
  else if String.eqb t ":" then Some TColon
  else if String.eqb t "#" then Some THash
  else match t with
       | String a r =>
           if Ascii.eqb a "+"%char then option_map (TNumber Plus) (unsigned_number r)
           else if Ascii.eqb a "-"%char then option_map (TNumber Minus) (unsigned_number r)
           else option_map (TNumber NoSign) (unsigned_number t)
       | EmptyString => None
       end.

Fixpoint read_tokens (ts : list string) : option (list token) :=
  match ts with
  | [] => Some []
  | t :: r => match read_token t, read_tokens r with
              | Some x, Some xs => Some (x :: xs)
              | _, _ => None
              end
  end.

(* ------------------------------------------------------------------ the grammar, as a relation *)
Inductive level := Expression | Term | Factor.      (* unions; intersections; a number, a complement, parentheses *)

Definition positive_sign (s : sign) : bool := match s with Minus => false | _ => true end.

Inductive Denotes : level -> list token -> region -> Prop :=
| D_side : forall s n, Denotes Factor [TNumber s n] (Side (positive_sign s) n)
| D_not_cell : forall n, Denotes Factor [THash; TNumber NoSign n] (NotCell n)
| D_not : forall ts e, Denotes Expression ts e -> Denotes Factor (THash :: TOpen :: ts ++ [TClose]) (Not e)
| D_parentheses : forall ts e, Denotes Expression ts e -> Denotes Factor (TOpen :: ts ++ [TClose]) e
| D_factor : forall ts e, Denotes Factor ts e -> Denotes Term ts e
| D_and : forall ts1 ts2 a b, Denotes Term ts1 a -> Denotes Factor ts2 b -> Denotes Term (ts1 ++ ts2) (And a b)
| D_term : forall ts e, Denotes Term ts e -> Denotes Expression ts e
| D_or : forall ts1 ts2 a b, Denotes Expression ts1 a -> Denotes Term ts2 b ->
    Denotes Expression (ts1 ++ TColon :: ts2) (Or a b).

(* ------------------------------------------------------------------ the grammar, as a parser
   recursive descent, left associative; [fuel] bounds the number of calls (4 per token is enough) *)
Inductive mode := MExpression | MExpressionMore (a : region) | MTerm | MTermMore (a : region) | MFactor.

Fixpoint parse_with (fuel : nat) (m : mode) (ts : list token) : option (region * list token) :=
  match fuel with
  | O => None
  | S f =>
      match m with
      | MFactor =>
          match ts with
          | TNumber s n :: r => Some (Side (positive_sign s) n, r)
          | THash :: TNumber NoSign n :: r => Some (NotCell n, r)
          | THash :: TOpen :: r =>
              match parse_with f MExpression r with
              | Some (e, TClose :: r') => Some (Not e, r')
              | _ => None
              end
          | TOpen :: r =>
              match parse_with f MExpression r with
              | Some (e, TClose :: r') => Some (e, r')
              | _ => None
              end
          | _ => None
          end
      | MTerm =>
          match parse_with f MFactor ts with
          | Some (a, r) => parse_with f (MTermMore a) r
          | None => None
          end
      | MTermMore a =>
          match ts with
          | [] => Some (a, ts)
          | TColon :: _ => Some (a, ts)
          | TClose :: _ => Some (a, ts)
          | _ => match parse_with f MFactor ts with
                 | Some (b, r) => parse_with f (MTermMore (And a b)) r
                 | None => None
                 end
          end
      | MExpression =>
          match parse_with f MTerm ts with
          | Some (a, r) => parse_with f (MExpressionMore a) r
          | None => None
          end
      | MExpressionMore a =>
          match ts with
          | TColon :: r =>
              match parse_with f MTerm r with
              | Some (b, r') => parse_with f (MExpressionMore (Or a b)) r'
              | None => None
              end
          | _ => Some (a, ts)
          end
      end
  end.

Definition parse (ts : list token) : option region :=
  match parse_with (4 * List.length ts + 8) MExpression ts with
  | Some (e, []) => Some e
  | _ => None
  end.

(* from the tokens of the geometry part of a cell card *)
Definition read_geometry (ts : list string) : option region :=
  match read_tokens ts with
  | Some toks => parse toks
  | None => None
  end.

(* ------------------------------------------------------------------ deciding "same region": truth table over
   the atoms of the two expressions *)
Definition atom_eqb (x y : atom) : bool :=
  match x, y with
  | Surface a, Surface b => Z.eqb a b
  | InCell a, InCell b => Z.eqb a b
  | _, _ => false
  end.

Fixpoint atoms (e : region) : list atom :=
  match e with
  | Side _ n => [Surface n]
  | NotCell n => [InCell n]
  | Not a => atoms a
  | And a b => atoms a ++ atoms b
  | Or a b => atoms a ++ atoms b
  end.

(* an assignment given as a list of (atom, value); atoms not listed are false *)
Fixpoint lookup (al : list (atom * bool)) (x : atom) : bool :=
  match al with
  | [] => false
  | (y, v) :: r => if atom_eqb y x then v else lookup r x
  end.

Fixpoint assignments (l : list atom) : list (list (atom * bool)) :=
  match l with
  | [] => [[]]
  | x :: r => let rest := assignments r in
              map (cons (x, false)) rest ++ map (cons (x, true)) rest
  end.

Fixpoint mentions (l : list atom) (x : atom) : bool :=
  match l with [] => false | y :: r => orb (atom_eqb y x) (mentions r x) end.

(* every atom once *)
Fixpoint distinct (l : list atom) : list atom :=
  match l with
  | [] => []
  | x :: r => let d := distinct r in if mentions d x then d else x :: d
  end.

Definition same_regionb (a b : region) : bool :=
  forallb (fun al => Bool.eqb (inside (lookup al) a) (inside (lookup al) b))
          (assignments (distinct (atoms a ++ atoms b))).
