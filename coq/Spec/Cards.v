(* Cards.v — MCNP's own rules for cutting an input file into cards, as an executable specification.

   Source of the rules: MCNP 6.2 manual (LA-UR-17-29981) ch. 2.6 / 3, as summarised in DESIGN.md 3.1, S1-S9.
   Nothing in this file refers to MontePy or to how any program reads the file: it only says what the bytes of
   an MCNP input file denote at the level of lines and cards.

     S1  physical lines   the file is cut at LF; CR is dropped; a byte >= 127 counts as a blank; a tab stands for the
                          blanks up to the next multiple of 8 columns; columns beyond the limit w (80 or 128) are ignored
     S2  message block    the first line starts with MESSAGE: (any case): the lines up to the first blank line
     S3  title            the next line
     S4  blocks           up to three blocks (cells, surfaces, data), each ended by a blank line; whatever follows the
                          blank line that ends the third block is not part of the problem
     S5  comment line     a C or c within columns 1-5, preceded only by blanks, followed by a blank or the end of line
     S6  $ comment        a '$' ends the data of a line; the rest of the line is a comment
     S7  cards            a line that is not a comment line and has a non-blank in columns 1-5 starts a card, unless the
                          data of the line before it (comment lines skipped) ends in " &"; every other data line continues
                          the card; the first data line of a block has no card to continue, so it starts one
     S8  tokens           maximal runs of non-blank characters; '=' counts as a blank; letter case is irrelevant; in a
                          cell's geometry ( ) : # stand for themselves
     S9  numbers          Fortran reals, including the form 1.5+3, read exactly into Q

   Result of [read w bytes]: the message lines, the title, and for each block the ordered list of its cards; a card is
   the list of its data words (comments and the continuation mark '&' removed) and the list of its comment texts.
   Which card a comment line standing between two cards is listed with is a convention of this file, not of MCNP:
   it is listed with the card that follows it, and with the last card of the block when none follows.

   Not specified here: vertical input format ('#' in columns 1-5), READ cards, what the words of a card mean.
   Total functions, Coq standard library only, no proofs (those are in Proofs/SpecProofs.v). *)
From Coq Require Import List String Ascii Arith Bool ZArith QArith.
Import ListNotations.
Close Scope Q_scope.
Open Scope string_scope.

(* ------------------------------------------------------------------ characters and small string functions *)
Definition LF : ascii := "010"%char.
Definition CR : ascii := "013"%char.
Definition TAB : ascii := "009"%char.
Definition blank : ascii := " "%char.

Definition is_blank (a : ascii) : bool := Ascii.eqb a blank.

Fixpoint string_map (f : ascii -> ascii) (s : string) : string :=
  match s with
  | EmptyString => EmptyString
  | String a r => String (f a) (string_map f r)
  end.

Fixpoint string_filter (p : ascii -> bool) (s : string) : string :=
  match s with
  | EmptyString => EmptyString
  | String a r => if p a then String a (string_filter p r) else string_filter p r
  end.

Fixpoint all_blank (s : string) : bool :=
  match s with
  | EmptyString => true
  | String a r => andb (is_blank a) (all_blank r)
  end.

Fixpoint spaces (n : nat) : string :=
  match n with O => EmptyString | S k => String blank (spaces k) end.

(* the first n columns of a line *)
Fixpoint first_columns (n : nat) (s : string) : string :=
  match n, s with
  | S k, String a r => String a (first_columns k r)
  | _, _ => EmptyString
  end.

Fixpoint strip_left (s : string) : string :=
  match s with
  | EmptyString => EmptyString
  | String a r => if is_blank a then strip_left r else s
  end.

Fixpoint strip_right (s : string) : string :=
  match s with
  | EmptyString => EmptyString
  | String a r => if all_blank s then EmptyString else String a (strip_right r)
  end.

Definition strip (s : string) : string := strip_left (strip_right s).

Definition upcase (a : ascii) : ascii :=
  let n := nat_of_ascii a in
  if andb (Nat.leb 97 n) (Nat.leb n 122) then ascii_of_nat (n - 32) else a.

(* the maximal runs of non-blank characters; [cur] is the run being read *)
Definition emit (cur : string) : list string :=
  match cur with EmptyString => [] | _ => [cur] end.

Fixpoint words_from (cur : string) (s : string) : list string :=
  match s with
  | EmptyString => emit cur
  | String a r => if is_blank a then emit cur ++ words_from EmptyString r
                  else words_from (cur ++ String a EmptyString) r
  end.

Definition words (s : string) : list string := words_from EmptyString s.

(* ------------------------------------------------------------------ S1  physical lines *)
(* the pieces between the LFs; a file that ends in LF has no further (empty) line after it *)
Fixpoint lines_of (bytes : string) : list string :=
  match bytes with
  | EmptyString => []
  | String a r =>
      if Ascii.eqb a LF then EmptyString :: lines_of r
      else match lines_of r with
           | [] => [String a EmptyString]
           | l :: ls => String a l :: ls
           end
  end.

Definition drop_cr (s : string) : string := string_filter (fun a => negb (Ascii.eqb a CR)) s.

Definition high_to_blank (a : ascii) : ascii :=
  if Nat.leb 127 (nat_of_ascii a) then blank else a.

(* [col] = number of columns already filled (0-based column of the next character) *)
Fixpoint expand_tabs (col : nat) (s : string) : string :=
  match s with
  | EmptyString => EmptyString
  | String a r =>
      if Ascii.eqb a TAB then
        let next := 8 * (col / 8 + 1) in
        spaces (next - col) ++ expand_tabs next r
      else String a (expand_tabs (S col) r)
  end.

Definition physical_line (w : nat) (raw : string) : string :=
  first_columns w (expand_tabs 0 (string_map high_to_blank (drop_cr raw))).

Definition physical_lines (w : nat) (bytes : string) : list string :=
  map (physical_line w) (lines_of bytes).

(* ------------------------------------------------------------------ S5  comment lines *)
Definition is_c (a : ascii) : bool := orb (Ascii.eqb a "c"%char) (Ascii.eqb a "C"%char).

Definition blank_or_end (s : string) : bool :=
  match s with EmptyString => true | String b _ => is_blank b end.

(* a C within the next k columns, only blanks before it, a blank or the end of the line after it *)
Fixpoint c_within (k : nat) (s : string) : bool :=
  match k, s with
  | S k', String a r => if is_c a then blank_or_end r else andb (is_blank a) (c_within k' r)
  | _, _ => false
  end.

Definition is_comment_line (x : string) : bool := c_within 5 x.

(* what follows the first C *)
Fixpoint after_c (s : string) : string :=
  match s with
  | EmptyString => EmptyString
  | String a r => if is_c a then r else after_c r
  end.

Definition comment_text (x : string) : string := strip (after_c x).

(* ------------------------------------------------------------------ S6  $ comments *)
(* the data of the line, and the text after the first '$' if there is one *)
Fixpoint split_dollar (x : string) : string * option string :=
  match x with
  | EmptyString => (EmptyString, None)
  | String a r =>
      if Ascii.eqb a "$"%char then (EmptyString, Some r)
      else let (d, c) := split_dollar r in (String a d, c)
  end.

(* ------------------------------------------------------------------ S7  one line *)
(* d = d' ++ " &"  gives  Some d' : the data ends in the continuation mark *)
Fixpoint continuation_mark (d : string) : option string :=
  match d with
  | EmptyString => None
  | String a r =>
      if andb (is_blank a) (String.eqb r "&") then Some EmptyString
      else option_map (String a) (continuation_mark r)
  end.

Inductive line :=
| Blank
| Comment (text : string)
| Data (in_columns_1_5 : bool)        (* a non-blank character in columns 1-5 *)
       (data_words : list string)      (* the words of the data, without the continuation mark *)
       (continued : bool)              (* the data ends in " &" *)
       (dollar : option string).       (* the text of the $ comment *)

Definition classify (x : string) : line :=
  if all_blank x then Blank
  else if is_comment_line x then Comment (comment_text x)
  else
    let (d, c) := split_dollar x in
    let d := strip_right d in
    let starts := negb (all_blank (first_columns 5 x)) in
    let c := option_map strip c in
    match continuation_mark d with
    | Some d' => Data starts (words d') true c
    | None => Data starts (words d) false c
    end.

(* ------------------------------------------------------------------ S7  cards of one block *)
Record card := mkCard { card_words : list string; card_comments : list string }.

Definition opt_list {A : Type} (o : option A) : list A :=
  match o with Some x => [x] | None => [] end.

(* [cur] the card being read, [pending] the comment lines read since its last data line,
   [amp] whether that data line ended in the continuation mark *)
Fixpoint group (cur : option card) (pending : list string) (amp : bool) (ls : list line) : list card :=
  match ls with
  | [] =>
      match cur with
      | Some c => [mkCard (card_words c) (card_comments c ++ pending)]
      | None => []                                   (* comment lines of a block without cards are dropped *)
      end
  | Blank :: r => group cur pending amp r            (* does not occur inside a block *)
  | Comment t :: r => group cur (pending ++ [t]) amp r
  | Data starts ws am dc :: r =>
      let fresh := mkCard ws (pending ++ opt_list dc) in
      match cur with
      | None => group (Some fresh) [] am r
      | Some c =>
          if andb starts (negb amp) then c :: group (Some fresh) [] am r
          else group (Some (mkCard (card_words c ++ ws) (card_comments c ++ pending ++ opt_list dc))) [] am r
      end
  end.

Definition block_cards (ls : list line) : list card := group None [] false ls.

(* ------------------------------------------------------------------ S4  blocks *)
(* the lines before the first blank line, and the lines after it (None: there is no blank line) *)
Fixpoint cut_block (ls : list line) : list line * option (list line) :=
  match ls with
  | [] => ([], None)
  | Blank :: r => ([], Some r)
  | l :: r => let (b, t) := cut_block r in (l :: b, t)
  end.

(* at most n blocks; what follows the blank line ending the n-th block is ignored *)
Fixpoint blocks (n : nat) (ls : list line) : list (list card) :=
  match n with
  | O => []
  | S k =>
      let (b, t) := cut_block ls in
      block_cards b :: match t with Some r => blocks k r | None => [] end
  end.

(* ------------------------------------------------------------------ S2 S3  message block, title; the whole file *)
Definition starts_message (x : string) : bool := String.prefix "MESSAGE:" (string_map upcase x).

(* the lines before the first blank line, and the lines after it *)
Fixpoint until_blank (ls : list string) : list string * list string :=
  match ls with
  | [] => ([], [])
  | l :: r => if all_blank l then ([], r) else let (m, t) := until_blank r in (l :: m, t)
  end.

Record problem := mkProblem {
  message : option (list string);      (* the physical lines of the message block, the first one included *)
  title : option string;               (* the physical title line; None: the file ends before it *)
  cards : list (list card)             (* one list per block, 1 to 3 blocks *)
}.

Definition read_physical (ls : list string) : problem :=
  let (msg, rest) :=
    match ls with
    | l :: _ => if starts_message l then let (m, t) := until_blank ls in (Some m, t) else (None, ls)
    | [] => (None, [])
    end in
  match rest with
  | [] => mkProblem msg None [[]]
  | t :: body => mkProblem msg (Some t) (blocks 3 (map classify body))
  end.

Definition read (w : nat) (bytes : string) : problem := read_physical (physical_lines w bytes).

(* ------------------------------------------------------------------ S8  tokens *)
Definition eq_to_blank (a : ascii) : ascii := if Ascii.eqb a "="%char then blank else a.

(* the tokens of a word of a card: '=' separates, case is folded to upper case *)
Definition word_tokens (wd : string) : list string := words (string_map upcase (string_map eq_to_blank wd)).

Definition tokens (c : card) : list string := flat_map word_tokens (card_words c).

(* in a cell's geometry the characters ( ) : # are tokens of their own *)
Definition self_delimiting (a : ascii) : bool :=
  orb (orb (Ascii.eqb a "("%char) (Ascii.eqb a ")"%char)) (orb (Ascii.eqb a ":"%char) (Ascii.eqb a "#"%char)).

Fixpoint isolate (s : string) : string :=
  match s with
  | EmptyString => EmptyString
  | String a r => if self_delimiting a then String blank (String a (String blank (isolate r)))
                  else String a (isolate r)
  end.

Definition geometry_tokens (c : card) : list string :=
  flat_map (fun wd => words (isolate (string_map upcase (string_map eq_to_blank wd)))) (card_words c).

(* ------------------------------------------------------------------ S9  numbers
   [sign] digits [. [digits]] | [sign] . digits, then an optional exponent: a letter E e D d followed by an
   optionally signed integer, or (Fortran's short form) a signed integer without letter: 1.5+3 = 1.5E+3. *)
Definition digit_value (a : ascii) : option Z :=
  let n := nat_of_ascii a in
  if andb (Nat.leb 48 n) (Nat.leb n 57) then Some (Z.of_nat (n - 48)) else None.

(* the leading digits of s read onto acc: (value, number of digits, rest) *)
Fixpoint read_digits (s : string) (acc : Z) (n : nat) : Z * nat * string :=
  match s with
  | EmptyString => (acc, n, s)
  | String a r =>
      match digit_value a with
      | Some d => read_digits r (acc * 10 + d)%Z (S n)
      | None => (acc, n, s)
      end
  end.

Definition is_sign (a : ascii) : bool := orb (Ascii.eqb a "+"%char) (Ascii.eqb a "-"%char).
Definition is_exp_letter (a : ascii) : bool :=
  orb (orb (Ascii.eqb a "E"%char) (Ascii.eqb a "e"%char)) (orb (Ascii.eqb a "D"%char) (Ascii.eqb a "d"%char)).

(* an unsigned integer that fills the whole string *)
Definition all_digits (s : string) : option Z :=
  match read_digits s 0%Z 0 with
  | (v, S _, EmptyString) => Some v
  | _ => None
  end.

Definition signed_digits (s : string) : option Z :=
  match s with
  | String a r =>
      if Ascii.eqb a "-"%char then option_map Z.opp (all_digits r)
      else if Ascii.eqb a "+"%char then all_digits r
      else all_digits s
  | EmptyString => None
  end.

(* what follows the mantissa: nothing, letter + optionally signed integer, or signed integer *)
Definition read_exponent (s : string) : option Z :=
  match s with
  | EmptyString => Some 0%Z
  | String a r =>
      if is_exp_letter a then signed_digits r
      else if is_sign a then signed_digits s
      else None
  end.

(* m * 10^e / 10^f  as an exact rational *)
Definition scale (m : Z) (f : nat) (e : Z) : Q :=
  let k := (e - Z.of_nat f)%Z in
  if (0 <=? k)%Z then Qmake (m * 10 ^ k)%Z 1
  else Qmake m (Pos.pow 10 (Z.to_pos (- k))).

Definition read_number (tok : string) : option Q :=
  let (neg, s) :=
    match tok with
    | String a r => if Ascii.eqb a "-"%char then (true, r) else if Ascii.eqb a "+"%char then (false, r) else (false, tok)
    | EmptyString => (false, tok)
    end in
  let '(ip, ni, s1) := read_digits s 0%Z 0 in
  let '(m, nf, s2) :=
    match s1 with
    | String a r => if Ascii.eqb a "."%char then read_digits r ip 0 else (ip, 0, s1)
    | EmptyString => (ip, 0, s1)
    end in
  if Nat.eqb (ni + nf) 0 then None
  else match read_exponent s2 with
       | Some e => Some (scale (if neg then (- m)%Z else m) nf e)
       | None => None
       end.
