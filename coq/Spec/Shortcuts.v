(* Shortcuts.v — MCNP's list shortcuts (rule S10 of DESIGN.md 3.1) as an executable specification.
   Source: MCNP 6.2 manual ch. 2.8.1 (horizontal input format):
     nR     repeat the immediately preceding entry n times                        (R alone: once)
     nI     insert n linear interpolates between the preceding and the following entry
     nILOG  (also nLOG) insert n logarithmic interpolates between them
     xM     the entry is the preceding entry multiplied by x
     nJ     jump over n entries, which keep their default values                  (J alone: one)
   Nothing here refers to MontePy.  Input: the tokens of rule S8 (upper case); numbers are read by rule S9
   (Spec/Cards.v: read_number) into exact rationals; the interpolates of nI are exact rationals, those of nILOG are
   kept symbolically (LogStep a b n j = the j-th of n, i.e. 10^(log a + (log b - log a) j / (n + 1))).
   [expand] gives None when a shortcut is used where the manual gives it no meaning (nothing, a jump or a word before
   nR / xM / nI; no number after nI; non-positive ends of nILOG).  Total functions, no proofs. *)
From Coq Require Import List String Ascii ZArith QArith Bool.
From MPV Require Import Spec.Cards.
Import ListNotations.
Close Scope Q_scope.
Open Scope string_scope.

(* ------------------------------------------------------------------ tokens of a list *)
Inductive item :=
| INumber (q : Q)
| IRepeat (n : nat)
| IInterpolate (n : nat)
| ILogInterpolate (n : nat)
| IMultiply (x : Q)
| IJump (n : nat)
| IWord (w : string).           (* anything else (a keyword, a particle designator ...) *)

(* the digits at the front of s as a count, and what follows them; no digits: the count is 1 *)
Fixpoint leading_count (s : string) (acc : Z) (seen : bool) : Z * string :=
  match s with
  | EmptyString => (if seen then acc else 1%Z, s)
  | String a r =>
      match digit_value a with
      | Some d => leading_count r (acc * 10 + d)%Z true
      | None => (if seen then acc else 1%Z, s)
      end
  end.

(* s = t ++ "M"  gives  Some t *)
Fixpoint before_final_m (s : string) : option string :=
  match s with
  | EmptyString => None
  | String a r => if String.eqb s "M" then Some EmptyString else option_map (String a) (before_final_m r)
  end.

Definition read_item (t : string) : item :=
  match read_number t with
  | Some q => INumber q
  | None =>
      let (n, suffix) := leading_count t 0%Z false in
      if String.eqb suffix "R" then IRepeat (Z.to_nat n)
      else if String.eqb suffix "I" then IInterpolate (Z.to_nat n)
      else if orb (String.eqb suffix "ILOG") (String.eqb suffix "LOG") then ILogInterpolate (Z.to_nat n)
      else if String.eqb suffix "J" then IJump (Z.to_nat n)
      else match before_final_m t with
           | Some x => match read_number x with Some q => IMultiply q | None => IWord t end
           | None => IWord t
           end
  end.

(* ------------------------------------------------------------------ expansion *)
Inductive entry :=
| Number (q : Q)
| Jump                                   (* the entry keeps its default value *)
| LogStep (a b : Q) (n j : nat)          (* j-th of n logarithmic interpolates between a and b *)
| Word (w : string).

Definition positive (q : Q) : bool := (0 <? Qnum q)%Z.

(* a + (b - a) * j / (n + 1)  for j = j0 .. j0 + m - 1 *)
Fixpoint linear_steps (a b : Q) (n j0 m : nat) : list entry :=
  match m with
  | O => []
  | S m' => Number (a + (b - a) * inject_Z (Z.of_nat j0) / inject_Z (Z.of_nat (S n)))%Q
            :: linear_steps a b n (S j0) m'
  end.

Fixpoint log_steps (a b : Q) (n j0 m : nat) : list entry :=
  match m with
  | O => []
  | S m' => LogStep a b n j0 :: log_steps a b n (S j0) m'
  end.

(* [prev]: the preceding entry when it is a number *)
Fixpoint expand_from (prev : option Q) (ts : list item) : option (list entry) :=
  match ts with
  | [] => Some []
  | INumber q :: r => option_map (cons (Number q)) (expand_from (Some q) r)
  | IWord w :: r => option_map (cons (Word w)) (expand_from None r)
  | IJump n :: r =>
      option_map (app (repeat Jump n)) (expand_from (match n with O => prev | _ => None end) r)
  | IRepeat n :: r =>
      match prev with
      | Some q => option_map (app (repeat (Number q) n)) (expand_from prev r)
      | None => None
      end
  | IMultiply x :: r =>
      match prev with
      | Some q => option_map (cons (Number (q * x)%Q)) (expand_from (Some (q * x)%Q) r)
      | None => None
      end
  | IInterpolate n :: INumber e :: r =>
      match prev with
      | Some q => option_map (app (linear_steps q e n 1 n ++ [Number e])) (expand_from (Some e) r)
      | None => None
      end
  | ILogInterpolate n :: INumber e :: r =>
      match prev with
      | Some q =>
          if andb (positive q) (positive e)
          then option_map (app (log_steps q e n 1 n ++ [Number e])) (expand_from (Some e) r)
          else None
      | None => None
      end
  | IInterpolate _ :: _ => None
  | ILogInterpolate _ :: _ => None
  end.

Definition expand_items (ts : list item) : option (list entry) := expand_from None ts.

(* from the tokens of a card (rule S8) *)
Definition expand (ts : list string) : option (list entry) := expand_items (map read_item ts).
