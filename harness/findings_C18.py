"""findings_C18.py — trigger predicates of the open known findings of property C18.

There is none: the six findings of this property (boundary condition / periodicity ignored by
find_duplicate_surfaces, rotation ignored / IndexError in Transform.equivalent, the second run of the pointer
resolution, a second call leaving dangling leaves) were repaired by /repo commits d09ab94, f2650a0 and 983bf94
(findings/C18.fixed.json; their replays are corpus/C18/fixed-*.json and run first on every check).
Every failure of the oracle of harness/props/C18.py is therefore reported as a violation."""
