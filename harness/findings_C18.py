"""findings_C18.py — trigger predicates of the open known findings of property C18.

A failing record is {"kind": <failure class>, "case": {"text", "tol", "pre"}, ...}: one record per failure class of a
case, so that two defects met by the same input are attributed separately.  Each predicate decides from the *case*
(the surface / transform cards of the text and the earlier edits) whether the trigger of the defect is present, and
then confirms (rule iii of DESIGN.md §2.5) that the same case with the triggering feature removed no longer fails in
this class; any other way of failing in the same class stays a violation."""
import re

FAMILY = {"PX": "A", "PY": "A", "PZ": "A", "CX": "O", "CY": "O", "CZ": "O", "C/X": "P", "C/Y": "P", "C/Z": "P"}
_SURF = re.compile(r"^([*+]?)(\d+)((?:\s+[+-]?\d+)?)\s+([A-Za-z/]+)\s")
_TR = re.compile(r"^(\*?)[tT][rR](\d+)\s+(.*)$")


def _blocks(text):
    """-> (lines before the surface block, surface lines, lines after) with continuation lines joined"""
    parts = text.split("\n\n")
    if len(parts) < 2:
        return None
    return parts


def _cards(block):
    out = []
    for l in block.split("\n"):
        if l.startswith("     ") and out:
            out[-1] = out[-1] + " " + l.strip()
        elif l.strip():
            out.append(l)
    return out


def surfaces_of(text):
    """[(modifier, number, pointer | None, MNEMONIC)] read from the surface block, by regular expression only"""
    parts = _blocks(text)
    if not parts:
        return []
    out = []
    for card in _cards(parts[1]):
        m = _SURF.match(card)
        if m:
            ptr = int(m.group(3)) if m.group(3).strip() else None
            out.append((m.group(1), int(m.group(2)), ptr, m.group(4).upper()))
    return out


def transforms_of(text):
    """{number: (degrees, number of rotation entries)}"""
    parts = _blocks(text)
    out = {}
    if not parts or len(parts) < 3:
        return out
    for card in _cards(parts[2]):
        m = _TR.match(card)
        if m:
            n = len(m.group(3).split())
            out[int(m.group(2))] = (m.group(1) == "*", max(0, min(n - 3, 9)))
    return out


def _rewrite(text, block_index, fn):
    parts = _blocks(text)
    cards = [fn(c) for c in _cards(parts[block_index])]
    lines = []
    for c in cards:
        # re-wrap: continuation lines of 5 blanks
        cur = ""
        for w in c.split(" "):
            if cur and len(cur) + 1 + len(w) > 76:
                lines.append(cur)
                cur = "     " + w
            else:
                cur = w if not cur else cur + " " + w
        lines.append(cur)
    parts = list(parts)
    parts[block_index] = "\n".join(lines)
    return "\n\n".join(parts)


# A known finding is a behaviour of the code *as modelled* (each is a _refuted theorem about Model/Dedup.v): when the
# real call no longer does what the model says for this very input, no predicate holds and the failure is reported.
_AGREE = {}


def _key(c):
    return (c.get("text"), c.get("tol"), repr(c.get("pre", [])))


def note_agreement(c, ok):
    if len(_AGREE) > 50000:
        _AGREE.clear()
    _AGREE[_key(c)] = bool(ok)


def model_agrees(c):
    k = _key(c)
    if k not in _AGREE:
        import props.C18 as C18
        r = C18.run_case(c, want_text=False)
        note_agreement(c, "skip" in r or C18.model_agrees(r))
    return _AGREE[k]


def _classes(c):
    import props.C18 as C18
    return C18.failure_kinds(c)


def _still(c, kinds):
    """does the (modified) case still fail in one of these classes?  A case that can no longer be built does not."""
    try:
        return bool(set(_classes(c)) & set(kinds))
    except Exception:       # noqa: BLE001
        return True


# ----------------------------------------------------------------------------- F-C18-boundary-condition-ignored
BC_KINDS = ("not-a-duplicate:boundary-condition",)


def C18_bc_ignored(case, params):
    """two surfaces with the same mnemonic (one of the three classes that look for duplicates) and different
    boundary-condition markers; gone when every marker is dropped"""
    c = case.get("case")
    if c and not model_agrees(c):
        return False
    if not c or case.get("kind") not in BC_KINDS:
        return False
    ss = surfaces_of(c["text"])
    mods = {}
    for mod, _, _, mn in ss:
        if mn in FAMILY:
            mods.setdefault(mn, set()).add(mod)
    if not any(len(v) > 1 for v in mods.values()):
        return False
    c2 = dict(c, text=_rewrite(c["text"], 1, lambda card: card.lstrip("*+")))
    return not _still(c2, BC_KINDS)


# ----------------------------------------------------------------------------- F-C18-periodic-ignored
PER_KINDS = ("not-a-duplicate:periodic", "dangling-periodic", "file-dangling-periodic")


def C18_periodic_ignored(case, params):
    """a periodic surface (negative pointer on the card, or periodic_surface assigned before the call) next to a
    surface of the same mnemonic, or pointed to by one; gone when no surface is periodic"""
    c = case.get("case")
    if c and not model_agrees(c):
        return False
    if not c:
        return False
    if case.get("kind") == "exception:BrokenObjectLinkError":
        # an earlier call removed the partner of a periodic surface: the next call cannot resolve the number
        if not any(p[0] == "dedup" for p in c.get("pre", [])):
            return False
    elif case.get("kind") not in PER_KINDS:
        return False
    ss = surfaces_of(c["text"])
    per_text = [s for s in ss if s[2] is not None and s[2] < 0]
    per_ops = [p for p in c.get("pre", []) if p[0] == "set_per"]
    if not per_text and not per_ops:
        return False

    def drop(card):
        m = _SURF.match(card)
        if m and m.group(3).strip() and int(m.group(3)) < 0:
            return card[:m.start(3)] + card[m.end(3):]
        return card
    c2 = dict(c, text=_rewrite(c["text"], 1, drop), pre=[p for p in c.get("pre", []) if p[0] not in ("set_per", "del_per")])
    return not _still(c2, (case["kind"],))


# ----------------------------------------------------------------------------- F-C18-rotation-ignored
SECOND_KINDS = ("dangling-leaf", "file-dangling-leaf")
ROT_KINDS = ("not-a-duplicate:transform",) + SECOND_KINDS
IDENT = {False: "1 0 0 0 1 0 0 0 1", True: "0 90 90 90 0 90 90 90 0"}


def _spell_identity(text):
    def fn(card):
        m = _TR.match(card)
        if m and len(m.group(3).split()) == 3:
            return card.rstrip() + " " + IDENT[m.group(1) == "*"]
        return card
    return _rewrite(text, 2, fn)


def _has_rot_feature(c):
    lens = {n for _, n in transforms_of(c["text"]).values()}
    return 0 in lens and len(lens) >= 2


def _dangling_explained(c, kind, need):
    """dangling leaves have two known causes (an earlier call; the asymmetric transform test).  -> True when the case
    has the feature `need` and stops failing in `kind` once the features present are removed (one, or both)."""
    pre = c.get("pre", [])
    has_call = any(p[0] == "dedup" for p in pre)
    has_rot = _has_rot_feature(c)
    if need == "call" and not has_call or need == "rot" and not has_rot:
        return False
    no_call = dict(c, pre=[p for p in pre if p[0] != "dedup"])
    if need == "call" and not _still(no_call, (kind,)):
        return True
    try:
        no_rot = dict(c, text=_spell_identity(c["text"]))
    except Exception:       # noqa: BLE001
        return False
    if need == "rot" and not _still(no_rot, (kind,)):
        return True
    if has_call and has_rot:
        return not _still(dict(no_rot, pre=no_call["pre"]), (kind,))
    return False


def C18_rotation_ignored(case, params):
    """a transform without rotation entries and one with rotation entries, both used by surfaces: Transform.equivalent
    called on the one without does not look at the other's rotation (and the asymmetry lets a survivor be removed
    later); gone when the absent rotations are spelled as the identity matrix"""
    c = case.get("case")
    if c and not model_agrees(c):
        return False
    if not c or case.get("kind") not in ROT_KINDS:
        return False
    if case["kind"] in SECOND_KINDS:
        return _dangling_explained(c, case["kind"], "rot")
    if not _has_rot_feature(c):
        return False
    try:
        c2 = dict(c, text=_spell_identity(c["text"]))
    except Exception:       # noqa: BLE001
        return False
    return not _still(c2, (case["kind"],))


# ----------------------------------------------------------------------------- F-C18-rotation-index-error
IDX_KINDS = ("exception:IndexError",)


def C18_rotation_index_error(case, params):
    """two transforms whose rotation matrices have different non-zero lengths (MCNP accepts 3, 5, 6 or 9 entries);
    gone when the shorter ones are padded to nine entries"""
    c = case.get("case")
    if c and not model_agrees(c):
        return False
    if not c or case.get("kind") not in IDX_KINDS:
        return False
    trs = transforms_of(c["text"])
    lens = {n for _, n in trs.values() if n > 0}
    if len(lens) < 2:
        return False

    def fn(card):
        m = _TR.match(card)
        if m:
            vals = m.group(3).split()
            if 3 < len(vals) < 12:
                return card.rstrip() + " 0" * (12 - len(vals))
        return card
    c2 = dict(c, text=_rewrite(c["text"], 2, fn))
    return not _still(c2, IDX_KINDS)


# ----------------------------------------------------------------------------- F-C18-pointers-rerun
RERUN_KINDS = ("survivor-pointer-changed", "file-survivor-changed", "exception:BrokenObjectLinkError",
               "exception:MalformedInputError")
RERUN_OPS = ("set_tr", "del_tr", "set_per", "del_per", "renum_surf", "renum_tr", "renum_to_freed")
_CELLMOD = re.compile(r"^(vol|u|lat|fill)\b", re.I)


def C18_pointers_rerun(case, params):
    """a transform / periodic surface was assigned or deleted, or a surface / transform renumbered, before the call,
    or the data block holds a VOL / U / LAT / FILL card: the call resolves the pointers again from the numbers
    remembered from the read and merges the data-block cards a second time; gone without those edits / cards"""
    c = case.get("case")
    if c and not model_agrees(c):
        return False
    if not c or case.get("kind") not in RERUN_KINDS:
        return False
    pre = c.get("pre", [])
    parts = _blocks(c["text"])
    cards = _cards(parts[2]) if parts and len(parts) > 2 else []
    has_ops = any(p[0] in RERUN_OPS for p in pre)
    has_cards = any(_CELLMOD.match(card) for card in cards)
    if not has_ops and not has_cards:
        return False
    c2 = dict(c, pre=[p for p in pre if p[0] not in RERUN_OPS])
    if has_cards:
        c2["text"] = _rewrite(c["text"], 2, lambda card: "c " + card if _CELLMOD.match(card) else card)
    return not _still(c2, (case["kind"],))


# ----------------------------------------------------------------------------- F-C18-second-call
def C18_second_call(case, params):
    """remove_duplicate_surfaces had already been called on the problem (cell.surfaces was emptied by it, so the
    cells are not re-pointed any more); gone without the earlier call"""
    c = case.get("case")
    if c and not model_agrees(c):
        return False
    if not c or case.get("kind") not in SECOND_KINDS:
        return False
    return _dangling_explained(c, case["kind"], "call")
