"""findings_C16.py — trigger predicates of the open known findings of C16 (findings/C16.entries.json).

Each predicate decides from the *case* (problem text + operation program): the program contains an
operation of the defect class at or before the operation after which the sentence fails (the class is
the one the model's side conditions links_safe / linked_safe / univ_safe single out, asked from the
extracted model for this very program), the failing sentence is the one this defect breaks, and the same
program without the operations of the class passes the oracle — so a different violation of C16 in the
same program is still reported."""
import props.C16 as C16


def _parts(case):
    c = case.get("case")
    f = case.get("detail") or {}
    if not c or "ops" not in c or case.get("kind") != "oracle":
        return None, None
    return C16.norm_case(c), f


def _bits(c):
    r = C16.run_real(c, want_oracle=False)
    if r["status"] != "ok":
        return None, None
    ans = C16.model_answer(r)
    return r, C16.safe_bits(ans)


def _passes_without(c, idx, blind):
    ops = [op for i, op in enumerate(c["ops"]) if i not in idx]
    return C16.oracle_failure(dict(c, ops=ops), blind=blind) is None


def _decide(case, sentence, col, kinds, need_ok=False):
    c, f = _parts(case)
    if c is None:
        return False
    s = f.get("sentence", "")
    blind = s.startswith("unobserved run: ")
    if blind:
        s = s[len("unobserved run: "):]
    if not s.startswith(sentence):
        return False
    r, bits = _bits(c)
    if r is None:
        return False
    at = f.get("at_op", len(c["ops"]) - 1)
    idx = set()
    for i, op in enumerate(c["ops"]):
        if i == 0 or i > at or op[0] not in kinds or i >= len(bits):
            continue
        if bits[i][col:col + 1] != "0":
            continue
        if need_ok and r["results"][i] != "ok":
            continue
        idx.add(i)
    return bool(idx) and _passes_without(c, idx, blind)


def C16_dedup_relink(case, params):
    """remove_duplicate_surfaces() re-runs pointer resolution: every cell.surfaces / cell.complements is emptied"""
    return _decide(case, "S1", 0, ("dedup",))


def C16_inplace_operator(case, params):
    """node &= x / node |= x / node.left &= x on a node of cell.geometry (not through the geometry setter)"""
    return _decide(case, "S1", 0, ("iopi", "iopc"), need_ok=True)


def C16_divider_unlinked_leaf(case, params):
    """leaf.divider = s on a leaf of a geometry that was assigned through the API (only its root knows the cell)"""
    return _decide(case, "S1", 0, ("div",), need_ok=True)


def C16_children_unlinked(case, params):
    """add_cell_children_to_problem() replaces the collections by unlinked ones"""
    c, f = _parts(case)
    if c is None:
        return False
    s = f.get("sentence", "").replace("unobserved run: ", "")
    if not s.startswith("S4"):
        return False
    at = f.get("at_op", len(c["ops"]) - 1)
    idx = {i for i, op in enumerate(c["ops"]) if op[0] == "children" and i <= at}
    return bool(idx) and _passes_without(c, idx, f.get("sentence", "").startswith("unobserved"))


def C16_children_sort_crash(case, params):
    """add_cell_children_to_problem() raises while re-sorting the data inputs (two un-numbered cards of one
    prefix): the new materials / transforms never reach the data inputs and are not written"""
    c, f = _parts(case)
    if c is None:
        return False
    s = f.get("sentence", "")
    if not (s.startswith("S5") and "written" in s):
        return False
    r = C16.run_real(c, want_oracle=False)
    if r["status"] != "ok":
        return False
    ans = C16.model_answer(r).split("#")
    at = f.get("at_op", -1)
    if not (0 <= at < len(ans)) or c["ops"][at][0] != "children":
        return False
    # the model (dcrash over the data inputs of the case) predicts the crash
    return ans[at].startswith("err:AttributeError")


def C16_new_cell_no_universe(case, params):
    """a Cell() made through the API and appended to problem.cells has universe None"""
    return _decide(case, "S3", 2, ("app", "ext", "iadd"), need_ok=True)
