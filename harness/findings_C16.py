"""findings_C16.py — trigger predicate of the open known finding of C16 (findings/C16.entries.json).

The predicate decides from the *case* (problem text + operation program): the program appends, at or
before the operation after which sentence S3 fails, a cell that the model's side condition univ_safe
singles out (asked from the extracted model for this very program: the cell is in no universe the problem
holds), and the same program without these operations passes the oracle — so a different violation of C16
in the same program is still reported."""
import props.C16 as C16


def C16_new_cell_no_universe(case, params):
    """a Cell() made through the API and appended to problem.cells has universe None"""
    c = case.get("case")
    f = case.get("detail") or {}
    if not c or "ops" not in c or case.get("kind") != "oracle":
        return False
    c = C16.norm_case(c)
    s = f.get("sentence", "")
    blind = s.startswith("unobserved run: ")
    if blind:
        s = s[len("unobserved run: "):]
    if not s.startswith("S3"):
        return False
    r = C16.run_real(c, want_oracle=False)
    if r["status"] != "ok":
        return False
    bits = C16.safe_bits(C16.model_answer(r))
    at = f.get("at_op", len(c["ops"]) - 1)
    idx = set()
    for i, op in enumerate(c["ops"]):
        if i == 0 or i > at or i >= len(bits) or op[0] not in ("app", "ext", "iadd") or op[1] != "c":
            continue
        if bits[i][2:3] == "0" and r["results"][i] == "ok":
            idx.add(i)
    if not idx:
        return False
    ops = [op for i, op in enumerate(c["ops"]) if i not in idx]
    return C16.oracle_failure(dict(c, ops=ops), blind=blind) is None
