"""findings_C11.py — trigger predicates of the open known findings of C11 (decide from the case, then confirm that
removing the triggering feature makes the failure disappear)."""
import re

BARE_C = re.compile(r"^ {1,4}[cC][ \t]*$")
C_LINE = re.compile(r"^ {0,4}[cC]( |$)")
READ_LINE = re.compile(r"^ {0,4}read\b", re.I)


def _lead_bare_comments(text):
    """indices of the empty C comment lines with the c in columns 2-5 that belong to the comment run between a blank
    line (block start) and a READ input that is the first input of its block"""
    eol = "\r\n" if "\r\n" in text else "\n"
    lines = text.split(eol)
    hits = []
    run = []
    at_block_start = False
    for i, l in enumerate(lines):
        x = l.expandtabs(8)
        if not x.strip():
            at_block_start = True
            run = []
        elif C_LINE.match(x):
            if at_block_start:
                run.append(i)
        else:
            if at_block_start and READ_LINE.match(x):
                hits += [j for j in run if BARE_C.match(lines[j].expandtabs(8))]
            at_block_start = False
            run = []
    return hits, lines, eol


def C11_read_after_indented_empty_comment(case, params):
    """F-C11-read-after-indented-empty-comment"""
    import props.C11 as M
    if "text_b" not in case or not str(case.get("kind", "")).startswith("read-input-"):
        return False
    fixed = {}
    any_hit = False
    for key in ("text_a", "text_b"):
        hits, lines, eol = _lead_bare_comments(case[key])
        any_hit = any_hit or bool(hits)
        for j in hits:
            lines[j] = "c"
        fixed[key] = eol.join(lines)
    if not any_hit:
        return False
    return M.check_pair(fixed["text_a"], fixed["text_b"], case["width"], case.get("files_a"), case.get("files_b"),
                        replace=case.get("replace", True)) is None
