"""Trigger predicates of the open C19 findings."""
import re

MODCARD = re.compile(r"^\*?(imp:|vol\b|u\b|lat\b|fill\b)", re.I)


def C19_trailing_blank_modifier_card(case, params):
    """F-C19-trailing-blank-drift: a line written with a trailing blank (a data-block cell-modifier card, a line that
    was wrapped after a blank, an edited value whose padding grew) loses it when the file is read back (the reader
    strips trailing blanks), so the next generation differs by trailing blanks only.  Attributed only when the two
    generations are equal line by line up to trailing blanks."""
    import mp, rt, edits as ED, warnings
    c = case["case"]
    if case.get("kind") != "generation-drift":
        return False
    W = c["width"]
    pr = mp.read_problem(c["text"], version=rt.VERS[W])
    with warnings.catch_warnings():
        warnings.simplefilter("ignore")
        ED.apply_program(pr, case.get("prog", []))
    g1 = mp.write_problem(pr, "k1.i", rt.VERS[W])
    g2 = mp.write_problem(mp.read_problem(g1, "k1in.i", version=rt.VERS[W]), "k2.i", rt.VERS[W])
    a, b = g1.split("\n"), g2.split("\n")
    if len(a) != len(b):
        return False
    for x, y in zip(a, b):
        if x != y:
            if x.rstrip() != y.rstrip():
                return False
    return True


def _strip_data_comments(text, width):
    import spec
    lines = text.split("\n")
    # locate the data block: after the second blank line following the title (message block aware)
    i = 0
    if lines and lines[0].upper().startswith("MESSAGE:"):
        while i < len(lines) and lines[i].strip():
            i += 1
        i += 1
    i += 1          # title
    blanks = 0
    out = lines[:i]
    for l in lines[i:]:
        if blanks >= 2 and re.match(r"^ {0,4}[cC]( |$)", l):
            continue
        if not l.strip():
            blanks += 1
        out.append(l)
    return "\n".join(out)


def C19_data_comment_drift(case, params):
    """F-C19-data-comment-drift: C comment lines in the data block next to cards that MontePy moves (MT cards,
    IMP cards of several particles, see F-C01-data-card-order / F-C01-modifier-card-comments) are attached to a
    different card in each generation.  Attributed when removing the C comment lines of the data block from the
    input makes the generations agree (up to the trailing-blank finding)."""
    import rt
    if case.get("kind") != "generation-drift":
        return False
    c = case["case"]
    c2 = dict(c, text=_strip_data_comments(c["text"], c["width"]))
    if c2["text"] == c["text"]:
        return False
    r = rt.c19_check(c2, case.get("prog", []))
    if r is None:
        return True
    if r["kind"] == "generation-drift":
        return C19_trailing_blank_modifier_card(dict(case, case=c2), params)
    return False


def C19_second_write_trailing_blank(case, params):
    """F-C19-second-write-trailing-blank: two consecutive writes differ by trailing blanks only."""
    import mp, rt, edits as ED, warnings
    if case.get("kind") != "second-write-differs":
        return False
    c = case["case"]
    W = c["width"]
    pr = mp.read_problem(c["text"], version=rt.VERS[W])
    with warnings.catch_warnings():
        warnings.simplefilter("ignore")
        ED.apply_program(pr, case.get("prog", []))
    a = mp.write_problem(pr, "s1.i", rt.VERS[W]).split("\n")
    b = mp.write_problem(pr, "s2.i", rt.VERS[W]).split("\n")
    return len(a) == len(b) and all(x.rstrip() == y.rstrip() for x, y in zip(a, b))


def _expand_imp_cards(text, width):
    """the text with every data-block IMP card that contains a shortcut rewritten with plain values
    -> (text, changed?)"""
    import spec
    lines = text.split("\n")
    sp = spec.split_file(text, width)
    blocks = sp["blocks"] + [[]] * (3 - len(sp["blocks"]))
    changed = False
    for card in blocks[2]:
        toks = spec.tokens(card.text)
        if not toks or not toks[0].startswith("IMP:") and not toks[0].startswith("*IMP:"):
            continue
        if not any(spec._SC.match(t) for t in toks[1:]):
            continue
        vals = spec.expand_shortcuts(toks[1:])
        if any(not hasattr(v, "numerator") for v in vals):
            continue
        new = toks[0].lower() + " " + " ".join(("%g" % float(v)) for v in vals)
        # replace the physical lines of the card (comments inside the card are dropped with it)
        for i in range(len(lines) - len(card.lines) + 1):
            if [l[:width].rstrip("\r") for l in lines[i:i + len(card.lines)]] == card.lines:
                lines[i:i + len(card.lines)] = [new]
                changed = True
                break
    return "\n".join(lines), changed


def C19_imp_shortcut_observed(case, params):
    """F-C19-imp-echo-after-observation: a data-block IMP card spelled with a shortcut, importances edited away from
    and back to the values of the card, and an observation in between.  Feature: a data-block IMP card with a
    shortcut; ablation: the same card spelled without shortcuts."""
    import rt
    if case.get("kind") != "observation-changed-output":
        return False
    c = case["case"]
    if not any(e.get("kind") == "importance" for e in case.get("prog", [])):
        return False
    text2, changed = _expand_imp_cards(c["text"], c["width"])
    if not changed:
        return False
    return rt.c19_check(dict(c, text=text2), case.get("prog", [])) is None


def C19_imp_grouping_observed(case, params):
    """F-C19-imp-grouping-after-observation: importances that were read from a data-block card for SEVERAL particles
    ('imp:n,p ...') are printed with the cells (a placement edit of 'imp' towards the cells) and one cell's importances
    are edited more than once.  Ablation: the same program without the placement edits."""
    import rt, spec
    if case.get("kind") != "observation-changed-output":
        return False
    c = case["case"]
    prog = case.get("prog", [])
    if not any(e.get("kind") == "placement" and e.get("key") == "imp" and not e.get("data_block") for e in prog):
        return False
    if sum(1 for e in prog if e.get("kind") == "importance") < 2:
        return False
    sp = spec.split_file(c["text"], c["width"])
    blocks = sp["blocks"] + [[]] * (3 - len(sp["blocks"]))
    if not any(re.match(r"^\*?IMP:[^,\s]+,", (spec.tokens(card.text) or [""])[0]) for card in blocks[2]):
        return False
    return rt.c19_check(c, [e for e in prog if e.get("kind") != "placement"]) is None


def C19_rotation_after_comment(case, params):
    import rt
    import findings_rt as FR
    return FR.rotation_after_comment(case, rt.c19_check)


def C19_rotation_set_twice(case, params):
    import rt
    import findings_rt as FR
    if case.get("kind") != "observation-changed-output":
        return False
    return FR.rotation_set_twice(case, rt.c19_check)


def C19_rotation_after_last_value_edit(case, params):
    """F-C19-rotation-after-last-value-edit: the last value of a TR card is changed and later rotation entries are
    appended behind it; a write or str() in between changes the number of blanks after the changed value."""
    import rt
    import findings_rt as FR
    return FR.rotation_after_last_value_edit(case, rt.c19_check)


_KEY_EDITS = {"u": ("cell_universe", "universe_number"), "vol": ("volume",),
              "fill": ("fill_universe", "universe_number"), "lat": ("lattice",)}


def C19_moved_value_blanks(case, params):
    """F-C19-moved-value-blanks: a per-cell datum K (u, vol, fill, lat) given on the cell cards is changed to a
    spelling of another width AND K is printed in the data block (print_in_data_block[K] = True, before or after the
    edit): the number of blanks after the changed value on the generated K card depends on whether the cell was
    written in between ('U J 7  7' / 'U J 7 7', 'VOL 6 0.125  100' / 'VOL 6 0.125 100').
    Feature: placement of K towards the data block + an edit of K + the two outputs differ ONLY in blanks, on a line
    that is a K card.  Ablation: the same program without the edits of K (for u / fill also without universe renumberings)."""
    import rt
    if case.get("kind") != "observation-changed-output":
        return False
    diff = (case.get("detail") or {}).get("diff") or {}
    a, b = str(diff.get("first", "")).split(), str(diff.get("second", "")).split()
    prog = case.get("prog", [])
    keys = {e.get("key") for e in prog if e.get("kind") == "placement" and e.get("data_block")} & set(_KEY_EDITS)
    if a or b:
        if a != b or not a or a[0].lower().lstrip("*") not in keys:
            return False
        keys = {a[0].lower().lstrip("*")}
    keys = {k for k in keys if any(e.get("kind") in _KEY_EDITS[k] for e in prog)}
    if not keys:
        return False
    drop = {x for k in keys for x in _KEY_EDITS[k]}
    return rt.c19_check(case["case"], [e for e in prog if e.get("kind") not in drop]) is None


_JOINT = re.compile(r"^(\s{0,4}\*?imp:)([a-z#/|]+(?:,[a-z#/|]+)+)(.*)$", re.I)


def C19_joint_imp_particle_order(case, params):
    """F-C19-joint-imp-particle-order: a data-block card 'imp:n,e ...' and two importance edits after which the
    particles have equal importances again (n and e of one cell set to the same value, or one value set and set back):
    the card splits after the first edit and is joined again after the second; the ORDER of the particles in the joined
    classifier ('imp:n,e' / 'imp:e,n') depends on whether the problem was written in between.  Feature: a joint IMP
    card in the data block + >= 2 importance edits + the two outputs differ only in the particle order of an IMP
    classifier.  Ablation: the same file with one IMP
    card per particle."""
    import rt, spec
    if case.get("kind") != "observation-changed-output":
        return False
    diff = (case.get("detail") or {}).get("diff") or {}
    a, b = str(diff.get("first", "")).split(), str(diff.get("second", "")).split()
    if a and b:
        if not (a[0].lower().startswith(("imp:", "*imp:")) and a[1:] == b[1:]
                and sorted(a[0].lower().split(":")[1].split(",")) == sorted(b[0].lower().split(":")[-1].split(","))):
            return False
    c = case["case"]
    prog = case.get("prog", [])
    if sum(1 for e in prog if e.get("kind") == "importance") < 2:
        return False
    lines = c["text"].split("\n")
    out = []
    i = 0
    hit = False
    while i < len(lines):
        x = lines[i].rstrip("\r").expandtabs(8)
        m = _JOINT.match(x)
        if not m:
            out.append(lines[i])
            i += 1
            continue
        j = i + 1
        while j < len(lines) and (spec.is_comment_line(lines[j]) or
                                  (lines[j].strip() and not lines[j].rstrip("\r").expandtabs(8)[:5].strip())):
            j += 1
        while j > i + 1 and spec.is_comment_line(lines[j - 1]):
            j -= 1
        cr = "\r" if lines[i].endswith("\r") else ""
        for part in m.group(2).split(","):
            out.append(m.group(1) + part + m.group(3) + cr)
            out.extend(lines[i + 1:j])
        hit = True
        i = j
    if not hit:
        return False
    return rt.c19_check(dict(c, text="\n".join(out)), prog) is None


def C19_rotation_short_on_full_form(case, params):
    import rt
    import findings_rt as FR
    return FR.rotation_short_on_full_form(case, rt.c19_check)


def C19_operator_switched_back(case, params):
    """F-C19-operator-switched-back: a cell's top-level geometry operator is set to INTERSECTION and later (back) to
    UNION; with a write or str() between the two assignments the colon lands at another place of the padding
    ('-1: 2' / '-1 :2') or parentheses written for the intersection stay.  Feature: for one cell a geometry_operator
    edit 'intersection' followed later by 'union'.  Ablation: without the geometry_operator edits of these cells."""
    import rt
    if case.get("kind") != "observation-changed-output":
        return False
    prog = case.get("prog", [])
    seen, cells = set(), set()
    for e in prog:
        if e.get("kind") == "geometry_operator":
            if e["value"] == "intersection":
                seen.add(e["orig"])
            elif e["orig"] in seen:
                cells.add(e["orig"])
    if not cells:
        return False
    return rt.c19_check(case["case"], [e for e in prog if not (e.get("kind") == "geometry_operator"
                                                                and e["orig"] in cells)]) is None


def C19_amp_after_moved_value(case, params):
    import rt
    import findings_rt as FR
    return FR.amp_after_moved_value(case, rt.c19_check)


def C19_operator_switch_drops_comment(case, params):
    """F-C19-operator-switch-drops-comment: the operator of a cell's geometry is changed (and changed back) and the
    text between the two sides holds a comment ('$ ...', a C line) or a '&': __switch_operator drops the comment nodes
    of the operator's padding, so with a write or str() between the two assignments the comment / '&' is gone, without
    it is kept.  Feature: geometry_operator edits on a cell whose card has a '$', a '&' or an interior comment line.
    Ablation: without the geometry_operator edits of these cells."""
    import rt, spec
    if case.get("kind") != "observation-changed-output":
        return False
    c = case["case"]
    prog = case.get("prog", [])
    cells = {e["orig"] for e in prog if e.get("kind") == "geometry_operator"}
    if not cells:
        return False
    sp = spec.split_file(c["text"], c.get("width", 80))
    hit = set()
    for card in (sp["blocks"] or [[]])[0]:
        toks = spec.tokens(card.text)
        if not toks or not toks[0].isdigit() or int(toks[0]) not in cells:
            continue
        body = card.lines[:-1] if len(card.lines) > 1 else []
        if any("$" in l or l.rstrip().endswith("&") or spec.is_comment_line(l) for l in body) or \
                (card.lines and card.lines[-1].rstrip().endswith("&")):
            hit.add(int(toks[0]))
    if not hit:
        return False
    return rt.c19_check(c, [e for e in prog if not (e.get("kind") == "geometry_operator" and e["orig"] in hit)]) is None
