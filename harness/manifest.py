"""Regenerates /verif/MANIFEST.json from the table below (python3 harness/manifest.py)."""
import json
import os

VERIF = os.path.dirname(os.path.dirname(os.path.abspath(__file__)))

# property id -> (claimed?, technique, level text, level note, design ref)
CHECKS = {
    "C06": dict(
        technique="Coq proof: invariant by induction over operation sequences of the Coll model "
                  "+ op-sequence correspondence against the real collections",
        text="Theorems in coq/Properties/C06.v over the executable model coq/Model/Coll.v: the uniqueness/"
             "cache-harmlessness invariant holds in every reachable state (induction over arbitrary op lists), "
             "look-ups return exactly the member with that number, offered numbers are free, request_number "
             "terminates for step != 0, NumberConflictError/TypeError leave members, numbers and links unchanged. "
             "The model is tied to /repo on every run by executing random operation sequences on the five real "
             "collection classes and on the extracted model and comparing every result, the member list and the "
             "number cache; a property-level oracle re-checks the sentences on the real objects.",
        note="Trusted: Coq kernel + vm_compute, extraction (ExtrOcamlBasic/ExtrOcamlString), the Python harness; "
             "the model is hand-written (modelled, not verified) and covers numbered_object_collection.py and the "
             "five number setters; objects are value-distinct; step != 0.",
        ref="DESIGN.md §6 C06, §14",
    ),
    "C10": dict(
        technique="Coq proof about the Wrap model (textwrap._wrap_chunks + wrap_string_for_mcnp) "
                  "+ byte-exact correspondence on generated strings + two-regime whole-file oracle",
        text="Theorems in coq/Properties/C10.v over coq/Model/Wrap.v, for all chunk lists and widths: the wrapper "
             "terminates, every produced line fits the limit, continuation lines start with the 5-blank indent, nothing "
             "is lost or added except indents, a line that fits is written unchanged, no written line is blank-only, and "
             "re-splitting the wrapped lines gives exactly the tokens of the text when breaks fall at blanks "
             "(C10_resplit); C10_resplit_comment_refuted proves that a wrapped '$' comment becomes data (known finding). "
             "Tie: wrap_string_for_mcnp vs the extracted model byte for byte on generated strings; the chunking regex is "
             "checked per case against split_ws. Search: generated problems laid out near the limit, edited so numbers "
             "grow, written for 80 and 128 columns and re-read by an independent reader.",
        note="Trusted: Coq kernel, extraction, harness. Modelled not verified: _wrap_chunks/_handle_long_word; the "
             "chunking regular expression of textwrap is not modelled (input of the model).",
        ref="DESIGN.md §6 C10, §14",
    ),
}

ALL = ["C%02d" % i for i in range(1, 21)]

NOT_YET = "check not built yet in this round (planned: DESIGN.md §6); not claimed"


def main():
    # per-property fragments written next to the check: harness/props/Cxx.manifest.json
    pdir = os.path.join(VERIF, "harness", "props")
    for f in sorted(os.listdir(pdir)):
        if f.endswith(".manifest.json"):
            with open(os.path.join(pdir, f)) as fh:
                frag = json.load(fh)
            CHECKS.setdefault(f.split(".")[0], frag)
    checks = []
    na = []
    # claimed.txt: the properties whose check the coordinator has seen pass on the unchanged tree
    with open(os.path.join(VERIF, "harness", "claimed.txt")) as fh:
        claimed = set(fh.read().split())
    for pid in ALL:
        c = CHECKS.get(pid)
        if c is None or pid not in claimed or c.get("text", "placeholder") == "placeholder":
            na.append({"property_id": pid, "reason": NOT_YET})
            continue
        checks.append({
            "property_id": pid,
            "quick_cmd": f"./check {pid} --tier quick",
            "thorough_cmd": f"./check {pid} --tier thorough",
            "evidence_file": f"/verif/evidence/{pid}.json",
            "replay_cmd_template": f"./check {pid} --replay {{path}}",
            "engine": "coq-model",
            "level_claimed": {"category": "proof", "text": c["text"], "design_ref": c["ref"]},
            "level_note": c["note"],
            "technique": c["technique"],
        })
    m = {
        "version": 1,
        "setup_cmd": "./setup.sh",
        "hooks": {
            "guard": "MONTEPY_VERIF",
            "enable": "no source hooks exist: the harness reaches private state and injects faults from outside "
                      "(PYTHONPATH=/repo); MONTEPY_VERIF is reserved and unused",
            "baseline_off_cmd": "/verif/run_baseline.sh",
            "source_commits": [],
            "add_only": True,
        },
        "engines": [{
            "name": "coq-model", "path": "/verif/coq",
            "serves_properties": [c["property_id"] for c in checks],
            "kind_free_text": "Coq 8.16.1 development (Model/ executable models, Proofs/, Properties/ headline "
                              "theorems with Print Assumptions, Gen/ regenerated from /repo) + extracted OCaml "
                              "model binaries + Python correspondence/oracle harness under /verif/harness",
        }],
        "checks": checks,
        "not_applicable": na,
        "notes": "fix: commits in /repo are listed in /verif/known_findings.json (status=fixed). "
                 "Every check regenerates coq/Gen from /repo's working tree and rebuilds what changed.",
    }
    with open(os.path.join(VERIF, "MANIFEST.json"), "w") as f:
        json.dump(m, f, indent=1)
    print("MANIFEST.json:", len(checks), "checks,", len(na), "not claimed")


if __name__ == "__main__":
    main()
