"""Regenerates /verif/MANIFEST.json from the table below (python3 harness/manifest.py)."""
import json
import os

VERIF = os.path.dirname(os.path.dirname(os.path.abspath(__file__)))

# property id -> (claimed?, technique, level text, level note, design ref)
CHECKS = {}

ALL = ["C%02d" % i for i in range(1, 21)]

NOT_YET = "check not built yet in this round (planned: DESIGN.md §6); not claimed"


def main():
    # per-property fragments written next to the check: harness/props/Cxx.manifest.json
    pdir = os.path.join(VERIF, "harness", "props")
    for f in sorted(os.listdir(pdir)):
        if f.endswith(".manifest.json"):
            with open(os.path.join(pdir, f)) as fh:
                frag = json.load(fh)
            CHECKS.setdefault(f.split(".")[0], frag)
    checks = []
    na = []
    # claimed.txt: the properties whose check the coordinator has seen pass on the unchanged tree
    with open(os.path.join(VERIF, "harness", "claimed.txt")) as fh:
        claimed = set(fh.read().split())
    for pid in ALL:
        c = CHECKS.get(pid)
        if c is None or pid not in claimed or c.get("text", "placeholder") == "placeholder":
            na.append({"property_id": pid, "reason": NOT_YET})
            continue
        checks.append({
            "property_id": pid,
            "quick_cmd": f"./check {pid} --tier quick",
            "thorough_cmd": f"./check {pid} --tier thorough",
            "evidence_file": f"/verif/evidence/{pid}.json",
            "replay_cmd_template": f"./check {pid} --replay {{path}}",
            "engine": "coq-model",
            "level_claimed": {"category": "proof", "text": c["text"], "design_ref": c["ref"]},
            "level_note": c["note"],
            "technique": c["technique"],
        })
    m = {
        "version": 1,
        "setup_cmd": "./setup.sh",
        "hooks": {
            "guard": "MONTEPY_VERIF",
            "enable": "no source hooks exist: the harness reaches private state and injects faults from outside "
                      "(PYTHONPATH=/repo); MONTEPY_VERIF is reserved and unused",
            "baseline_off_cmd": "/verif/run_baseline.sh",
            "source_commits": [],
            "add_only": True,
        },
        "engines": [{
            "name": "coq-model", "path": "/verif/coq",
            "serves_properties": [c["property_id"] for c in checks],
            "kind_free_text": "Coq 8.16.1 development (Model/ executable models, Proofs/, Properties/ headline "
                              "theorems with Print Assumptions, Gen/ regenerated from /repo) + extracted OCaml "
                              "model binaries + Python correspondence/oracle harness under /verif/harness",
        }],
        "checks": checks,
        "not_applicable": na,
        "notes": "All 20 properties are claimed at level proof: theorems about executable Coq models (coq/Model, coq/Spec), "
                 "reflective obligations on tables regenerated from /repo on every run (coq/Gen), and a correspondence + oracle "
                 "search per property (DESIGN.md section 14 is the as-built description; C12 and C13 are claimed partial, see their "
                 "texts). /repo carries 102 unguarded fix: commits (repairs of genuine defects found by these checks; "
                 "known_findings.json status=fixed) and is frozen at 1eab23e; open known findings are printed as KNOWN-FINDING "
                 "lines while their committed replays still fail. No source hooks exist. Independent seeded changes and the "
                 "verdict of each check on them are in /verif/seeded/<id>/ (harness/seedtest.py confirm|run). "
                 "Every check regenerates coq/Gen from /repo's working tree and rebuilds what changed.",
    }
    with open(os.path.join(VERIF, "MANIFEST.json"), "w") as f:
        json.dump(m, f, indent=1)
    print("MANIFEST.json:", len(checks), "checks,", len(na), "not claimed")


if __name__ == "__main__":
    main()
