"""findings_C15.py — trigger predicates of the open known findings of C15 (findings/C15.entries.json).

A failing case is attributed to a finding only if the predicate holds for the *case* (which crash points
were injected) and — rule (iii) of DESIGN.md §2.5 — the failure disappears when the triggering crash points
are taken out of the case.  Any other kind of failure of the same case (a destroyed destination, a stray file
after a failing write ...) is reported by the oracle under its own kind and is never attributed here."""

EXIT_FAULTS = ("close", "replace")


def C15_exit_fault_leftover(case, params):
    """F-C15-temp-left-when-exit-fails: the close of the temporary file or os.replace raised, the destination is
    intact, but the (partial) temporary stays next to it."""
    import props.C15 as C15
    if case.get("kind") != "leftover-temp":
        return False
    c = case.get("case")
    if not c:
        return False
    faults = [list(f) for f in c.get("faults", [])]
    if not any(f[0] in EXIT_FAULTS for f in faults):
        return False
    det = case.get("detail") or {}
    if det.get("destination_intact") is False:
        return False
    # without the failing close / os.replace no stray file is left (so a leftover that has another cause,
    # e.g. after a failing write or format call alone, is still a violation)
    rest = [f for f in faults if f[0] not in EXIT_FAULTS]
    c2 = dict(c, faults=rest)
    return not any(f["kind"] in ("leftover-temp", "leftover-after-success") for f in C15.oracle_failures(c2))
