"""findings_C17.py — trigger predicates of the open known findings of property C17.

F-C17-types-latch: a generated property declared with types=() latches onto the class of the first
instance whose setter is called.  The predicate decides from the case: the unrelated history contains
a setter call of such a property (directly, or through `geometry &=`/`|=` which assigns HalfSpace.right,
or through periodic_surface on another problem's surface) AND A's program uses the same property; it then
confirms that the same case WITHOUT those history operations passes, so that any other leak is still reported."""
import json

LATCH_USERS = {"periodic": "Surface.periodic_surface", "geom": "HalfSpace.right"}


def _noise_props(op, props):
    if op.get("n") == "genset" and op.get("prop") in props:
        return op["prop"]
    if op.get("n") == "periodic":
        return "Surface.periodic_surface"
    if op.get("n") == "geom":
        return "HalfSpace.right"
    return None


def C17_types_latch(case, params):
    props = set(params.get("props", []))
    kind = case.get("kind")
    if kind == "latch":
        return case.get("prop") in props
    if kind == "setter-history":
        if case.get("prop") not in props or not case.get("hist"):
            return False
        # the first call ever made latches type(self) of ITS instance; the later call is made on an instance of
        # another class, for which a fresh process would have checked against that class instead
        return case["hist"][0][0] != case["call"][0]
    if kind != "history" or case.get("arm") == "poison":
        return False
    c = case["case"]
    used = {LATCH_USERS[s["s"]] for s in c["A"]["steps"] if s["s"] in LATCH_USERS} & props
    noisy = set()
    for g in c["noise"]:
        for op in g:
            p = _noise_props(op, props)
            if p in props:
                noisy.add(p)
    if not (used & noisy) and not ("HalfSpace.right" in used and ("HalfSpace.left" in noisy or "HalfSpace.right" in noisy)):
        return False
    # confirm: without the latch-triggering history the case passes
    import props.C17 as C
    stripped = json.loads(json.dumps(c))
    stripped["noise"] = [[op for op in g if _noise_props(op, props) is None] for g in stripped["noise"]]
    try:
        if C.TABLE is None:
            C.set_table()
        return C.history_fails(stripped) is None
    except Exception:
        return False


def C17_arg_alias(case, params):
    """an API function keeps the caller's container: the unrelated history hands the SAME object that A was given to
    another problem (or the caller keeps using it).  Decided from the case; confirmed by removing those operations."""
    kind = case.get("kind")
    if kind == "alias":
        return case.get("probe") == params.get("probe")
    if kind == "alias-site":
        return case.get("site") in params.get("sites", [])
    if kind != "history" or case.get("arm") == "poison":
        return False
    c = case["case"]
    keys = {s["key"] for s in c["A"]["steps"] if s["s"] == "argset" and s["api"] in params.get("apis", [])}
    if not keys:
        return False
    touched = any(op.get("key") in keys or (op.get("n") == "arg_inplace" and op.get("api") in params.get("apis", []))
                  for g in c["noise"] for op in g)
    if not touched:
        return False
    import props.C17 as C
    stripped = json.loads(json.dumps(c))
    stripped["noise"] = [[op for op in g if not op.get("n", "").startswith("arg")] for g in stripped["noise"]]
    try:
        if C.TABLE is None:
            C.set_table()
        return C.history_fails(stripped) is None
    except Exception:
        return False
