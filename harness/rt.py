"""rt.py — round-trip oracles on the real MontePy shared by C01, C03, C07, C19
(judged by spec.py, the independent MCNP-rules reader)."""
import re
import warnings

import edits as ED
import gen
import mp
import spec

VERS = {128: (6, 2, 0), 80: (5, 1, 60)}


def gen_case(rng, width=None, wild=False, opts=None):
    width = width or rng.choice([128, 128, 80])
    P = gen.gen_problem(rng, opts)
    L = gen.layout_opts(rng, wild=wild, width=min(width, 100))
    L["width"] = min(L["width"], width)
    text = gen.render(rng, P, L)
    return {"text": text, "width": width, "meta": jsonable_meta(P["meta"])}


def jsonable_meta(m):
    out = {}
    for k, v in m.items():
        if k in ("geoms",):
            continue
        if isinstance(v, dict):
            out[k] = {str(a): b for a, b in v.items()}
        else:
            out[k] = v
    return out


def meta_int_keys(m):
    """undo the str() of dict keys done for JSON"""
    out = dict(m)
    for k in ("surface_constants", "universes", "fills", "imps", "vols"):
        if k in out and isinstance(out[k], dict):
            out[k] = {int(a): b for a, b in out[k].items()}
    return out


# ----------------------------------------------------------------------------- C01
def c01_check(case):
    """unedited read -> write denotes the same problem.  -> None | failure dict"""
    W = case["width"]
    try:
        pr = mp.read_problem(case["text"], version=VERS[W])
    except Exception as e:
        return {"kind": "read-failed", "error": type(e).__name__, "msg": str(e)[:300]}
    try:
        out = mp.write_problem(pr, "c01.i", VERS[W])
    except Exception as e:
        return {"kind": "write-failed", "error": type(e).__name__, "msg": str(e)[:300]}
    diffs = spec.compare_files(case["text"], out, W, W)
    if diffs:
        return {"kind": "denotation-differs", "diffs": [[str(x)[:300] for x in d] for d in diffs[:3]]}
    sp = spec.split_file(out, W)
    blocks = sp["blocks"] + [[]] * (3 - len(sp["blocks"]))
    if any(l.strip() for l in sp["trailing"]):
        return {"kind": "text-after-data-block", "trailing": sp["trailing"][:3]}
    for l in out.split("\n"):
        if len(l) > W:
            return {"kind": "line-too-long", "line": l}
    return None


# ----------------------------------------------------------------------------- C03 / C07
def _tok_num(t):
    m = re.match(r"^([#*+-]?)(\d+)$", t)
    if m:
        return int(m.group(2))
    return None


def explain_token_change(old, new, exps):
    """is the change of one token explained by the expectations (in program order, chains allowed:
    assign material 2, then renumber material 2 -> 42)?"""
    nv = spec.read_number(new.lstrip("#*"))
    mo = re.match(r"^([#*+-]?)([A-Z]*)(\d+)(.*)$", old)
    mn = re.match(r"^([#*+-]?)([A-Z]*)(\d+)(.*)$", new)
    cand = set()
    if mo:
        cand.add(int(mo.group(3)))
    for ex in exps:
        if ex[0] == "renumber":
            _, kind, o, n = ex
            if o in cand:
                cand.add(n)
        elif ex[0] == "value":
            v = ex[4]
            if isinstance(v, int) or (isinstance(v, float) and v == int(v) and ex[3][0] == "material"):
                cand.add(int(v))
    if mo and mn and mo.group(1) == mn.group(1) and mo.group(2) == mn.group(2) and mo.group(4) == mn.group(4) \
            and int(mn.group(3)) in cand and int(mn.group(3)) != int(mo.group(3)):
        return True
    for ex in exps:
        if ex[0] == "value":
            v = ex[4]
            if nv is not None and (spec.close(float(nv), float(v)) or spec.close(float(abs(nv)), float(abs(v)))):
                return True     # density sign carries atom/mass mode
    return False


def card_id(card, block):
    t = spec.tokens(card.text)
    return t[0] if t else ""


def c07_check(case, prog, exps_out=None):
    """edited write vs unedited write of the same text.  -> None | failure dict"""
    W = case["width"]
    try:
        pr0 = mp.read_problem(case["text"], version=VERS[W])
        U = mp.write_problem(pr0, "u.i", VERS[W])
        pr1 = mp.read_problem(case["text"], version=VERS[W])
    except Exception as e:
        return None       # reading/writing unedited is C01/C12's business
    try:
        with warnings.catch_warnings():
            warnings.simplefilter("ignore")
            applied, exps = ED.apply_program(pr1, prog)
    except Exception as e:
        return {"kind": "valid-edit-rejected", "error": type(e).__name__, "msg": str(e)[:300]}
    if exps_out is not None:
        exps_out += exps
    try:
        E = mp.write_problem(pr1, "e.i", VERS[W])
    except Exception as e:
        return {"kind": "write-after-edit-failed", "error": type(e).__name__, "msg": str(e)[:300]}
    su = spec.split_file(U, W)
    se = spec.split_file(E, W)
    title_exp = [e for e in exps if e[0] == "title"]
    if title_exp:
        if se["title"].rstrip() != title_exp[-1][1][: W - 1].rstrip():
            return {"kind": "title-not-written", "got": se["title"], "want": title_exp[-1][1]}
    elif su["title"] != se["title"]:
        return {"kind": "title-changed", "before": su["title"], "after": se["title"]}
    if (su["message"] or []) != (se["message"] or []):
        return {"kind": "message-changed"}
    bu = su["blocks"] + [[]] * (3 - len(su["blocks"]))
    be = se["blocks"] + [[]] * (3 - len(se["blocks"]))
    seen_values = set()
    for bi in range(3):
        if len(bu[bi]) != len(be[bi]):
            return {"kind": "card-count-changed", "block": bi, "before": [c.text for c in bu[bi]],
                    "after": [c.text for c in be[bi]]}
        for cu, ce in zip(bu[bi], be[bi]):
            tu = spec.tokens(cu.text, cell_geometry=(bi == 0))
            te = spec.tokens(ce.text, cell_geometry=(bi == 0))
            if tu == te:
                if spec.comments_of(cu) != spec.comments_of(ce):
                    return {"kind": "comments-changed", "card": cu.text, "before": spec.comments_of(cu),
                            "after": spec.comments_of(ce)}
                continue
            if len(tu) != len(te):
                # value lists that are rebuilt through shortcuts may change length: compare expanded values
                if bi != 0:
                    xu = spec.expand_shortcuts(tu)
                    xe = spec.expand_shortcuts(te)
                    if len(xu) == len(xe):
                        tu, te = [str(x) for x in xu], [str(x) for x in xe]
                if len(tu) != len(te) and bi == 0:
                    # a per-cell datum that did not exist before is added as KEY value at the end of the card
                    added = [ex for ex in exps if ex[0] == "value" and ex[3][0] in ("vol",)]
                    if added and len(te) == len(tu) + 2 and te[-2] == "VOL":
                        v = spec.read_number(te[-1])
                        if v is not None and any(spec.close(float(v), float(ex[4])) for ex in added):
                            te = te[:-2]
                if len(tu) != len(te):
                    return {"kind": "token-count-changed", "before": cu.text, "after": ce.text}
            for a, b in zip(tu, te):
                if a != b:
                    na, nb = spec.read_number(a), spec.read_number(b)
                    if na is not None and nb is not None and spec.close(na, nb):
                        # same value re-spelled: only allowed for the edited token itself
                        if not explain_token_change(a, b, exps):
                            return {"kind": "untouched-token-respelled", "before": cu.text, "after": ce.text,
                                    "token": [a, b]}
                        continue
                    if not explain_token_change(a, b, exps):
                        return {"kind": "unexplained-change", "before": cu.text, "after": ce.text, "token": [a, b],
                                "expectations": [list(map(str, x)) for x in exps]}
            if spec.comments_of(cu) != spec.comments_of(ce):
                return {"kind": "comments-changed", "card": cu.text, "before": spec.comments_of(cu),
                        "after": spec.comments_of(ce)}
    # every expectation must be visible in the edited file (C03: "each edited quantity carries its new value")
    miss = c03_visible(se, exps, W)
    if miss:
        return {"kind": "edit-not-written", "missing": miss}
    return None


def _find_card(blocks, bi, number, prefix=""):
    for c in blocks[bi]:
        t = spec.tokens(c.text)
        if not t:
            continue
        m = re.match(r"^[*+]?([A-Z]*)(\d+)", t[0])
        if m and int(m.group(2)) == number and m.group(1) == prefix:
            return c
    return None


def c03_visible(se, exps, W):
    blocks = se["blocks"] + [[]] * (3 - len(se["blocks"]))
    final_num = {}
    # the last value set for a quantity wins; renumberings chain
    last = {}
    for ex in exps:
        if ex[0] == "value":
            last[(ex[1], ex[2], ex[3])] = ex
    ren = [ex for ex in exps if ex[0] == "renumber"]

    def current(kind, n):
        for _, k, o, nn in ren:
            if k == kind and o == n:
                n = nn
        return n

    for ex in ren:
        _, kind, o, n = ex
        n = current(kind, o) if False else n
    for (bi, cid, what), ex in last.items():
        val = ex[4]
        kind = {0: "cell", 1: "surface"}.get(bi)
        if bi == 2:
            kind = "material" if what[0] == "fraction" else "transform"
        cid_now = cid
        # the card id recorded at edit time may have been renumbered later
        idx = exps.index(ex)
        for later in exps[idx + 1:]:
            if later[0] == "renumber" and later[1] == kind and later[2] == cid_now:
                cid_now = later[3]
        prefix = "" if bi < 2 else ("M" if kind == "material" else "TR")
        card = _find_card(blocks, bi, cid_now, prefix)
        if card is None:
            return {"edit": list(map(str, ex)), "why": "card not found"}
        try:
            if what[0] == "constant":
                s = spec.parse_surface(card)
                got = s["constants"][what[1]]
            elif what[0] == "density":
                c = spec.parse_cell(card)
                got = abs(c["density"]) if c["density"] is not None else None
                if c["density"] is not None and ((c["density"] < 0) == bool(what[1])) and val != 0:
                    return {"edit": list(map(str, ex)), "why": "density sign does not match atom/mass", "card": card.text}
            elif what[0] == "material":
                got = spec.parse_cell(card)["material"]
            elif what[0] == "vol":
                c = spec.parse_cell(card)
                if "VOL" in c["params"]:
                    got = spec.expand_shortcuts(c["params"]["VOL"])[0]
                else:
                    continue      # written in the data block: C09's business
            elif what[0] == "imp":
                c = spec.parse_cell(card)
                got = None
                for key, v in c["params"].items():
                    if key.startswith("IMP:") and what[1].upper() in key[4:].split(","):
                        got = spec.expand_shortcuts(v)[0]
                if got is None:
                    continue      # data block
            elif what[0] == "fraction":
                toks = spec.tokens(card.text)[1:]
                nums = [t for t in toks if "=" not in t]
                got = spec.read_number(nums[2 * what[1] + 1])
            elif what[0] == "displacement":
                toks = spec.expand_shortcuts(spec.tokens(card.text)[1:])
                got = toks[what[1]]
            else:
                continue
        except Exception as e:
            return {"edit": list(map(str, ex)), "why": "oracle could not read the card: %r" % e, "card": card.text}
        if got is None or not spec.close(float(got), float(val)):
            return {"edit": list(map(str, ex)), "why": "written value differs", "got": str(got), "card": card.text}
    return None


# ----------------------------------------------------------------------------- C19
def c19_check(case, prog):
    W = case["width"]
    try:
        pr = mp.read_problem(case["text"], version=VERS[W])
        with warnings.catch_warnings():
            warnings.simplefilter("ignore")
            ED.apply_program(pr, prog)
        g1 = mp.write_problem(pr, "g1.i", VERS[W])
    except Exception:
        return None
    # writing twice
    g1b = mp.write_problem(pr, "g1b.i", VERS[W])
    if g1b != g1:
        return {"kind": "second-write-differs", "diff": first_diff(g1, g1b)}
    # observations interleaved with the edits
    pr2 = mp.read_problem(case["text"], version=VERS[W])

    def observe(p, i):
        with warnings.catch_warnings():
            warnings.simplefilter("ignore")
            def quiet(f, x):
                try:
                    f(x)
                except Exception:
                    pass      # a str()/repr() that raises is not C19's business; one that mutates is
            for c in p.cells:
                quiet(str, c); quiet(repr, c)
                try:
                    c.format_for_mcnp_input(VERS[W])
                except Exception:
                    pass
            for s in p.surfaces:
                quiet(str, s); quiet(repr, s)
                try:
                    s.format_for_mcnp_input(VERS[W])
                except Exception:
                    pass
            for d in p.data_inputs:
                quiet(str, d); quiet(repr, d)
                try:
                    d.format_for_mcnp_input(VERS[W])
                except Exception:
                    pass
            if i % 2 == 0:
                mp.write_problem(p, "obs.i", VERS[W])
    try:
        observe(pr2, 0)
        with warnings.catch_warnings():
            warnings.simplefilter("ignore")
            ED.apply_program(pr2, prog, observe=observe)
        g1c = mp.write_problem(pr2, "g1c.i", VERS[W])
    except Exception as e:
        return {"kind": "observation-broke-the-problem", "error": type(e).__name__, "msg": str(e)[:200]}
    if g1c != g1:
        return {"kind": "observation-changed-output", "diff": first_diff(g1, g1c)}
    # generations
    try:
        pr3 = mp.read_problem(g1, "g1in.i", version=VERS[W])
        g2 = mp.write_problem(pr3, "g2.i", VERS[W])
    except Exception as e:
        return {"kind": "own-output-not-readable", "error": type(e).__name__, "msg": str(e)[:300]}
    if g2 != g1:
        return {"kind": "generation-drift", "diff": first_diff(g1, g2)}
    return None


def first_diff(a, b):
    la, lb = a.split("\n"), b.split("\n")
    for i, (x, y) in enumerate(zip(la, lb)):
        if x != y:
            return {"line": i + 1, "first": x, "second": y}
    return {"line": min(len(la), len(lb)) + 1, "first_len": len(la), "second_len": len(lb)}


# ----------------------------------------------------------------------------- shrinking
def shrink_text(case, failing):
    """delta debugging over whole cards (keeps block structure)"""
    cur = dict(case)
    changed = True
    while changed:
        changed = False
        sp = spec.split_file(cur["text"], cur["width"])
        lines = cur["text"].split("\n")
        # try removing one card (all its physical lines) at a time
        cards = []
        for b in sp["blocks"]:
            for c in b:
                cards.append(c.lines)
        for cl in cards:
            cand_lines = list(lines)
            # remove the first occurrence of this run of lines
            for i in range(len(cand_lines) - len(cl) + 1):
                if [l[:cur["width"]].rstrip("\r") for l in cand_lines[i:i + len(cl)]] == cl or cand_lines[i:i + len(cl)] == cl:
                    del cand_lines[i:i + len(cl)]
                    break
            else:
                continue
            cand = dict(cur, text="\n".join(cand_lines))
            try:
                if failing(cand):
                    cur = cand
                    changed = True
                    break
            except Exception:
                pass
    return cur
