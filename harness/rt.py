"""rt.py — round-trip oracles on the real MontePy shared by C01, C03, C07, C19
(judged by spec.py, the independent MCNP-rules reader)."""
import re
import warnings
from fractions import Fraction

import edits as ED
import gen
import mp
import spec

VERS = {128: (6, 2, 0), 80: (5, 1, 60)}


def gen_case(rng, width=None, wild=False, opts=None, decorate_p=0.0):
    width = width or rng.choice([128, 128, 80])
    P = gen.gen_problem(rng, opts)
    L = gen.layout_opts(rng, wild=wild, width=min(width, 100))
    L["width"] = min(L["width"], width)
    if decorate_p and rng.random() < 0.3:
        L["width"] = width        # lines filled up to the column limit: an edit that lengthens one must re-wrap it
        L["dollar"] = max(L["dollar"], 0.3)
    text = gen.render(rng, P, L)
    feats = []
    if decorate_p:
        text, feats = decorate(rng, text, width, decorate_p, L["eol"])
    return {"text": text, "width": width, "meta": jsonable_meta(P["meta"]), "features": feats,
            "layout": {k: v for k, v in L.items() if k in ("seps", "breaks", "case", "eq", "tabs", "amp")}}


def decorate(rng, text, width, p, eol="\n"):
    """layout features of valid MCNP files that gen.render does not produce: C comment lines at the end of a block,
    text after the blank line that ends the data block (MCNP ignores it), characters beyond the column limit
    (MCNP ignores them).  -> (text, [feature names])"""
    lines = text.split(eol)
    feats = []
    # block boundaries: indices of the blank lines after the title (message block aware)
    i = 0
    if lines and lines[0].upper().startswith("MESSAGE:"):
        while i < len(lines) and lines[i].strip():
            i += 1
        i += 1
    i += 1
    blanks = [k for k in range(i, len(lines)) if not lines[k].strip()][:3]
    if len(blanks) == 3:
        ins = []
        for bi, k in enumerate(blanks):
            if rng.random() < p:
                ins.append((k, rng.choice(["c end of block comment", "C", "c     the last line of this block"])))
                feats.append("block-end-comment-%d" % bi)
        for k, txt in reversed(ins):
            lines.insert(k, txt)
        if rng.random() < p:
            # everything after the blank line that ends the data block
            end = [k for k in range(i, len(lines)) if not lines[k].strip()][2]
            tail = rng.choice([["nps 77"], ["this text is ignored by MCNP"], ["c a comment after the end", "imp:n 9 9 9"],
                               ["m99 1001.80c 1.0", "", "more ignored text"]])
            lines = lines[:end + 1] + tail + [""]
            feats.append("text-after-data-block")
    if rng.random() < p + 0.15:
        # '$' comments directly after the value of a cell parameter at the end of a line, and after the value that an
        # interpolate shortcut ends in (the padding of a node that edits and placement changes have to carry along)
        n = 0
        for k in range(i, len(lines)):
            l = lines[k]
            if "$" in l or "&" in l or "\t" in l or len(l) > width - 12 or spec.is_comment_line(l) or not l.strip():
                continue
            if re.search(r"(?i)(^|\s)(vol|u)\s*=\s*[-+.\dEe]+\s*$", l) and rng.random() < 0.5:
                lines[k] = l.rstrip() + " $ note"
                n += 1
            elif re.search(r"(?i)\s\d*i(log)?\s+[-+.\dEe]+\s*$", l) and rng.random() < 0.6:
                lines[k] = l.rstrip() + " $ a plane"
                n += 1
        if n:
            feats.append("comment-after-value")
    if rng.random() < p:
        # junk beyond the column limit on a few data lines (not on comment lines: a comment is all junk anyway)
        n = 0
        for k in range(i, len(lines)):
            l = lines[k]
            if l.strip() and len(l.expandtabs(8)) <= width and "\t" not in l and rng.random() < 0.3 \
                    and not spec.is_comment_line(l):
                lines[k] = l + " " * (width - len(l)) + rng.choice(["X", "99", "junk beyond the limit", "$ x", "&"])
                n += 1
        if n:
            feats.append("beyond-column-limit")
    return eol.join(lines), feats


def jsonable_meta(m):
    out = {}
    for k, v in m.items():
        if k in ("geoms",):
            continue
        if isinstance(v, dict):
            out[k] = {str(a): b for a, b in v.items()}
        else:
            out[k] = v
    return out


def meta_int_keys(m):
    """undo the str() of dict keys done for JSON"""
    out = dict(m)
    for k in ("surface_constants", "universes", "fills", "imps", "vols", "material_zaids", "material_laws",
              "surface_interpolated", "tr_rotation_entries", "tr_flag"):
        if k in out and isinstance(out[k], dict):
            out[k] = {int(a): b for a, b in out[k].items()}
    return out


# ----------------------------------------------------------------------------- C01
def c01_check(case):
    """unedited read -> write denotes the same problem.  -> None | failure dict"""
    W = case["width"]
    try:
        pr = mp.read_problem(case["text"], version=VERS[W])
    except Exception as e:
        return {"kind": "read-failed", "error": type(e).__name__, "msg": str(e)[:300]}
    try:
        out = mp.write_problem(pr, "c01.i", VERS[W])
    except Exception as e:
        return {"kind": "write-failed", "error": type(e).__name__, "msg": str(e)[:300]}
    diffs = spec.compare_files(case["text"], out, W, W, check_comments=False)
    diffs += compare_comments(case["text"], out, W)
    if diffs:
        return {"kind": "denotation-differs", "diffs": [[str(x)[:300] for x in d] for d in diffs[:3]]}
    sp = spec.split_file(out, W)
    blocks = sp["blocks"] + [[]] * (3 - len(sp["blocks"]))
    if any(l.strip() for l in sp["trailing"]):
        return {"kind": "text-after-data-block", "trailing": sp["trailing"][:3]}
    for l in out.split("\n"):
        if len(l) > W:
            return {"kind": "line-too-long", "line": l}
    return None


def _cwords(comments):
    return " ".join(comments).split()


def compare_comments(text_a, text_b, W):
    """comments of the two files, block by block.  A comment that the writer had to wrap is the same comment
    (its words in the same order: the markers, indentation and blanks at the break points do not count); which
    card a comment line between two cards belongs to is a convention of the reader, so the comparison is by
    block; the order of the comments inside one card is not part of the property (cell parameters may be
    regrouped).  -> list of differences in the format of spec.compare_files"""
    A = spec.split_file(text_a, W)
    B = spec.split_file(text_b, W)
    ba = A["blocks"] + [[]] * (3 - len(A["blocks"]))
    bb = B["blocks"] + [[]] * (3 - len(B["blocks"]))
    out = []
    for bi in range(3):
        xa = [t for c in ba[bi] for t in spec.comments_of(c)]
        xb = [t for c in bb[bi] for t in spec.comments_of(c)]
        if _cwords(xa) == _cwords(xb):
            continue
        if len(ba[bi]) == len(bb[bi]) and all(sorted(_cwords(spec.comments_of(x))) == sorted(_cwords(spec.comments_of(y)))
                                             for x, y in zip(ba[bi], bb[bi])):
            continue
        if sorted(_cwords(xa)) == sorted(_cwords(xb)):
            out.append(("comment-order", bi, xa[:8], xb[:8]))
        else:
            wa, wb = _cwords(xa), _cwords(xb)
            out.append(("comments", bi, [t for t in xa if t not in xb][:5], [t for t in xb if t not in xa][:5],
                        len(xa), len(xb)))
    return out


# ----------------------------------------------------------------------------- denotation (C03)
# What a file *means* under MCNP's rules, in a form on which an API edit has an obvious reference effect.
# Per-cell data (IMP:x VOL U FILL LAT) are merged into the cell records whether they were written as cell
# parameters or as data-block vectors (which block they are written in is C09's business, not C03's).
_VEC = re.compile(r"^\*?(IMP):(.+)$|^(VOL|U|FILL|LAT)$")
_NUMBERED = re.compile(r"^(\*?)(MT|M|TR)(\d+)$")


class Unreadable(Exception):
    pass


def _val(x):
    """expanded entry -> Fraction | None (jump / absent) | str"""
    if x == "J":
        return None
    return x


def denote(text, W):
    sp = spec.split_file(text, W)
    b = sp["blocks"] + [[]] * (3 - len(sp["blocks"]))
    D = {"title": sp["title"].rstrip(), "message": [l.rstrip() for l in (sp["message"] or [])],
         "cells": [], "surfaces": [], "data": [], "trailing": [l for l in sp["trailing"] if l.strip()]}
    for card in b[0]:
        try:
            c = spec.parse_cell(card)
        except Exception as e:
            raise Unreadable("cell card %r: %s" % (card.text, e))
        rec = {"number": c["number"], "material": c["material"], "density": c["density"], "geom": c["geom"],
               "imp": {}, "vol": None, "u": None, "fill": None, "lat": None, "other": {}, "text": card.text}
        for k, v in c["params"].items():
            vals = [_val(x) for x in spec.expand_shortcuts(v)]
            K = k.upper()
            m = _VEC.match(K)
            if m and m.group(1):
                for part in m.group(2).split(","):
                    rec["imp"][part] = vals[0] if vals else None
            elif m and not K.startswith("*"):
                key = m.group(3).lower()
                rec[key] = vals[0] if len(vals) == 1 else (vals or None)
            else:
                rec["other"][K] = vals
        D["cells"].append(rec)
    for card in b[1]:
        try:
            s = spec.parse_surface(card)
        except Exception as e:
            raise Unreadable("surface card %r: %s" % (card.text, e))
        s["text"] = card.text
        D["surfaces"].append(s)
    ncell = len(D["cells"])
    for card in b[2]:
        toks = []
        for t in spec.tokens(card.text):
            toks += [x for x in re.split(r"([()])", t) if x]
        if not toks:
            continue
        name = toks[0]
        m = _VEC.match(name)
        if m and not (m.group(3) == "VOL" and len(toks) > 1 and toks[1] == "NO"):
            vals = [_val(x) for x in spec.expand_shortcuts(toks[1:])]
            vals = vals + [None] * (ncell - len(vals))
            if len(vals) > ncell:
                D["data"].append({"kind": "OTHER", "name": name + "(too many entries)", "values": vals})
                continue
            for rec, v in zip(D["cells"], vals):
                if v is None:
                    continue
                if m.group(1):
                    for part in m.group(2).split(","):
                        rec["imp"][part] = v
                else:
                    rec[m.group(3).lower()] = v
            continue
        mn = _NUMBERED.match(name)
        if mn and mn.group(2) == "M":
            body = toks[1:]
            pairs = []
            kw = []
            k = 0
            while k + 1 < len(body) and spec.read_number(body[k + 1]) is not None and "=" not in body[k]:
                pairs.append([body[k], spec.read_number(body[k + 1])])
                k += 2
            D["data"].append({"kind": "M", "number": int(mn.group(3)), "pairs": pairs, "rest": body[k:]})
        elif mn and mn.group(2) == "MT":
            D["data"].append({"kind": "MT", "number": int(mn.group(3)), "laws": toks[1:]})
        elif mn and mn.group(2) == "TR":
            D["data"].append({"kind": "TR", "number": int(mn.group(3)), "star": mn.group(1) == "*",
                              "values": [_val(x) for x in spec.expand_shortcuts(toks[1:])]})
        elif name == "MODE":
            D["data"].append({"kind": "MODE", "particles": toks[1:]})
        else:
            D["data"].append({"kind": "OTHER", "name": name, "values": spec.expand_shortcuts(toks[1:])})
    for rec in D["cells"]:
        for k in ("u", "fill"):
            if isinstance(rec[k], Fraction) and rec[k] == 0:
                rec[k] = None
    return D


def _same(a, b):
    if a is None or b is None:
        return a is None and b is None
    if isinstance(a, list) or isinstance(b, list):
        return isinstance(a, list) and isinstance(b, list) and len(a) == len(b) and all(_same(x, y) for x, y in zip(a, b))
    if isinstance(a, (int, float, Fraction)) and isinstance(b, (int, float, Fraction)):
        return spec.close(Fraction(a), Fraction(b))
    return a == b


def _show(x):
    if isinstance(x, Fraction):
        return repr(float(x))
    if isinstance(x, list):
        return "[" + ", ".join(_show(y) for y in x) + "]"
    return str(x)


def denote_diff(want, got):
    """differences between two denotations -> list of [where, what, wanted, got]"""
    out = []
    if want["title"] != got["title"]:
        out.append(["title", "text", want["title"], got["title"]])
    if [re.sub(r"\s+", " ", x).strip().upper() for x in want["message"]] != \
            [re.sub(r"\s+", " ", x).strip().upper() for x in got["message"]]:
        out.append(["message", "text", want["message"], got["message"]])
    if len(want["cells"]) != len(got["cells"]):
        out.append(["cells", "count", len(want["cells"]), len(got["cells"])])
    for a, b in zip(want["cells"], got["cells"]):
        where = "cell %s" % a["number"]
        for k in ("number", "material", "density", "vol", "u", "fill", "lat"):
            if not _same(a[k], b[k]):
                out.append([where, k, _show(a[k]), _show(b[k]), b["text"]])
        if (a["geom"] is None) != (b["geom"] is None) or (a["geom"] is not None and not spec.geom_equal(a["geom"], b["geom"])):
            out.append([where, "geometry", str(a["geom"])[:200], b["text"]])
        for part in sorted(set(a["imp"]) | set(b["imp"])):
            if not _same(a["imp"].get(part), b["imp"].get(part)):
                out.append([where, "imp:" + part.lower(), _show(a["imp"].get(part)), _show(b["imp"].get(part)), b["text"]])
        for k in sorted(set(a["other"]) | set(b["other"])):
            if not _same(a["other"].get(k), b["other"].get(k)):
                out.append([where, "parameter " + k, _show(a["other"].get(k)), _show(b["other"].get(k)), b["text"]])
    if len(want["surfaces"]) != len(got["surfaces"]):
        out.append(["surfaces", "count", len(want["surfaces"]), len(got["surfaces"])])
    for a, b in zip(want["surfaces"], got["surfaces"]):
        where = "surface %s" % a["number"]
        for k in ("number", "modifier", "pointer", "mnemonic"):
            if a[k] != b[k]:
                out.append([where, k, a[k], b[k], b["text"]])
        if not _same(a["constants"], b["constants"]):
            out.append([where, "constants", _show(a["constants"]), _show(b["constants"]), b["text"]])
    if len(want["data"]) != len(got["data"]):
        out.append(["data", "count", [_dname(d) for d in want["data"]], [_dname(d) for d in got["data"]]])
    for a, b in zip(want["data"], got["data"]):
        where = "data " + _dname(a)
        if a["kind"] != b["kind"]:
            out.append([where, "kind", _dname(a), _dname(b)])
            continue
        for k in a:
            if k == "pairs":
                if len(a[k]) != len(b[k]) or any(x[0] != y[0] or not _same(x[1], y[1]) for x, y in zip(a[k], b[k])):
                    out.append([where, k, _show([[z, _show(f)] for z, f in a[k]]), _show([[z, _show(f)] for z, f in b[k]])])
            elif not _same(a[k], b.get(k)):
                out.append([where, k, _show(a[k]), _show(b.get(k))])
    if got["trailing"]:
        out.append(["after the data block", "text", "", got["trailing"][:3]])
    return out


def _dname(d):
    if d["kind"] in ("M", "MT", "TR"):
        return ("*" if d.get("star") else "") + d["kind"] + str(d["number"])
    if d["kind"] == "MODE":
        return "MODE"
    return d["name"]


class Ref:
    """the reference effect of an edit program on a denotation (objects addressed by their ORIGINAL numbers,
    like edits.Handles)"""

    def __init__(self, D):
        import copy
        self.D = copy.deepcopy(D)
        self.cells = {c["number"]: c for c in self.D["cells"]}
        self.surfaces = {s["number"]: s for s in self.D["surfaces"]}
        self.mats = {d["number"]: d for d in self.D["data"] if d["kind"] == "M"}
        self.mts = {d["number"]: d for d in self.D["data"] if d["kind"] == "MT"}
        self.trs = {d["number"]: d for d in self.D["data"] if d["kind"] == "TR"}

    def apply(self, e):
        k = e["kind"]
        D = self.D
        if k == "cell_number":
            c = self.cells[e["orig"]]
            old = c["number"]
            c["number"] = e["new"]
            for x in D["cells"]:
                if x["geom"] is not None:
                    x["geom"] = spec.geom_rename(x["geom"], {("c", old): e["new"]})
        elif k == "surface_number":
            s = self.surfaces[e["orig"]]
            old = s["number"]
            s["number"] = e["new"]
            for x in D["cells"]:
                if x["geom"] is not None:
                    x["geom"] = spec.geom_rename(x["geom"], {("s", old): e["new"]})
            for x in D["surfaces"]:
                if x["pointer"] is not None and x["pointer"] == -old:
                    x["pointer"] = -e["new"]
        elif k == "material_number":
            m = self.mats[e["orig"]]
            old = m["number"]
            m["number"] = e["new"]
            if e["orig"] in self.mts:
                self.mts[e["orig"]]["number"] = e["new"]
            for x in D["cells"]:
                if x["material"] == old:
                    x["material"] = e["new"]
        elif k == "transform_number":
            t = self.trs[e["orig"]]
            old = t["number"]
            t["number"] = e["new"]
            for x in D["surfaces"]:
                if x["pointer"] is not None and x["pointer"] == old:
                    x["pointer"] = e["new"]
        elif k == "universe_number":
            old = self._universe_now(e["orig"])
            self._uren = getattr(self, "_uren", {})
            self._uren[e["orig"]] = e["new"]
            def ren(v):
                if isinstance(v, Fraction) and abs(v) == old:
                    return Fraction(e["new"]) * (1 if v > 0 else -1)
                return v
            for x in D["cells"]:
                for key in ("u", "fill"):
                    v = x[key]
                    # a lattice fill array: the entries after the three index ranges are universe numbers
                    x[key] = [ren(y) for y in v] if isinstance(v, list) else ren(v)
        elif k == "surface_constant":
            self.surfaces[e["orig"]]["constants"][e["index"]] = Fraction(e["value"])
        elif k == "density":
            c = self.cells[e["orig"]]
            mag = abs(c["density"]) if e["value"] == "same" else Fraction(e["value"])     # "same": the number it has now
            c["density"] = mag * (1 if e["atom"] else -1)
        elif k == "importance":
            self.cells[e["orig"]]["imp"][e["particle"].upper()] = Fraction(e["value"])
        elif k == "volume":
            self.cells[e["orig"]]["vol"] = Fraction(e["value"])
        elif k == "title":
            D["title"] = e["value"]
        elif k == "fraction":
            # the API takes the magnitude; a material given in mass fractions (negative values) stays one
            pairs = self.mats[e["orig"]]["pairs"]
            mass = any(p[1] < 0 for p in pairs)
            pairs[e["index"]][1] = -Fraction(e["value"]) if mass else Fraction(e["value"])
        elif k == "tr_displacement":
            self.trs[e["orig"]]["values"][e["index"]] = Fraction(e["value"])
        elif k == "material_assign":
            self.cells[e["orig"]]["material"] = self.mats[e["material"]]["number"]
        elif k == "cell_universe":
            self.cells[e["orig"]]["u"] = Fraction(self._universe_now(e["universe"]))
        elif k == "fill_universe":
            self.cells[e["orig"]]["fill"] = Fraction(self._universe_now(e["universe"]))
        elif k == "lattice":
            self.cells[e["orig"]]["lat"] = Fraction(e["value"])
        elif k == "boundary":
            if e.get("how") != "noop":
                self.surfaces[e["orig"]]["modifier"] = {"reflecting": "*", "white": "+", "none": ""}[e["value"]]
        elif k == "tr_main_to_aux":
            self.trs[e["orig"]]["values"][12] = Fraction(1 if e["value"] else -1)
        elif k == "thermal_law":
            self.mts[e["orig"]]["laws"] = [x.upper() for x in e["laws"]]
        elif k == "tr_degrees":
            self.trs[e["orig"]]["star"] = bool(e["value"])
        elif k == "tr_rotation":
            t = self.trs[e["orig"]]
            old_n = max(0, min(9, len(t["values"]) - 3))
            # a matrix of fewer than 9 entries cannot be followed by the direction flag (it would be read as an entry of
            # the matrix); such an edit is only applied to a transform whose flag is +1, which need not be written
            tail = t["values"][3 + old_n:] if len(e["matrix"]) == 9 else []
            t["values"] = t["values"][:3] + [Fraction(x) for x in e["matrix"]] + tail
        elif k == "data_append":
            toks = spec.tokens(e["text"])
            D["data"].append({"kind": "OTHER", "name": toks[0], "values": spec.expand_shortcuts(toks[1:])})
        elif k == "placement":
            pass              # which block per-cell data are written in does not change what the file denotes
        elif k == "surface_transform":
            self.surfaces[e["orig"]]["pointer"] = None if e["transform"] is None else self.trs[e["transform"]]["number"]
        else:
            raise ValueError(k)

    def _universe_now(self, orig):
        return getattr(self, "_uren", {}).get(orig, orig)


def _prepare(case, prog):
    """-> (U, E, applied, exps) or a failure dict or None (not this family's business)"""
    W = case["width"]
    try:
        pr0 = mp.read_problem(case["text"], version=VERS[W])
        U = mp.write_problem(pr0, "u.i", VERS[W])
        pr1 = mp.read_problem(case["text"], version=VERS[W])
    except Exception:
        return None       # reading/writing unedited is C01/C12's business
    try:
        with warnings.catch_warnings():
            warnings.simplefilter("ignore")
            applied, exps = ED.apply_program(pr1, prog)
    except ED.Inapplicable:
        return None
    except Exception as e:
        return {"kind": "valid-edit-rejected", "error": type(e).__name__, "msg": str(e)[:300]}
    try:
        E = mp.write_problem(pr1, "e.i", VERS[W])
    except Exception as e:
        return {"kind": "write-after-edit-failed", "error": type(e).__name__, "msg": str(e)[:300]}
    return U, E, applied, exps


def c03_check(case, prog):
    """the edited write denotes the unedited write with exactly the edits applied.  -> None | failure dict"""
    W = case["width"]
    r = _prepare(case, prog)
    if r is None or isinstance(r, dict):
        return r
    U, E, applied, exps = r
    try:
        DU = denote(U, W)
    except Exception:
        return None       # the oracle cannot read the unedited write: C01's business
    ref = Ref(DU)
    try:
        for e in applied:
            ref.apply(e)
    except (KeyError, IndexError):
        return None       # the program does not fit this text (shrunk away): not a verdict
    try:
        DE = denote(E, W)
    except Exception as e:
        return {"kind": "edited-file-unreadable", "error": type(e).__name__, "msg": str(e)[:200], "diffs": [["file", "unreadable"]]}
    diffs = denote_diff(ref.D, DE)
    if diffs:
        return {"kind": "edit-not-written-exactly", "diffs": [[str(x)[:300] for x in d] for d in diffs[:4]],
                "n_diffs": len(diffs)}
    if len(applied) >= 2:
        # the same program with the problem written after every edit: the file written at the end must still denote
        # the original problem with ALL the edits (an edit made after a write must not be lost)
        try:
            pr2 = mp.read_problem(case["text"], version=VERS[W])
            with warnings.catch_warnings():
                warnings.simplefilter("ignore")
                ED.apply_program(pr2, prog, observe=lambda p_, i_: mp.write_problem(p_, "mid.i", VERS[W]))
            E2 = mp.write_problem(pr2, "e2.i", VERS[W])
            DE2 = denote(E2, W)
        except Exception as e:
            return {"kind": "write-between-edits-failed", "error": type(e).__name__, "msg": str(e)[:300]}
        diffs = denote_diff(ref.D, DE2)
        if diffs:
            return {"kind": "edit-lost-after-intermediate-write",
                    "diffs": [[str(x)[:300] for x in d] for d in diffs[:4]], "n_diffs": len(diffs)}
    return None


# ----------------------------------------------------------------------------- C07
_CELLMOD_CARD = re.compile(r"^\*?(IMP:|VOL\b|U\b|LAT\b|FILL\b)", re.I)
_CELL_EDITS = {"cell_number", "density", "importance", "volume", "material_assign", "universe_number",
               "cell_universe", "fill_universe", "lattice", "placement"}


def _norm_lines(card):
    return [l.rstrip().upper() for l in card.lines]


def _first(card):
    t = spec.tokens(card.text)
    return t[0] if t else ""


def _refs_number(tokens_, numbers, bi):
    """does the card mention one of the numbers (as surface/cell/material/transform/universe reference)?"""
    for t in tokens_[1:]:
        m = re.match(r"^[#+-]?(\d+)$", t)
        if m and int(m.group(1)) in numbers:
            return True
    return False


_OWN = {"cell_number": "cell", "density": "cell", "importance": "cell", "volume": "cell", "material_assign": "cell",
        "cell_universe": "cell", "fill_universe": "cell", "lattice": "cell",
        "surface_number": "surface", "surface_constant": "surface", "boundary": "surface",
        "surface_transform": "surface",
        "material_number": "material", "fraction": "material", "thermal_law": "material",
        "transform_number": "transform", "tr_displacement": "transform", "tr_degrees": "transform",
        "tr_rotation": "transform", "tr_main_to_aux": "transform"}


def touched_cards(bu, applied, exps=None):
    """DESIGN §6 C07: the cards an edit program may change: the edited object's own card, cards that refer by
    number to a renumbered object, data-block cards that list per-cell data when a cell (or a universe number)
    is edited.  The unedited write carries the ORIGINAL numbers, by which the edits address objects.
    -> set of (block, index)"""
    touched = set()
    own = {(_OWN[e["kind"]], e["orig"]) for e in applied if e["kind"] in _OWN}
    ren = {}
    for e in applied:
        if e["kind"].endswith("_number"):
            ren.setdefault(e["kind"][:-7], set()).add(e["orig"])
    cell_edit = any(e["kind"] in _CELL_EDITS for e in applied)
    placement = any(e["kind"] == "placement" for e in applied)
    in_cells = ren.get("surface", set()) | ren.get("cell", set()) | ren.get("material", set()) | ren.get("universe", set())
    in_surfs = ren.get("transform", set()) | ren.get("surface", set())
    for bi in range(3):
        for ci, card in enumerate(bu[bi]):
            toks = spec.tokens(card.text, cell_geometry=(bi == 0))
            if not toks:
                continue
            head = toks[0]
            m = re.match(r"^([*+]?)([A-Z]*)(\d+)$", head)
            num = int(m.group(3)) if m else None
            if bi == 0 and (("cell", num) in own or placement):
                touched.add((bi, ci))      # moving per-cell data between the blocks rewrites every cell card
            if bi == 1 and ("surface", num) in own:
                touched.add((bi, ci))
            if bi == 2 and m and m.group(2) in ("M", "MT") and ("material", num) in own:
                touched.add((bi, ci))
            if bi == 2 and m and m.group(2) == "TR" and ("transform", num) in own:
                touched.add((bi, ci))
            if bi == 0 and in_cells and _refs_number(toks, in_cells, bi):
                touched.add((bi, ci))
            if bi == 1 and in_surfs and _refs_number(toks[:2], in_surfs, bi):
                touched.add((bi, ci))
            if bi == 2 and _CELLMOD_CARD.match(head) and cell_edit:
                touched.add((bi, ci))
    return touched


def _tok_ok(t):
    """a token of a numeric list that is well formed (a number, a shortcut, a jump)"""
    return spec.read_number(t) is not None or spec._SC.match(t) is not None


def original_spelling(text, U, W):
    """'Inputs that were not edited are written with their original spelling (compared case-insensitively), in
    their original order': the unedited write against the FILE THAT WAS READ, token by token.  The data block is
    compared as a multiset of cards (its order is C01's finding F-C01-data-card-order).  -> None | failure dict"""
    si = spec.split_file(text, W)
    su = spec.split_file(U, W)
    bi_ = si["blocks"] + [[]] * (3 - len(si["blocks"]))
    bu = su["blocks"] + [[]] * (3 - len(su["blocks"]))
    for b in range(3):
        ti = [spec.tokens(c.text, cell_geometry=(b == 0)) for c in bi_[b]]
        tu = [spec.tokens(c.text, cell_geometry=(b == 0)) for c in bu[b]]
        if b == 0:
            # cell parameters may be regrouped (the IMP entries of a cell are written together): the part before
            # the parameters in order, the parameters as a set of (key, values)
            ti = [(t[:_param_start(t)], sorted(_params(t[_param_start(t):]).items())) for t in ti]
            tu = [(t[:_param_start(t)], sorted(_params(t[_param_start(t):]).items())) for t in tu]
        if b == 2:
            ki, ku = sorted(map(repr, ti)), sorted(map(repr, tu))
            if ki != ku:
                miss = [x for x in ti if repr(x) not in ku]
                extra = [x for x in tu if repr(x) not in ki]
                return {"kind": "untouched-token-respelled", "where": "unedited write vs the file read, data block",
                        "before": " ".join(miss[0]) if miss else "", "after": " ".join(extra[0]) if extra else "",
                        "diffs": [["block 2", "spelling"]]}
            continue
        if len(ti) != len(tu):
            return None       # card count: C01's business
        for x, y in zip(ti, tu):
            if x != y:
                return {"kind": "untouched-token-respelled", "where": "unedited write vs the file read",
                        "before": str(x)[:300], "after": str(y)[:300], "diffs": [["block %d" % b, "spelling"]]}
    return None


def c07_check(case, prog):
    """edited write vs unedited write, card by card, as TEXT, and the unedited write vs the file that was read,
    token by token.  -> None | failure dict"""
    W = case["width"]
    r = _prepare(case, prog)
    if r is None or isinstance(r, dict):
        return None       # rejected edits / failing writes are C03's business
    U, E, applied, exps = r
    r0 = original_spelling(case["text"], U, W)
    if r0:
        return r0
    if any(e["kind"] == "placement" for e in applied):
        # print_in_data_block is an output setting, not an edit of an object: the edited write is compared with the
        # write of the unedited problem under the SAME setting, and the setting itself touches no input
        try:
            pr2 = mp.read_problem(case["text"], version=VERS[W])
            with warnings.catch_warnings():
                warnings.simplefilter("ignore")
                ED.apply_program(pr2, [e for e in applied if e["kind"] == "placement"])
            U = mp.write_problem(pr2, "u2.i", VERS[W])
        except Exception:
            return None
        applied = [e for e in applied if e["kind"] != "placement"]
        exps = [x for x in exps if x[0] != "placement"]
    su = spec.split_file(U, W)
    se = spec.split_file(E, W)
    if not any(ex[0] == "title" for ex in exps) and su["title"] != se["title"]:
        return {"kind": "title-changed", "before": su["title"], "after": se["title"], "diffs": [["title"]]}
    if (su["message"] or []) != (se["message"] or []):
        return {"kind": "message-changed", "diffs": [["message"]]}
    bu = su["blocks"] + [[]] * (3 - len(su["blocks"]))
    be = se["blocks"] + [[]] * (3 - len(se["blocks"]))
    touched = touched_cards(bu, applied, exps)
    cell_edit = any(e["kind"] in _CELL_EDITS for e in applied)
    # comments: every comment of a block is still there, in the same order (a wrapped comment is the same comment;
    # which card a comment line between two cards belongs to is a convention of the reader, so by block)
    for bi in range(3):
        xu = [t for c in bu[bi] for t in spec.comments_of(c)]
        xe = [t for c in be[bi] for t in spec.comments_of(c)]
        if _cwords(xu) != _cwords(xe):
            return {"kind": "comments-changed", "block": bi, "before": [t for t in xu if t not in xe][:5] or xu[:8],
                    "after": [t for t in xe if t not in xu][:5] or xe[:8], "diffs": [["block %d" % bi, "comments"]]}
    # every cell of the edited write lists the same particles in its IMP parameters (MCNP needs an importance per
    # particle of MODE in every cell): an edit of ONE cell's importance that drops a particle from ANOTHER cell's
    # card is not local
    def imp_particles(cards):
        out = []
        for c in cards:
            toks = spec.tokens(c.text, cell_geometry=True)
            parts = set()
            for k in _params(toks[_param_start(toks):]):
                if k.lstrip("*").startswith("IMP:"):
                    parts |= set(k.split(":", 1)[1].split(","))
            out.append((c, parts))
        return out
    pl_u = imp_particles(bu[0])
    all_u = set().union(*[p for _, p in pl_u]) if pl_u else set()
    complete_u = all(not p or p == all_u for _, p in pl_u)       # (a shrunk or odd input may be incomplete itself)
    plists = imp_particles(be[0]) if complete_u else []
    allp = set().union(*[p for _, p in plists]) if plists else set()
    for c, parts in plists:
        if parts and parts != allp:
            return {"kind": "parameter-lost", "before": sorted(allp), "after": c.text, "tokens": sorted(allp - parts),
                    "diffs": [["block 0", _first(c), "importance particles"]]}
    for bi in range(3):
        cu_list = list(enumerate(bu[bi]))
        ce_list = list(be[bi])
        if bi == 2 and cell_edit:
            # data-block cards that list per-cell data may be added, split (particles that no longer share their
            # values) or rebuilt: they are compared as a group, the other cards one to one
            mod_u = [(i, c) for i, c in cu_list if _CELLMOD_CARD.match(_first(c))]
            mod_e = [c for c in ce_list if _CELLMOD_CARD.match(_first(c))]
            cu_list = [(i, c) for i, c in cu_list if not _CELLMOD_CARD.match(_first(c))]
            ce_list = [c for c in ce_list if not _CELLMOD_CARD.match(_first(c))]
            for c in mod_e:
                bad = [t for t in spec.tokens(c.text)[1:] if not _tok_ok(t)]
                if bad:
                    return {"kind": "token-fused", "card": c.text, "token": bad[0], "diffs": [["data", _first(c)]]}
        if len(cu_list) != len(ce_list):
            return {"kind": "card-count-changed", "block": bi, "before": [c.text for _, c in cu_list],
                    "after": [c.text for c in ce_list], "diffs": [["block", bi]]}
        for (ci, cu), ce in zip(cu_list, ce_list):
            if (bi, ci) not in touched:
                if _norm_lines(cu) != _norm_lines(ce):
                    return {"kind": "untouched-card-changed", "before": cu.lines, "after": ce.lines,
                            "diffs": [["block %d" % bi, _first(cu)]]}
                continue
            r2 = _touched_card_check(cu, ce, bi, exps, applied)
            if r2:
                r2["diffs"] = [["block %d" % bi, _first(cu), r2["kind"]]]
                return r2
    return None


def _param_start(toks):
    for i, t in enumerate(toks):
        if i >= 2 and spec._CELL_KEY.match(t) and spec.read_number(t) is None and not spec._SC.match(t):
            return i
    return len(toks)


def _touched_card_check(cu, ce, bi, exps, applied):
    """tokens of an edited card other than the edited ones keep spelling and order; comments are kept"""
    tu = spec.tokens(cu.text, cell_geometry=(bi == 0))
    te = spec.tokens(ce.text, cell_geometry=(bi == 0))
    if tu == te or not tu or not te:
        return None
    head = re.match(r"^([*+]?)([A-Z]*)(\d+)$", tu[0])
    num = int(head.group(3)) if head else None
    mine = [e for e in applied if e.get("orig") == num and _OWN.get(e["kind"]) ==
            ({0: "cell", 1: "surface"}.get(bi) or ("material" if head and head.group(2) in ("M", "MT") else "transform"))]
    # --- the card's own number token: number / boundary modifier / '*' of *TR are edited quantities
    hu, he = tu[0], te[0]
    if hu != he:
        mu = re.match(r"^([*+]?)([A-Z]*)(\d+)$", hu)
        me = re.match(r"^([*+]?)([A-Z]*)(\d+)$", he)
        ok = bool(mu and me and mu.group(2) == me.group(2))
        if ok and mu.group(3) != me.group(3):
            ok = any(e["kind"].endswith("_number") for e in mine)
        if ok and mu.group(1) != me.group(1):
            ok = any(e["kind"] in ("boundary", "tr_degrees") for e in mine)
        if not ok:
            return {"kind": "unexplained-change", "before": cu.text, "after": ce.text, "token": [hu, he]}
    if head and head.group(2) == "MT" and any(e["kind"] == "thermal_law" for e in mine):
        return None          # every other token of the card is the edited list of laws
    if head and head.group(2) == "TR" and any(e["kind"] == "tr_rotation" for e in mine):
        # the rotation matrix (everything after the three displacements) is the edited quantity
        tu, te = tu[:4], te[:4]
    if bi == 1 and any(e["kind"] == "surface_transform" for e in mine):
        # the transform pointer (second token, an integer) is the edited quantity: it may appear, change or go
        if len(tu) > 1 and re.match(r"^[+-]?\d+$", tu[1]):
            tu = tu[:1] + tu[2:]
        if len(te) > 1 and re.match(r"^[+-]?\d+$", te[1]):
            te = te[:1] + te[2:]
    values = [ex[4] for ex in exps if ex[0] == "value"]

    def is_edit_value(tok):
        v = spec.read_number(tok)
        if v is None:
            return False
        return any(isinstance(x, (int, float)) and not isinstance(x, bool)
                   and (spec.close(v, Fraction(x)) or spec.close(abs(v), abs(Fraction(x)))) for x in values)

    def pairwise(a, b):
        for x, y in zip(a, b):
            if x == y:
                continue
            nx, ny = spec.read_number(x), spec.read_number(y)
            if nx is not None and ny is not None and spec.close(nx, ny) and not is_edit_value(y):
                return {"kind": "untouched-token-respelled", "before": cu.text, "after": ce.text, "token": [x, y]}
            if _fused(y):
                return {"kind": "token-fused", "card": ce.text, "token": y}
        return None

    if bi == 0:
        # geometry part token by token; the parameter part may gain a per-cell datum or have an IMP entry split
        pu, pe = _param_start(tu), _param_start(te)
        if pu != pe:
            return {"kind": "token-count-changed", "before": cu.text, "after": ce.text, "tokens": [tu[:pu], te[:pe]]}
        r = pairwise(tu[1:pu], te[1:pe])
        if r:
            return r
        ku, ke = _params(tu[pu:]), _params(te[pe:])
        for key, vals in ke.items():
            if key in ku and len(ku[key]) == len(vals):
                r = pairwise(ku[key], vals)
                if r:
                    return r
        moved = {e["key"].upper() for e in applied if e["kind"] == "placement"}
        lost = [k for k in ku if k not in ke and not k.startswith("IMP:") and k.lstrip("*") not in moved]
        if lost:
            return {"kind": "parameter-lost", "before": cu.text, "after": ce.text, "tokens": lost}
        return None
    if len(tu) == len(te):
        return pairwise(tu[1:], te[1:])
    # the number of tokens changed: allowed inside numeric lists that contain shortcuts (an edit inside a
    # shortcut's range forces its expansion); the expanded lists then have the same length
    if any(spec._SC.match(t) for t in tu[1:]) or any(spec._SC.match(t) for t in te[1:]):
        xu = spec.expand_shortcuts(tu[1:])
        xe = spec.expand_shortcuts(te[1:])
        bad = [t for t in te[1:] if _fused(t)]
        if bad:
            return {"kind": "token-fused", "card": ce.text, "token": bad[0]}
        if len(xu) == len(xe):
            return None
    return {"kind": "token-count-changed", "before": cu.text, "after": ce.text, "tokens": [tu, te]}


def _fused(t):
    """looks like two numbers written without a separator (6.06.58.09, 0R0.5, 2R0.5)"""
    if spec.read_number(t) is not None or spec._SC.match(t):
        return False
    return bool(re.match(r"^[+-]?[\d.]", t)) and not re.match(r"^\d+(\.\d+[A-Z]+)?$", t) and \
        bool(re.search(r"\d*[RIJ][\d.+-]|\.\d*\.|\d[+-]\d+[.]", t))


def _params(toks):
    """parameter part of a cell card -> {KEY: [value tokens]} (':' of IMP:N glued back)"""
    tail = re.sub(r"\s*:\s*", ":", " ".join(toks))
    out = {}
    key = None
    for t in tail.split():
        if spec._CELL_KEY.match(t) and spec.read_number(t) is None and not spec._SC.match(t):
            key = t
            out.setdefault(key, [])
        elif key is not None:
            out[key].append(t)
    return out


# ----------------------------------------------------------------------------- C19
def c19_check(case, prog):
    W = case["width"]
    try:
        pr = mp.read_problem(case["text"], version=VERS[W])
        with warnings.catch_warnings():
            warnings.simplefilter("ignore")
            ED.apply_program(pr, prog)
        g1 = mp.write_problem(pr, "g1.i", VERS[W])
    except Exception:
        return None
    # writing twice
    g1b = mp.write_problem(pr, "g1b.i", VERS[W])
    if g1b != g1:
        return {"kind": "second-write-differs", "diff": first_diff(g1, g1b)}
    # observations interleaved with the edits
    pr2 = mp.read_problem(case["text"], version=VERS[W])

    def observe(p, i):
        with warnings.catch_warnings():
            warnings.simplefilter("ignore")
            def quiet(f, x):
                try:
                    f(x)
                except Exception:
                    pass      # a str()/repr() that raises is not C19's business; one that mutates is
            for c in p.cells:
                quiet(str, c); quiet(repr, c)
                try:
                    c.format_for_mcnp_input(VERS[W])
                except Exception:
                    pass
            for s in p.surfaces:
                quiet(str, s); quiet(repr, s)
                try:
                    s.format_for_mcnp_input(VERS[W])
                except Exception:
                    pass
            for d in p.data_inputs:
                quiet(str, d); quiet(repr, d)
                try:
                    d.format_for_mcnp_input(VERS[W])
                except Exception:
                    pass
            if i % 2 == 0:
                mp.write_problem(p, "obs.i", VERS[W])
    try:
        observe(pr2, 0)
        with warnings.catch_warnings():
            warnings.simplefilter("ignore")
            ED.apply_program(pr2, prog, observe=observe)
        g1c = mp.write_problem(pr2, "g1c.i", VERS[W])
    except Exception as e:
        return {"kind": "observation-broke-the-problem", "error": type(e).__name__, "msg": str(e)[:200]}
    if g1c != g1:
        return {"kind": "observation-changed-output", "diff": first_diff(g1, g1c)}
    # generations
    try:
        pr3 = mp.read_problem(g1, "g1in.i", version=VERS[W])
        g2 = mp.write_problem(pr3, "g2.i", VERS[W])
    except Exception as e:
        return {"kind": "own-output-not-readable", "error": type(e).__name__, "msg": str(e)[:300]}
    if g2 != g1:
        return {"kind": "generation-drift", "diff": first_diff(g1, g2)}
    return None


def first_diff(a, b):
    la, lb = a.split("\n"), b.split("\n")
    for i, (x, y) in enumerate(zip(la, lb)):
        if x != y:
            return {"line": i + 1, "first": x, "second": y}
    return {"line": min(len(la), len(lb)) + 1, "first_len": len(la), "second_len": len(lb)}


# ----------------------------------------------------------------------------- shrinking
def shrink_text(case, failing):
    """delta debugging over whole cards (keeps block structure)"""
    cur = dict(case)
    changed = True
    while changed:
        changed = False
        sp = spec.split_file(cur["text"], cur["width"])
        lines = cur["text"].split("\n")
        # try removing one card (all its physical lines) at a time
        cards = []
        for b in sp["blocks"]:
            for c in b:
                cards.append(c.lines)
        for cl in cards:
            cand_lines = list(lines)
            # remove the first occurrence of this run of lines
            for i in range(len(cand_lines) - len(cl) + 1):
                if [l[:cur["width"]].rstrip("\r") for l in cand_lines[i:i + len(cl)]] == cl or cand_lines[i:i + len(cl)] == cl:
                    del cand_lines[i:i + len(cl)]
                    break
            else:
                continue
            cand = dict(cur, text="\n".join(cand_lines))
            try:
                if failing(cand):
                    cur = cand
                    changed = True
                    break
            except Exception:
                pass
    return cur


def shrink_lines(case, failing, max_rounds=6):
    """second stage of shrinking: removes single physical lines (continuation and comment lines) and then single
    blank-separated words, as long as the case still fails the same way"""
    cur = dict(case)
    eol = "\r\n" if "\r\n" in cur["text"] else "\n"
    for _ in range(max_rounds):
        changed = False
        lines = cur["text"].split(eol)
        i = len(lines) - 1
        while i >= 1:
            if lines[i].strip():
                cand_lines = lines[:i] + lines[i + 1:]
                cand = dict(cur, text=eol.join(cand_lines))
                try:
                    ok = failing(cand)
                except Exception:
                    ok = False
                if ok:
                    lines = cand_lines
                    cur = cand
                    changed = True
            i -= 1
        # words
        lines = cur["text"].split(eol)
        for i in range(len(lines) - 1, 0, -1):
            words = re.split(r"( +)", lines[i])
            j = len(words) - 1
            while j >= 2:
                if words[j].strip() and not spec.is_comment_line(lines[i]) and "fill" not in lines[i].lower():
                    cand_words = words[:j - 1] + words[j + 1:]
                    cand_line = "".join(cand_words)
                    cand = dict(cur, text=eol.join(lines[:i] + [cand_line] + lines[i + 1:]))
                    try:
                        ok = failing(cand)
                    except Exception:
                        ok = False
                    if ok:
                        words = cand_words
                        lines[i] = cand_line
                        cur = cand
                        changed = True
                j -= 2
        if not changed:
            break
    return cur
