"""findings_C14.py — trigger predicates of the C14 findings.

All six findings this check recorded were repaired in /repo (findings/C14.fixed.json; reproducers in
corpus/C14, run first on every run and expected to pass): findings/C14.entries.json is empty and nothing is
attributed to a known finding any more — a recurrence of any of them is a VIOLATION.  The predicates stay as
the definition of what each finding covered (they are what would be listed again if a defect were re-opened).

Each predicate decides from the *case* (problem text, steps before the call, the call and its argument
specification), never from the outcome, and — where there is a triggering feature of the argument —
confirms that the same call without that feature is not a failure."""
import json

_ENV = None


def _env():
    global _ENV
    if _ENV is None:
        import props.C14 as C14
        _ENV = C14.make_env()
    return _ENV


def _call(case):
    c = case.get("case") or {}
    return c, (c.get("call") or {})


def _strings(spec):
    """designators of a Mode.set argument given as str / list / set of str; None when it is not all strings"""
    t = spec.get("t")
    if t == "lit" and isinstance(spec.get("v"), str):
        return spec["v"].split()
    if t in ("list", "set"):
        out = []
        for i in spec["items"]:
            if i.get("t") == "lit" and isinstance(i.get("v"), str):
                out.append(i["v"])
            else:
                return None
        return out
    return None


def _valid_designators():
    import montepy
    return {p.value.upper() for p in montepy.particle.Particle}


def _passes_without(case, new_call):
    """the case with the call replaced: True when it is not a failure (accepted, or rejected cleanly)"""
    import props.C14 as C14
    c = dict(case["case"], call=new_call)
    try:
        d, _ = C14.replay_case(c, _env())
    except Exception:
        return False
    return d is None


def C14_mode_set_clears(case, params):
    """Mode.set / MCNP_Problem.set_mode with strings of which one is not a particle designator"""
    c, call = _call(case)
    if call.get("entry") not in ("Mode.set", "MCNP_Problem.set_mode") or not call.get("args"):
        return False
    names = _strings(call["args"][0])
    if names is None:
        return False
    valid = _valid_designators()
    if all(n.upper() in valid for n in names):
        return False
    good = [n for n in names if n.upper() in valid] or ["n"]
    arg = {"t": "list", "items": [{"t": "lit", "v": n} for n in good]}
    return _passes_without(case, dict(call, args=[arg]))


def C14_density_overflow(case, params):
    """Cell.atom_density / mass_density with an int that float() cannot represent"""
    c, call = _call(case)
    if call.get("entry") not in ("Cell.atom_density", "Cell.mass_density") or not call.get("args"):
        return False
    a = call["args"][0]
    big = (a.get("t") == "bigint" and int(a.get("exp", 0)) >= 309 and int(a.get("sign", 1)) > 0) or (
        a.get("t") == "lit" and isinstance(a.get("v"), int) and not isinstance(a.get("v"), bool) and a["v"] > 2 ** 1024)
    if not big:
        return False
    return _passes_without(case, dict(call, args=[{"t": "lit", "v": 1.0e300}]))


def _state_before(case):
    """the problem A of the case just before the call"""
    import props.C14 as C14
    c = case["case"]
    ses = C14.Session(c["text"], _env())
    for st in c["steps"]:
        if st["op"] == "edit":
            ses.apply_edit(st["edit"])
        else:
            ses.call({k: v for k, v in st.items() if k != "raised"}, trace=False)
    return ses


def C14_importance_all_keyerror(case, params):
    """Importance.all / Cells.set_equal_importance with a valid importance while a cell has no importance for a
    particle of the mode (for instance after mode.add)"""
    c, call = _call(case)
    if call.get("entry") not in ("Importance.all", "Cells.set_equal_importance") or not call.get("args"):
        return False
    a = call["args"][0]
    v = a.get("v") if a.get("t") == "lit" else None
    if isinstance(v, bool) or not isinstance(v, (int, float)) or not (v >= 0):
        return False
    try:
        ses = _state_before(case)
        pr = ses.A
        mode = set(pr.mode.particles)
        return any(p not in cell.importance._particle_importances for cell in pr.cells for p in mode)
    except Exception:
        return False


def C14_cells_setter_clears(case, params):
    """problem.cells = <Cells collection two members of which have the same number>"""
    c, call = _call(case)
    if call.get("entry") != "MCNP_Problem.cells" or not call.get("args"):
        return False
    a = call["args"][0]
    if a.get("t") != "cells" or not a.get("renumber"):
        return False
    return _passes_without(case, dict(call, args=[dict(a, renumber=[])]))


def _collides_with_other(ses, label, spec, want_cell):
    obj = ses.snapA.objs.get(label)
    if obj is None or spec.get("t") != "new":
        return False
    cell = getattr(obj, "_cell", None)
    if cell is None:
        return False
    coll = cell.complements if want_cell else cell.surfaces
    return any(o.number == spec["number"] for o in coll)


def C14_divider_before_append(case, params):
    """half_space.divider = <new surface / cell whose number another surface / complement of the cell has>"""
    c, call = _call(case)
    if call.get("entry") != "UnitHalfSpace.divider" or not call.get("args"):
        return False
    a = call["args"][0]
    if a.get("t") != "new" or a.get("kind") not in ("surface", "cell"):
        return False
    try:
        ses = _state_before(case)
        if not _collides_with_other(ses, call["label"], a, a["kind"] == "cell"):
            return False
    except Exception:
        return False
    return _passes_without(case, dict(call, args=[dict(a, number=98765)]))


def _hs_new_numbers(spec, out):
    if spec.get("op") == "leaf":
        d = spec["div"]
        if d.get("t") == "new" and d.get("kind") == "surface":
            out.append(d["number"])
    else:
        for k in ("a", "b"):
            if k in spec:
                _hs_new_numbers(spec[k], out)
    return out


def _hs_renumber(spec, ren):
    if spec.get("op") == "leaf":
        d = spec["div"]
        if d.get("t") == "new" and d["number"] in ren:
            return dict(spec, div=dict(d, number=ren[d["number"]]))
        return spec
    out = dict(spec)
    for k in ("a", "b"):
        if k in spec:
            out[k] = _hs_renumber(spec[k], ren)
    return out


def C14_geometry_partial_link(case, params):
    """cell.geometry = <tree with a new surface whose number another surface of the cell has>"""
    c, call = _call(case)
    if call.get("entry") != "Cell.geometry" or not call.get("args"):
        return False
    a = call["args"][0]
    if a.get("t") != "hs":
        return False
    nums = _hs_new_numbers(a, [])
    try:
        ses = _state_before(case)
        cell = ses.snapA.objs.get(call["label"])
        used = {s.number for s in cell.surfaces}
    except Exception:
        return False
    clash = [n for n in nums if n in used]
    if not clash:
        return False
    ren = {n: 98700 + i for i, n in enumerate(clash)}
    return _passes_without(case, dict(call, args=[_hs_renumber(a, ren)]))
